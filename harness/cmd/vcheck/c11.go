package main

import (
	"errors"
	"context"
	"crypto/sha256"
	"encoding/json"
	"fmt"
	"sort"
	"strings"

	gmsl "github.com/matrix-org/gomatrixserverlib"
	"github.com/matrix-org/gomatrixserverlib/spec"

	"verif/gen"
	"verif/mon"
	"verif/ref"
)

func init() {
	register(&propDef{
		ID:    "C11",
		Level: "exploration",
		Rule: "resolution inputs are the simulated room histories of C10 (2-5 state sets, full auth list). Each input is resolved through ResolveConflictsNew once as given, 5 more times unchanged (map iteration is randomised per call) and under 8 presentations: state-set order permuted, events inside every set shuffled, auth list shuffled, auth events duplicated 1-3 times, all of these together; the deprecated ResolveConflicts / ResolveStateConflictsV2 / ResolveStateConflicts are driven with permuted conflicted / unconflicted / auth lists; inputs of v3+ rooms (deterministic event IDs) are additionally resolved in every shard process and the results compared across processes. Every result is checked for well-formedness. Orderings: ReverseTopologicalOrdering (both orders), HeaderedReverseTopologicalOrdering and LineariseStateResponse on the room's events in 4 random presentation orders. " +
			"distinct = distinct (version, entry point, sorted input IDs); non-trivial = at least two conflicted keys or an auth difference for resolutions, at least one fork for orderings",
		Assumptions: []string{"metamorphic and structural oracles only; no reference model", "v1 resolver driven as documented (auth events one per state key)", "cross-process comparison only for room versions whose event IDs are content hashes"},
		Run:         runC11,
	})
}

func resultKey(ps []gmsl.PDU) string { return strings.Join(idsOf(ps), ",") }

func shufflePDUs(r *gen.Rand, ps []gmsl.PDU) []gmsl.PDU { return gen.Shuffled(r, ps) }

func checkWellFormed(c *mon.Ctx, what string, ver gmsl.RoomVersion, res []gmsl.PDU, sets [][]gmsl.PDU, supplied map[string]bool) {
	seen := map[ref.SKey]string{}
	for _, p := range res {
		if p == nil {
			c.Failf("wellformed:nil-event:"+what, "%s(v%s) returned a nil event", what, ver)
			return
		}
		if p.StateKey() == nil {
			c.Failf("wellformed:non-state-event:"+what, "%s(v%s) returned a non-state event %s", what, ver, p.EventID())
			continue
		}
		k := ref.SKey{Type: p.Type(), Key: *p.StateKey()}
		if other, ok := seen[k]; ok && other != p.EventID() {
			c.Failf("wellformed:two-events-for-one-key:"+what, "%s(v%s) returned both %s and %s for (%s, %q)", what, ver, other, p.EventID(), k.Type, k.Key)
		} else if ok {
			c.Failf("wellformed:duplicate-event:"+what, "%s(v%s) returned %s twice", what, ver, p.EventID())
		}
		seen[k] = p.EventID()
		if !supplied[p.EventID()] {
			c.Failf("wellformed:event-not-supplied:"+what, "%s(v%s) returned %s, which was neither in a state set nor among the auth events", what, ver, p.EventID())
		}
	}
	// agreed keys
	count := map[ref.SKey]map[string]int{}
	for _, s := range sets {
		for _, p := range s {
			k := ref.SKey{Type: p.Type(), Key: *p.StateKey()}
			if count[k] == nil {
				count[k] = map[string]int{}
			}
			count[k][p.EventID()]++
		}
	}
	for k, ids := range count {
		if len(ids) != 1 {
			continue
		}
		for id, n := range ids {
			if n == len(sets) && seen[k] != id {
				c.Failf("wellformed:agreed-key-not-kept:"+what, "%s(v%s): every state set has %s for (%s, %q) but the result has %q", what, ver, id, k.Type, k.Key, seen[k])
			}
		}
	}
}

func checkOrdering(c *mon.Ctx, what string, in, out []gmsl.PDU, byAuth bool) {
	inIDs := map[string]bool{}
	for _, p := range in {
		inIDs[p.EventID()] = true
	}
	pos := map[string]int{}
	for i, p := range out {
		if p == nil {
			c.Failf("ordering:nil-event:"+what, "%s returned a nil event", what)
			return
		}
		if _, dup := pos[p.EventID()]; dup {
			c.Failf("ordering:duplicate:"+what, "%s returned %s twice", what, p.EventID())
			return
		}
		pos[p.EventID()] = i
		if !inIDs[p.EventID()] {
			c.Failf("ordering:foreign-event:"+what, "%s returned %s which was not in the input", what, p.EventID())
			return
		}
	}
	if len(pos) != len(inIDs) {
		c.Failf("ordering:not-a-permutation:"+what, "%s returned %d distinct events for %d distinct inputs", what, len(pos), len(inIDs))
		return
	}
	for _, p := range out {
		refs := p.PrevEventIDs()
		if byAuth {
			refs = p.AuthEventIDs()
		}
		for _, a := range refs {
			if ap, ok := pos[a]; ok && ap > pos[p.EventID()] {
				c.Failf("ordering:ancestor-after-descendant:"+what, "%s places %s (position %d) before its referenced ancestor %s (position %d)", what, p.EventID(), pos[p.EventID()], a, ap)
				return
			}
		}
	}
	c.Count("orderings_checked")
}

type rawStateResponse struct {
	state, auth gmsl.EventJSONs
}

func (r rawStateResponse) GetAuthEvents() gmsl.EventJSONs  { return r.auth }
func (r rawStateResponse) GetStateEvents() gmsl.EventJSONs { return r.state }

func runC11(c *mon.Ctx) {
	versions := []gmsl.RoomVersion{"1", "2", "5", "10", "12"}
	if c.Thorough() {
		versions = nil
		for _, v := range sortedVersions() {
			if v != gmsl.RoomVersionPseudoIDs {
				versions = append(versions, v)
			}
		}
	}
	noRej := func(string) bool { return false }
	// (A) scenarios shared by every shard: cross-process agreement (v3+ only)
	shared := c.RandShared("shared-scenarios")
	nShared := 40
	if c.Thorough() {
		nShared = 400
	}
	for k := 0; k < nShared; k++ {
		for _, ver := range versions {
			t := ref.Traits(string(ver))
			if t.EventIDFormat == 1 {
				continue
			}
			sr := shared.Fork("s")
			name := fmt.Sprintf("xproc:%s#%d", ver, k)
			c.Case(name, map[string]any{"version": ver, "index": k}, func() {
				sc := genScenario(sr, ver, 5)
				res, err := gmsl.ResolveConflictsNew(ver, sc.stateSets, sc.authAll, userIDForSender, noRej)
				if err != nil {
					return
				}
				in := sha256.Sum256([]byte(fmt.Sprint(idsOf(sc.authAll))))
				c.Agree(name, fmt.Sprintf("input %x -> %x", in[:6], sha256.Sum256([]byte(resultKey(res)))))
				c.Count("cross_process_resolutions")
			})
		}
	}
	// (A2) version-1 algorithm, a kick on one branch against renames on the other, with the pre-fork member events as
	// auth events (one per state key, the keys in conflict included): the blocks of one type are resolved in map order,
	// and every one of them must see the same auth events
	for _, ver := range versions {
		t := ref.Traits(string(ver))
		if t == nil || t.StateRes != 1 {
			continue
		}
		for k := 0; k < c.Scale(48, 960); k++ {
			sr := c.Rand(fmt.Sprintf("v1-ancestors-%s-%d", ver, k))
			_, sets, auth, victim, skipped := v1AncestorScenario(sr, ver)
			if skipped != "" {
				c.Count(skipped)
				continue
			}
			c.Case("v1-ancestor-auth-events:"+string(ver), map[string]any{"version": ver, "kicked": victim}, func() {
				c.Nontrivial(fmt.Sprintf("v1anc|%s|%d", ver, k))
				seen := map[string]int{}
				for i := 0; i < 120; i++ {
					res, err := gmsl.ResolveConflictsNew(ver, sets, auth, userIDForSender, noRej)
					if err != nil {
						c.Failf("stateres:error", "%v", err)
						return
					}
					seen[resultKey(res)]++
					c.Count("resolutions")
				}
				c.Count("v1_repeated_resolutions_with_ancestor_auth_events")
				if len(seen) > 1 {
					c.Failf("order-dependence:alg1:run-to-run:ancestor-auth-events", "v%s: 120 identical calls of ResolveConflictsNew (a kick against renames, pre-fork member events as auth events) return %d different states: %v", ver, len(seen), seen)
				}
			})
		}
	}
	// (A4) algorithms 2 / 2.1, room versions whose power levels are not confined to +/-(2^53-1): three users whose levels
	// lie further apart than an int64 difference can express each send a power-levels event on a fork of their own.
	// The order of the three by sender power is a total order all the same: one result, for every order of the state
	// sets and every repetition
	for _, ver := range versions {
		t := ref.Traits(string(ver))
		if t == nil || t.StateRes == 1 || t.IntegerPLs || ver == gmsl.RoomVersionPseudoIDs {
			continue
		}
		for k := 0; k < c.Scale(24, 480); k++ {
			sr := c.Rand(fmt.Sprintf("extreme-levels-%s-%d", ver, k))
			// (the users at the middle and the low level are fixed beforehand: everybody joins the public room or not, the
			// scenario needs both of them in it). Nobody can be given more than the creator's 100, but anybody can be put
			// arbitrarily far below: 100, -1 and -2^63 are such that 100 - (-2^63) does not fit an int64 while the other
			// two differences do
			mid, low := simUsers[1], simUsers[2]
			lowest := func() *ref.Value {
				if t.EnforceCanon {
					return ref.S("-9223372036854775808") // (integers beyond 2^53-1 are no canonical JSON there; the string spelling is)
				}
				return gen.Pick(sr, []*ref.Value{ref.I(-9223372036854775808), ref.S("-9223372036854775808")})
			}
			top := ref.I(100)
			midLevel := gen.Pick(sr, []int64{-1, -1, -100, 0})
			levelsFor := func(creator, extra string) *ref.Value {
				ev := ref.O("m.room.power_levels", lowest())
				if extra != "" {
					ev.Set(extra, lowest())
				}
				return ref.O("users", ref.O(creator, top, mid, ref.I(midLevel), low, lowest()), "users_default", ref.I(0), "state_default", ref.I(50), "events_default", ref.I(0), "ban", ref.I(50), "kick", ref.I(50), "invite", ref.I(0), "events", ev)
			}
			simInitialPowerLevels = func(creator string) *ref.Value { return levelsFor(creator, "") }
			var s *sim
			var trunk *simBranch
			site, msg, pan := mon.Guard(func() { s, trunk = newSim(sr, ver) })
			simInitialPowerLevels = nil
			if pan {
				c.Count("extreme_level_scenarios_skipped_room_not_buildable")
				c.Note("extreme-levels room v%s not buildable: %s %s", ver, site, msg)
				continue
			}
			creator := s.users[0]
			levels := func(extra string) *ref.Value { return levelsFor(creator, extra) }
			if s.membership(trunk, mid) != "join" || s.membership(trunk, low) != "join" {
				c.Count("extreme_level_scenarios_skipped_too_few_members")
				continue
			}
			var sets [][]gmsl.PDU
			ok := true
			for i, u := range []string{creator, mid, low} {
				b := trunk.clone()
				if ev, accepted := s.propose(b, "m.room.power_levels", strp(""), u, levels(""), false); !accepted {
					// (a user at the bottom can change nothing; an event that repeats the levels as they are is one more
					// power-levels event all the same, and the three differ in sender and ID)
					_ = i
					ok = false
					if ev != nil {
						c.Note("extreme-levels v%s: the fork event of %s is refused: %v", ver, u, gmsl.Allowed(ev, s.provider(trunk), userIDForSender))
					}
				}
				sets = append(sets, b.list())
			}
			if !ok {
				c.Count("extreme_level_scenarios_skipped_fork_event_refused")
				continue
			}
			ids := make([]string, 0, len(s.all))
			for id := range s.all {
				ids = append(ids, id)
			}
			sort.Strings(ids)
			var auth []gmsl.PDU
			for _, id := range ids {
				auth = append(auth, s.all[id])
			}
			c.Case("power-levels-further-apart-than-int64:"+string(ver), map[string]any{"version": ver, "levels": []any{100, midLevel, "-2^63"}}, func() {
				c.Nontrivial(fmt.Sprintf("extreme|%s|%d", ver, k))
				seen := map[string]int{}
				for i := 0; i < 10; i++ {
					for _, perm := range [][3]int{{0, 1, 2}, {0, 2, 1}, {1, 0, 2}, {1, 2, 0}, {2, 0, 1}, {2, 1, 0}} {
						res, err := gmsl.ResolveConflictsNew(ver, [][]gmsl.PDU{sets[perm[0]], sets[perm[1]], sets[perm[2]]}, auth, userIDForSender, noRej)
						if err != nil {
							c.Failf("stateres:error", "%v", err)
							return
						}
						seen[resultKey(res)]++
						c.Count("resolutions")
					}
				}
				c.Count("repeated_resolutions_with_extreme_power_levels")
				if len(seen) > 1 {
					c.Failf(fmt.Sprintf("order-dependence:alg%d:run-to-run:power-levels-further-apart-than-int64", t.StateRes), "v%s: 60 resolutions of the same three state sets (three concurrent power-levels events by users at 100, %d and -2^63) return %d different states: %v", ver, midLevel, len(seen), seen)
				}
			})
		}
	}
	// (A3) algorithms 2 / 2.1: a chain of power-level changes on one branch, two of them sent by a user whom the first of
	// the chain promoted. Only the last is conflicted state; the others are in the auth difference, which the resolver
	// walks in map order: every one of them has to be replayed, on every run
	for _, ver := range versions {
		t := ref.Traits(string(ver))
		if t == nil || t.StateRes == 1 {
			continue
		}
		for k := 0; k < c.Scale(24, 480); k++ {
			sr := c.Rand(fmt.Sprintf("pl-chain-%s-%d", ver, k))
			s, trunk := newSim(sr, ver)
			creator, promoted := s.users[0], ""
			for _, u := range s.users[1:] {
				if s.membership(trunk, u) == "join" && u != creator {
					promoted = u
					break
				}
			}
			if promoted == "" {
				continue
			}
			a, b := trunk.clone(), trunk.clone()
			users := func(extra string) *ref.Value {
				u := ref.O(promoted, ref.I(50))
				if !t.PrivCreators {
					u.Set(creator, ref.I(100))
				}
				return ref.O("users", u, "state_default", ref.I(50), "events", ref.O("m.room.power_levels", ref.I(50)), "invite", ref.I(0), "kick", ref.I(50), "ban", ref.I(50), extra, ref.I(25))
			}
			ok := true
			for i, step := range []struct{ sender, extra string }{{creator, "redact"}, {promoted, "events_default"}, {creator, "users_default"}, {promoted, "redact"}} {
				if _, accepted := s.propose(a, "m.room.power_levels", strp(""), step.sender, users(step.extra), false); !accepted {
					ok = false
					_ = i
					break
				}
			}
			if !ok {
				c.Count("pl_chain_scenarios_skipped")
				continue
			}
			s.propose(b, "m.room.topic", strp(""), creator, ref.O("topic", ref.S("other branch")), false)
			sets := [][]gmsl.PDU{a.list(), b.list()}
			ids := make([]string, 0, len(s.all))
			for id := range s.all {
				ids = append(ids, id)
			}
			sort.Strings(ids)
			var auth []gmsl.PDU
			for _, id := range ids {
				auth = append(auth, s.all[id])
			}
			c.Case("power-level-chain-in-auth-difference:"+string(ver), map[string]any{"version": ver, "promoted": promoted}, func() {
				c.Nontrivial(fmt.Sprintf("plchain|%s|%d", ver, k))
				seen := map[string]int{}
				for i := 0; i < 60; i++ {
					res, err := gmsl.ResolveConflictsNew(ver, sets, auth, userIDForSender, noRej)
					if err != nil {
						c.Failf("stateres:error", "%v", err)
						return
					}
					seen[resultKey(res)]++
					c.Count("resolutions")
				}
				c.Count("repeated_resolutions_with_a_power_level_chain")
				if len(seen) > 1 {
					c.Failf("order-dependence:alg2:run-to-run:power-level-chain-in-auth-difference", "v%s: 60 identical calls of ResolveConflictsNew (four power-level changes on one branch, the second and fourth by a user the first promoted) return %d different states: %v", ver, len(seen), seen)
				}
			})
		}
	}
	// (B) per-shard scenarios: permutations, repeats, deprecated entry points, orderings
	r := c.Rand("scenarios")
	n := c.Scale(1200, 48000) / len(versions)
	for k := 0; k < n; k++ {
		for _, ver := range versions {
			t := ref.Traits(string(ver))
			sr := r.Fork("scenario")
			sc := genScenario(sr, ver, 6)
			pr := sr.Fork("perm")
			if t.StateRes != 1 && sr.Chance(0.25) && len(sc.stateSets) >= 2 {
				// state sets that are not fork tips (as after a merge): one set takes over another's event for some key, its
				// own event for that key stays behind in the auth difference
				i := sr.Intn(len(sc.stateSets))
				j := (i + 1 + sr.Intn(len(sc.stateSets)-1)) % len(sc.stateSets)
				from := map[stKey]gmsl.PDU{}
				for _, p := range sc.stateSets[j] {
					from[stKey{p.Type(), *p.StateKey()}] = p
				}
				mixed := append([]gmsl.PDU{}, sc.stateSets[i]...)
				for _, idx := range sr.Perm(len(mixed)) {
					p := mixed[idx]
					if q := from[stKey{p.Type(), *p.StateKey()}]; q != nil && q.EventID() != p.EventID() && p.Type() != "m.room.create" {
						mixed[idx] = q
						break
					}
				}
				sets := append([][]gmsl.PDU{}, sc.stateSets...)
				sets[i] = mixed
				sc.stateSets = sets
			}
			supplied := map[string]bool{}
			for _, s := range sc.stateSets {
				for _, p := range s {
					supplied[p.EventID()] = true
				}
			}
			authList := sc.authAll
			if t.StateRes == 1 {
				authList, _ = v1AuthState(sc.stateSets)
				if sr.Chance(0.5) {
					// still one auth event per state key, but also for the keys in conflict: the event the room had for that
					// key before the fork (it is among the auth events of the conflicting ones). The result is one state.
					have := map[stKey]bool{}
					cand := map[string]bool{}
					for _, p := range authList {
						have[stKey{p.Type(), *p.StateKey()}] = true
					}
					for _, set := range sc.stateSets {
						for _, p := range set {
							cand[p.EventID()] = true
						}
					}
					keys := []stKey{}
					for k := range sc.trunk.state {
						keys = append(keys, k)
					}
					sort.Slice(keys, func(i, j int) bool { return keys[i].Type+"|"+keys[i].Key < keys[j].Type+"|"+keys[j].Key })
					for _, k := range keys {
						p := sc.trunk.state[k]
						switch k.Type {
						case "m.room.create", "m.room.power_levels", "m.room.join_rules", "m.room.member", "m.room.third_party_invite":
							if !have[k] && !cand[p.EventID()] {
								authList = append(authList, p)
								have[k] = true
							}
						}
					}
				}
			}
			// the auth difference is part of what v2 resolves, so an auth event is a "supplied event" too
			for _, p := range authList {
				supplied[p.EventID()] = true
			}
			c.Case("permute:"+string(ver), describeScenario(sc, nil), func() {
				fpBefore := fingerprintPDUs(sc.stateSets, authList)
				base, err := gmsl.ResolveConflictsNew(ver, sc.stateSets, authList, userIDForSender, noRej)
				if err != nil {
					c.Failf("stateres:error", "%v", err)
					return
				}
				baseKey := resultKey(base)
				checkWellFormed(c, "ResolveConflictsNew", ver, base, sc.stateSets, supplied)
				c.Count("resolutions")
				nConfKeys := 0
				{
					cnt := map[ref.SKey]map[string]bool{}
					for _, s := range sc.stateSets {
						for _, p := range s {
							k := ref.SKey{Type: p.Type(), Key: *p.StateKey()}
							if cnt[k] == nil {
								cnt[k] = map[string]bool{}
							}
							cnt[k][p.EventID()] = true
						}
					}
					for _, ids := range cnt {
						if len(ids) > 1 {
							nConfKeys++
						}
					}
				}
				if nConfKeys >= 2 {
					all := []string{}
					for _, s := range sc.stateSets {
						all = append(all, strings.Join(idsOf(s), ","))
					}
					sort.Strings(all)
					c.Nontrivial(string(ver) + "|" + strings.Join(all, ";"))
				}
				variant := func(kind string) ([][]gmsl.PDU, []gmsl.PDU) {
					sets := make([][]gmsl.PDU, len(sc.stateSets))
					copy(sets, sc.stateSets)
					auth := append([]gmsl.PDU{}, authList...)
					all := kind == "all"
					if kind == "set-order" || all {
						sets = gen.Shuffled(pr, sets)
					}
					if kind == "set-order-reversed" {
						for i, j := 0, len(sets)-1; i < j; i, j = i+1, j-1 {
							sets[i], sets[j] = sets[j], sets[i]
						}
					}
					if kind == "set-rotated" {
						sets = append(sets[1:], sets[0])
					}
					if kind == "events-in-sets" || all {
						for i := range sets {
							sets[i] = shufflePDUs(pr, sets[i])
						}
					}
					if kind == "auth-order" || all {
						auth = shufflePDUs(pr, auth)
					}
					if kind == "auth-reversed" {
						for i, j := 0, len(auth)-1; i < j; i, j = i+1, j-1 {
							auth[i], auth[j] = auth[j], auth[i]
						}
					}
					if (kind == "auth-duplicated" || all) && t.StateRes != 1 {
						extra := []gmsl.PDU{}
						for _, p := range auth {
							for d := pr.Intn(3); d > 0; d-- {
								extra = append(extra, p)
							}
						}
						auth = shufflePDUs(pr, append(auth, extra...))
					}
					if kind == "auth-reloaded" || kind == "auth-duplicated-reloaded" || kind == "sets-reloaded" {
						// the same events as other objects: a caller that loads the auth events (or the state sets) from its
						// store separately holds two objects for one event
						impl := gmsl.MustGetRoomVersion(ver)
						reload := func(p gmsl.PDU) gmsl.PDU {
							if q, err := impl.NewEventFromTrustedJSONWithEventID(p.EventID(), p.JSON(), false); err == nil {
								return q
							}
							return p
						}
						if kind == "sets-reloaded" {
							for i := range sets {
								s2 := make([]gmsl.PDU, len(sets[i]))
								for j, p := range sets[i] {
									s2[j] = reload(p)
								}
								sets[i] = s2
							}
						} else {
							for i, p := range auth {
								auth[i] = reload(p)
							}
							if kind == "auth-duplicated-reloaded" && t.StateRes != 1 {
								n := len(auth)
								for i := 0; i < n; i++ {
									if pr.Chance(0.6) {
										auth = append(auth, reload(auth[i]))
									}
								}
								auth = shufflePDUs(pr, auth)
							}
						}
					}
					return sets, auth
				}
				for _, kind := range []string{"repeat", "repeat", "repeat", "repeat", "repeat", "auth-reloaded", "auth-duplicated-reloaded", "sets-reloaded", "set-order", "set-order-reversed", "set-rotated", "events-in-sets", "auth-order", "auth-reversed", "auth-duplicated", "all"} {
					sets, auth := variant(kind)
					got, err := gmsl.ResolveConflictsNew(ver, sets, auth, userIDForSender, noRej)
					c.Count("presentation|" + kind)
					if err != nil || resultKey(got) != baseKey {
						c.Failf(fmt.Sprintf("order-dependence:alg%d:new-entry-point:%s", t.StateRes, kind), "v%s: ResolveConflictsNew returns a different state under presentation %q\n base: %v\n now:  %v", ver, kind, short(idsOf(base)), short(idsOf(got)))
						return
					}
				}
				// a fault: the caller's sender lookup answers with an error (or with nobody) for one of the room's users,
				// every time it is asked about that user. Whatever the resolver makes of such events, it makes the same
				// of them in every presentation of the input.
				victims := []string{gen.Pick(pr, simUsers)}
				if t.StateRes == 1 {
					victims = simUsers // the version-1 resolver checks candidates one by one against state it keeps between them
				}
				for _, mode := range []string{"error", "nobody"} {
				for _, victim := range victims {
					faulty := func(roomID spec.RoomID, senderID spec.SenderID) (*spec.UserID, error) {
						if string(senderID) == victim {
							if mode == "error" {
								return nil, errors.New("scripted fault")
							}
							return nil, nil
						}
						return userIDForSender(roomID, senderID)
					}
					var fbase string
					var ferr error
					site, msg, pan := mon.Guard(func() {
						var rr []gmsl.PDU
						rr, ferr = gmsl.ResolveConflictsNew(ver, sc.stateSets, authList, faulty, noRej)
						fbase = resultKey(rr)
					})
					if pan {
						c.Failf("stateres:panic:sender-lookup-fails:"+site, "v%s: resolving with a sender lookup that answers %s for %s panics: %s", ver, mode, victim, msg)
						continue
					}
					for _, kind := range []string{"repeat", "set-order", "events-in-sets", "auth-order", "all"} {
						sets, auth := variant(kind)
						got, err := gmsl.ResolveConflictsNew(ver, sets, auth, faulty, noRej)
						c.Count("presentation|sender-lookup-fails")
						if (err == nil) != (ferr == nil) || resultKey(got) != fbase {
							c.Failf(fmt.Sprintf("order-dependence:alg%d:sender-lookup-fails:%s", t.StateRes, kind), "v%s: with a sender lookup that answers %s for %s, ResolveConflictsNew returns a different state under presentation %q", ver, mode, victim, kind)
							break
						}
					}
				}
				}
				// a history: the same events resolved with an auth chain that has holes in it (a server that has not fetched
				// everything yet), then once more with the full chain - the answer to the full question does not depend on
				// what was asked before, and nobody's events are touched
				{
					holes := map[int]bool{}
					for n := 1 + pr.Intn(3); n > 0 && len(authList) > 2; n-- {
						holes[pr.Intn(len(authList))] = true
					}
					var partial []gmsl.PDU
					for i, p := range authList {
						if !holes[i] || p.Type() == "m.room.create" {
							partial = append(partial, p)
						}
					}
					var k1, k2 string
					var e1, e2 error
					site, msg, pan := mon.Guard(func() {
						var r1, r2 []gmsl.PDU
						r1, e1 = gmsl.ResolveConflictsNew(ver, sc.stateSets, partial, userIDForSender, noRej)
						r2, e2 = gmsl.ResolveConflictsNew(ver, sc.stateSets, partial, userIDForSender, noRej)
						k1, k2 = resultKey(r1), resultKey(r2)
					})
					c.Count("presentation|auth-chain-with-holes")
					if pan {
						c.Failf("stateres:panic:auth-chain-with-holes:"+site, "v%s: resolving with an incomplete auth chain panics: %s", ver, msg)
					} else if (e1 == nil) != (e2 == nil) || k1 != k2 {
						c.Failf(fmt.Sprintf("order-dependence:alg%d:auth-chain-with-holes:repeat", t.StateRes), "v%s: two identical resolutions with an incomplete auth chain differ\n first:  %v %v\n second: %v %v", ver, k1, e1, k2, e2)
					}
					again, err := gmsl.ResolveConflictsNew(ver, sc.stateSets, authList, userIDForSender, noRej)
					if err != nil || resultKey(again) != baseKey {
						c.Failf(fmt.Sprintf("order-dependence:alg%d:history:after-an-auth-chain-with-holes", t.StateRes), "v%s: the same state sets and auth events resolve differently after a resolution with an incomplete auth chain in between\n base: %v\n now:  %v", ver, short(idsOf(base)), short(idsOf(again)))
					}
				}
				if fpNow := fingerprintPDUs(sc.stateSets, authList); fpNow != fpBefore {
					c.Failf("stateres:input-events-modified", "v%s: state resolution changed the events it was given (auth / prev references or JSON of a supplied event read differently afterwards)", ver)
				}
				// all sets equal -> that state
				same := [][]gmsl.PDU{sc.stateSets[0], shufflePDUs(pr, sc.stateSets[0]), sc.stateSets[0]}
				if eq, err := gmsl.ResolveConflictsNew(ver, same, authList, userIDForSender, noRej); err != nil || resultKey(eq) != resultKey(sc.stateSets[0]) {
					c.Failf(fmt.Sprintf("wellformed:equal-sets-not-returned:alg%d", t.StateRes), "v%s: resolving three copies of one state set does not return that state", ver)
				}
				// deprecated entry points
				var flat []gmsl.PDU
				for _, s := range sc.stateSets {
					flat = append(flat, s...)
				}
				depBase, err := gmsl.ResolveConflicts(ver, flat, authList, userIDForSender, noRej)
				if err == nil {
					// (the deprecated entry point is given the state sets as one list; a key on which all sets agree is
					// one of its unconflicted keys, and the result keeps that event - ninth seeding round, C11-R)
					checkWellFormed(c, "ResolveConflicts", ver, depBase, sc.stateSets, supplied)
					for i := 0; i < 6; i++ {
						f2, a2 := shufflePDUs(pr, flat), authList
						if i%2 == 1 {
							a2 = shufflePDUs(pr, authList)
						}
						if i == 5 && t.StateRes != 1 {
							a2 = append(append([]gmsl.PDU{}, a2...), a2[:len(a2)/2]...)
						}
						got, err := gmsl.ResolveConflicts(ver, f2, a2, userIDForSender, noRej)
						c.Count("presentation|deprecated")
						if err != nil || resultKey(got) != resultKey(depBase) {
							c.Failf(fmt.Sprintf("order-dependence:alg%d:deprecated-ResolveConflicts", t.StateRes), "v%s: deprecated ResolveConflicts returns a different state for a permuted input\n base: %v\n now:  %v", ver, short(idsOf(depBase)), short(idsOf(got)))
							break
						}
					}
				}
				// an auth-event list that does not hold the create event (the state sets do): the resolver finds it there, and
				// what comes back is a state - the agreed keys in it (tenth seeding round, C11-T: the look into the state
				// lists was made only for an EMPTY auth list, every other such call resolved to nothing)
				if t.StateRes != 1 {
					var noCreate []gmsl.PDU
					for _, a := range authList {
						if a.Type() != "m.room.create" {
							noCreate = append(noCreate, a)
						}
					}
					if len(noCreate) > 0 && len(noCreate) < len(authList) {
						if got, err := gmsl.ResolveConflicts(ver, flat, noCreate, userIDForSender, noRej); err == nil {
							c.Count("deprecated_resolutions_without_the_create_event_among_the_auth_events")
							checkWellFormed(c, "ResolveConflicts(auth events without the create event)", ver, got, sc.stateSets, supplied)
						}
					}
				}
				// the low-level deprecated functions with explicit conflicted / unconflicted lists
				conf, unconf := splitLikeCaller(flat)
				if t.StateRes == 1 {
					b1 := gmsl.ResolveStateConflicts(conf, authList, userIDForSender)
					for i := 0; i < 4; i++ {
						got := gmsl.ResolveStateConflicts(shufflePDUs(pr, conf), authList, userIDForSender)
						if resultKey(got) != resultKey(b1) {
							c.Failf("order-dependence:alg1:ResolveStateConflicts", "v%s: ResolveStateConflicts depends on the order of the conflicted list", ver)
							break
						}
					}
				} else {
					b2 := gmsl.ResolveStateConflictsV2(conf, unconf, authList, userIDForSender, noRej)
					for i := 0; i < 4; i++ {
						got := gmsl.ResolveStateConflictsV2(shufflePDUs(pr, conf), shufflePDUs(pr, unconf), shufflePDUs(pr, authList), userIDForSender, noRej)
						c.Count("presentation|deprecated-v2")
						if resultKey(got) != resultKey(b2) {
							c.Failf(fmt.Sprintf("order-dependence:alg%d:deprecated-ResolveStateConflictsV2", t.StateRes), "v%s: ResolveStateConflictsV2 returns a different state for permuted lists\n base: %v\n now:  %v", ver, short(idsOf(b2)), short(idsOf(got)))
							break
						}
					}
				}
				if t.StateRes != 1 {
					// the same lists handed over as two windows of one array (what a caller that split one slice has)
					b2 := gmsl.ResolveStateConflictsV2(conf, unconf, authList, userIDForSender, noRej)
					both := append(append(make([]gmsl.PDU, 0, len(conf)+len(unconf)), conf...), unconf...)
					got := gmsl.ResolveStateConflictsV2(both[:len(conf)], both[len(conf):], authList, userIDForSender, noRej)
					c.Count("presentation|deprecated-v2-shared-array")
					if resultKey(got) != resultKey(b2) {
						c.Failf(fmt.Sprintf("order-dependence:alg%d:deprecated-ResolveStateConflictsV2:shared-array", t.StateRes), "v%s: ResolveStateConflictsV2 returns a different state when conflicted and unconflicted are adjacent windows of one array\n base: %v\n now:  %v", ver, short(idsOf(b2)), short(idsOf(got)))
					}
					for i, p := range unconf {
						if both[len(conf)+i] != p {
							c.Failf(fmt.Sprintf("order-dependence:alg%d:deprecated-ResolveStateConflictsV2:callers-list-overwritten", t.StateRes), "v%s: ResolveStateConflictsV2 overwrote element %d of the caller's unconflicted list", ver, i)
							break
						}
					}
				}
				if t.StateRes != 1 {
					// ... and all three lists as windows of one array, in each of the six layouts: nothing is written behind
					// the end of one of them into the next
					b2 := gmsl.ResolveStateConflictsV2(conf, unconf, authList, userIDForSender, noRej)
					lists := map[string][]gmsl.PDU{"conflicted": conf, "unconflicted": unconf, "auth": authList}
					for _, layout := range [][3]string{{"auth", "conflicted", "unconflicted"}, {"auth", "unconflicted", "conflicted"}, {"conflicted", "auth", "unconflicted"},
						{"conflicted", "unconflicted", "auth"}, {"unconflicted", "auth", "conflicted"}, {"unconflicted", "conflicted", "auth"}} {
						buf := make([]gmsl.PDU, 0, len(conf)+len(unconf)+len(authList))
						win := map[string][]gmsl.PDU{}
						for _, n := range layout {
							start := len(buf)
							buf = append(buf, lists[n]...)
							win[n] = buf[start:len(buf)] // (capacity reaches to the end of the buffer, as slicing gives it)
						}
						snapshot := append([]gmsl.PDU{}, buf...)
						got := gmsl.ResolveStateConflictsV2(win["conflicted"], win["unconflicted"], win["auth"], userIDForSender, noRej)
						c.Count("presentation|deprecated-v2-one-buffer")
						if resultKey(got) != resultKey(b2) {
							c.Failf(fmt.Sprintf("order-dependence:alg%d:deprecated-ResolveStateConflictsV2:shared-array", t.StateRes), "v%s: ResolveStateConflictsV2 returns a different state when the three lists are windows of one array laid out %v\n base: %v\n now:  %v", ver, layout, short(idsOf(b2)), short(idsOf(got)))
							break
						}
						over := false
						for i := range snapshot {
							if buf[i] != snapshot[i] {
								over = true
							}
						}
						if over {
							c.Failf(fmt.Sprintf("order-dependence:alg%d:deprecated-ResolveStateConflictsV2:callers-list-overwritten", t.StateRes), "v%s: ResolveStateConflictsV2 overwrote the caller's lists (one array laid out %v)", ver, layout)
							break
						}
					}
				}
				// the smallest room: every state set is just the create event, nothing in the auth chain
				{
					only := []gmsl.PDU{sc.s.create}
					if got, err := gmsl.ResolveConflictsNew(ver, [][]gmsl.PDU{only, only}, nil, userIDForSender, noRej); err != nil || resultKey(got) != resultKey(only) {
						c.Failf(fmt.Sprintf("wellformed:equal-sets-not-returned:alg%d:create-only", t.StateRes), "v%s: ResolveConflictsNew of two copies of {create} returns %v, %v", ver, short(idsOf(got)), err)
					}
					if got, err := gmsl.ResolveConflicts(ver, []gmsl.PDU{sc.s.create, sc.s.create}, nil, userIDForSender, noRej); err != nil || resultKey(got) != resultKey(only) {
						c.Failf(fmt.Sprintf("wellformed:equal-sets-not-returned:alg%d:create-only:deprecated", t.StateRes), "v%s: deprecated ResolveConflicts of two copies of {create} returns %v, %v", ver, short(idsOf(got)), err)
					}
					c.Count("create_only_rooms")
				}
				// orderings over the room's events
				allEvents := append([]gmsl.PDU{}, sc.authAll...)
				for i := 0; i < 4; i++ {
					in := shufflePDUs(pr, allEvents)
					if i == 3 {
						in = in[:len(in)*2/3] // an arbitrary subset: ancestors may be missing
					}
					if i == 2 && len(in) > 2 {
						// some events listed more than once: the orderings are over the distinct events
						in = append(in, in[pr.Intn(len(in))], in[pr.Intn(len(in))])
						in = shufflePDUs(pr, in)
					}
					for _, byAuth := range []bool{true, false} {
						order := gmsl.TopologicalOrderByPrevEvents
						name := "by-prev-events"
						if byAuth {
							order, name = gmsl.TopologicalOrderByAuthEvents, "by-auth-events"
						}
						var out []gmsl.PDU
						site, msg, pan := mon.Guard(func() { out = gmsl.ReverseTopologicalOrdering(in, order) })
						if pan {
							c.Failf("ordering:panic:"+site, "ReverseTopologicalOrdering(%s) panics: %s", name, msg)
							continue
						}
						checkOrdering(c, "ReverseTopologicalOrdering:"+name, in, out, byAuth)
						site, msg, pan = mon.Guard(func() { out = gmsl.HeaderedReverseTopologicalOrdering(in, order) })
						if pan {
							c.Failf("ordering:panic:"+site, "HeaderedReverseTopologicalOrdering(%s) panics: %s", name, msg)
							continue
						}
						checkOrdering(c, "HeaderedReverseTopologicalOrdering:"+name, in, out, byAuth)
					}
				}
				// LineariseStateResponse over a real /state-shaped response
				st := sc.stateSets[0]
				resp := rawStateResponse{}
				inIDs := map[string]gmsl.PDU{}
				for _, p := range shufflePDUs(pr, st) {
					resp.state = append(resp.state, spec.RawJSON(p.JSON()))
					inIDs[p.EventID()] = p
				}
				for _, p := range shufflePDUs(pr, sc.authAll) {
					resp.auth = append(resp.auth, spec.RawJSON(p.JSON()))
					inIDs[p.EventID()] = p
				}
				var lin []gmsl.PDU
				site, msg, pan := mon.Guard(func() { lin = gmsl.LineariseStateResponse(ver, resp) })
				if pan {
					c.Failf("ordering:panic:"+site, "LineariseStateResponse panics: %s", msg)
				} else {
					var in []gmsl.PDU
					for _, p := range inIDs {
						in = append(in, p)
					}
					checkOrdering(c, "LineariseStateResponse", in, lin, true)
				}
				// RequestBackfill: two servers answer with overlapping, shuffled slices of the room's
				// events (messages included); the result must be an ancestors-first permutation of the
				// distinct events that pass the auth checks
				{
					var timeline []gmsl.PDU
					timeline = append(timeline, sc.authAll...)
					bf := &stubBackfiller{stubStateProvider: stubStateProvider{state: map[string]gmsl.PDU{}}, pool: sc.s.all}
					for _, p := range sc.stateSets[0] {
						bf.ids = append(bf.ids, p.EventID())
						bf.state[p.EventID()] = p
					}
					half := len(timeline) * 2 / 3
					a, b2 := shufflePDUs(pr, timeline[:half]), shufflePDUs(pr, timeline[len(timeline)-half:])
					for _, p := range a {
						bf.txns = append(bf.txns, nil)
						bf.txns[0] = append(bf.txns[0], json.RawMessage(p.JSON()))
					}
					bf.txns = bf.txns[:1]
					if pr.Chance(0.5) && len(a) > 1 {
						// a server may list an event twice in one response
						bf.txns[0] = append(bf.txns[0], json.RawMessage(a[pr.Intn(len(a))].JSON()))
					}
					var second []json.RawMessage
					for _, p := range b2 {
						second = append(second, json.RawMessage(p.JSON()))
					}
					bf.txns = append(bf.txns, second)
					var out []gmsl.PDU
					var err error
					site, msg, pan := mon.Guard(func() {
						out, err = gmsl.RequestBackfill(context.Background(), "me.example", bf, c14ring, sc.s.roomID, ver, []string{timeline[len(timeline)-1].EventID()}, 10000, userIDForSender)
					})
					if pan {
						c.Failf("ordering:panic:"+site, "RequestBackfill panics: %s", msg)
					} else if err == nil {
						// the inputs of the ordering are exactly the returned events; check the order and distinctness
						checkOrdering(c, "RequestBackfill", out, out, false)
						seen := map[string]bool{}
						for _, p := range out {
							if seen[p.EventID()] {
								c.Failf("ordering:duplicate:RequestBackfill", "RequestBackfill returned %s twice although two servers sent it", p.EventID())
							}
							seen[p.EventID()] = true
							if _, ok := sc.s.all[p.EventID()]; !ok {
								c.Failf("ordering:foreign-event:RequestBackfill", "RequestBackfill returned an event no server sent")
							}
						}
						c.Count("backfills")
					}
				}
				if c.WantSample() && nConfKeys >= 2 && len(sc.s.trace) < 30 {
					b, _ := json.Marshal(short(idsOf(base)))
					c.Sample(map[string]any{"version": ver, "history": sc.s.trace, "resolved": json.RawMessage(b), "presentations_tried": 13})
				}
			})
		}
	}
	c.Floor("resolutions", 100)
	c.Floor("orderings_checked", 500)
	c.Floor("presentation|all", 100)
}

type stubBackfiller struct {
	stubStateProvider
	pool map[string]gmsl.PDU
	txns [][]json.RawMessage
	next int
}

func (b *stubBackfiller) Backfill(ctx context.Context, origin, server spec.ServerName, roomID string, limit int, fromEventIDs []string) (gmsl.Transaction, error) {
	i := b.next % len(b.txns)
	b.next++
	return gmsl.Transaction{Origin: server, PDUs: b.txns[i]}, nil
}
func (b *stubBackfiller) ServersAtEvent(ctx context.Context, roomID, eventID string) []spec.ServerName {
	return []spec.ServerName{"origin.example", "other.example"}
}
func (b *stubBackfiller) ProvideEvents(roomVer gmsl.RoomVersion, eventIDs []string) ([]gmsl.PDU, error) {
	var out []gmsl.PDU
	for _, id := range eventIDs {
		if p, ok := b.pool[id]; ok {
			out = append(out, p)
		}
	}
	return out, nil
}

// splitLikeCaller splits a flat event list the way the deprecated ResolveConflicts does.
func splitLikeCaller(flat []gmsl.PDU) (conf, unconf []gmsl.PDU) {
	by := map[ref.SKey][]gmsl.PDU{}
	seen := map[string]bool{}
	keys := []ref.SKey{}
	for _, p := range flat {
		if seen[p.EventID()] {
			continue
		}
		seen[p.EventID()] = true
		k := ref.SKey{Type: p.Type(), Key: *p.StateKey()}
		if _, ok := by[k]; !ok {
			keys = append(keys, k)
		}
		by[k] = append(by[k], p)
	}
	for _, k := range keys {
		if len(by[k]) > 1 {
			conf = append(conf, by[k]...)
		} else {
			unconf = append(unconf, by[k]...)
		}
	}
	return
}

// v1AncestorScenario builds a version-1-algorithm room with a kick on one branch against renames on the other and, as
// auth events, the pre-fork events (one per state key, the keys in conflict included; for the kicker's own key
// sometimes one of the two candidates).
func v1AncestorScenario(sr *gen.Rand, ver gmsl.RoomVersion) (*sim, [][]gmsl.PDU, []gmsl.PDU, string, string) {
	s, trunk := newSim(sr, ver)
	var members []string
	for _, u := range s.users[1:] {
		if s.membership(trunk, u) == "join" {
			members = append(members, u)
		}
	}
	if len(members) == 0 {
		return nil, nil, nil, "", "v1_ancestor_scenarios_skipped_nobody_joined"
	}
	creator, victim := s.users[0], members[0]
	for _, u := range members {
		// somebody the creator can kick
		if _, ok := s.propose(trunk.clone(), "m.room.member", strp(u), creator, ref.O("membership", ref.S("leave")), false); ok {
			victim = u
			break
		}
	}
	b1, b2 := trunk.clone(), trunk.clone()
	// (the kick lies deeper than the renames of the other branch, so that it is the last candidate tried)
	s.propose(b1, "m.room.topic", strp(""), creator, ref.O("topic", ref.S("one")), false)
	s.propose(b1, "m.room.topic", strp(""), creator, ref.O("topic", ref.S("two")), false)
	s.propose(b1, "m.room.topic", strp(""), creator, ref.O("topic", ref.S("three")), false)
	if _, ok := s.propose(b1, "m.room.member", strp(victim), creator, ref.O("membership", ref.S("leave")), false); !ok {
		return nil, nil, nil, "", "v1_ancestor_scenarios_skipped_kick_refused"
	}
	s.propose(b1, "m.room.member", strp(creator), creator, ref.O("membership", ref.S("join"), "displayname", ref.S("one")), false)
	s.propose(b2, "m.room.member", strp(creator), creator, ref.O("membership", ref.S("join"), "displayname", ref.S("two")), false)
	s.propose(b2, "m.room.member", strp(victim), victim, ref.O("membership", ref.S("join"), "displayname", ref.S("renamed")), false)
	sets := [][]gmsl.PDU{b1.list(), b2.list()}
	var auth []gmsl.PDU
	for _, key := range []stKey{{"m.room.create", ""}, {"m.room.power_levels", ""}, {"m.room.join_rules", ""}, {"m.room.member", creator}, {"m.room.member", victim}} {
		p := trunk.state[key]
		if key.Key == creator && key.Type == "m.room.member" {
			// ... or, for the kicker's own key, one of the two candidates themselves (which may well be the winner)
			switch sr.Intn(3) {
			case 1:
				p = b1.state[key]
			case 2:
				p = b2.state[key]
			}
		}
		if p != nil {
			auth = append(auth, p)
		}
	}
	return s, sets, auth, victim, ""
}

// fingerprintPDUs is what the supplied events say about themselves: ID, auth and prev references, JSON.
func fingerprintPDUs(sets [][]gmsl.PDU, auth []gmsl.PDU) string {
	h := sha256.New()
	one := func(p gmsl.PDU) {
		if p == nil {
			return
		}
		fmt.Fprintf(h, "%s|%q|%q|", p.EventID(), p.AuthEventIDs(), p.PrevEventIDs())
		h.Write(p.JSON())
	}
	for _, s := range sets {
		for _, p := range s {
			one(p)
		}
	}
	for _, p := range auth {
		one(p)
	}
	return fmt.Sprintf("%x", h.Sum(nil))
}
