package main

import (
	"context"
	"encoding/json"
	"fmt"
	"io"
	"net"
	"log"
	"net/http"
	"net/http/httptest"
	"sort"
	"strconv"
	"strings"
	"sync"
	"time"

	gmsl "github.com/matrix-org/gomatrixserverlib"
	"github.com/matrix-org/gomatrixserverlib/fclient"
	"github.com/matrix-org/gomatrixserverlib/spec"
	"github.com/miekg/dns"

	"verif/gen"
	"verif/mon"
	"verif/ref"
)

func init() {
	register(&propDef{
		ID:    "C16",
		Level: "exploration",
		Rule: "(a) resolutions: server-name shape {DNS name, IPv4, IPv6 literal} x {port, no port} + invalid names x well-known outcome {absent, 404, 500, oversized with / without Content-Length, malformed JSON, no m.server, empty m.server, delegating to name / name:port / IPv4 / IPv4:port / IPv6 / IPv6:port / invalid} x SRV outcome for the (delegated) name {none, _matrix-fed, _matrix only, both, 3 records, trailing dot, SERVFAIL}, with a scripted default HTTP transport and an in-process DNS server; (b) LookupWellKnown cache lifetime for {no header, Expires, max-age, both, malformed}; (c) network policy: the decision function on 40 allow / deny CIDR configurations (empty, overlapping, /32, /0, IPv6, unparsable entry first / middle / last) x addresses inside, outside and on both edges of every range, and real TCP dials to listeners on 127.0.0.1 / 127.0.0.2 / 127.0.1.1 / ::1 through the federation client's dialer (IP literal) and through the DNS-cache dialer (by name), with the listeners' accept logs as the connection monitor. " +
			"distinct = distinct (name, well-known outcome, SRV outcome) / (config, address); non-trivial = resolutions that reach the well-known or SRV step, policy cases with both lists non-empty or an unparsable entry",
		Assumptions: []string{"reference decision tables harness/ref/resolve.go and harness/ref/netacl.go", "http.DefaultTransport and net.DefaultResolver are replaced inside the harness process only", "loopback listeners; SRV priority / weight ordering is documented as ignored by the library and not asserted"},
		Shards: func(string) int { return 4 },
		Run:    runC16,
	})
}

// ---- scripted environment ----

type wkReply struct {
	status        int
	body          []byte
	contentLength bool // send a Content-Length header
	headers       map[string]string
	extraHeaders  [][2]string // added after headers, so that a header can appear on several lines
	err           bool
	block         bool // no answer until the request's context is done
}

type scriptedTransport struct {
	mu    sync.Mutex
	wk    map[string]wkReply // host -> reply
	calls []string
}

func (s *scriptedTransport) RoundTrip(r *http.Request) (*http.Response, error) {
	s.mu.Lock()
	s.calls = append(s.calls, r.URL.Host+r.URL.Path)
	rep, ok := s.wk[r.URL.Host]
	s.mu.Unlock()
	if ok && rep.block {
		<-r.Context().Done()
		return nil, r.Context().Err()
	}
	if !ok || rep.err || r.URL.Path != "/.well-known/matrix/server" {
		return nil, fmt.Errorf("connection refused (scripted)")
	}
	h := http.Header{}
	for k, v := range rep.headers {
		h.Set(k, v)
	}
	for _, kv := range rep.extraHeaders {
		h.Add(kv[0], kv[1])
	}
	resp := &http.Response{StatusCode: rep.status, Status: fmt.Sprint(rep.status), Header: h, Body: io.NopCloser(strings.NewReader(string(rep.body))), Request: r, ProtoMajor: 1, ProtoMinor: 1, ContentLength: -1}
	if rep.contentLength {
		h.Set("Content-Length", strconv.Itoa(len(rep.body)))
		resp.ContentLength = int64(len(rep.body))
	}
	return resp, nil
}

type srvScript struct {
	fed, legacy []dns.SRV
	fedFail     bool // SERVFAIL on the _matrix-fed query
	legacyFail  bool
}

type dnsScript struct {
	mu   sync.Mutex
	srv  map[string]srvScript // name (no trailing dot) -> script
	a    map[string][]string  // name -> IPv4/IPv6 addresses
	seen []string
}

func (d *dnsScript) ServeDNS(w dns.ResponseWriter, r *dns.Msg) {
	msg := dns.Msg{}
	msg.SetReply(r)
	q := r.Question[0]
	name := strings.TrimSuffix(q.Name, ".")
	d.mu.Lock()
	d.seen = append(d.seen, fmt.Sprintf("%s %s", dns.TypeToString[q.Qtype], name))
	defer d.mu.Unlock()
	switch q.Qtype {
	case dns.TypeSRV:
		for _, pre := range []string{"_matrix-fed._tcp.", "_matrix._tcp."} {
			if strings.HasPrefix(name, pre) {
				sc, ok := d.srv[strings.TrimPrefix(name, pre)]
				if !ok {
					break
				}
				recs, fail := sc.fed, sc.fedFail
				if pre == "_matrix._tcp." {
					recs, fail = sc.legacy, sc.legacyFail
				}
				if fail {
					msg.Rcode = dns.RcodeServerFailure
					_ = w.WriteMsg(&msg)
					return
				}
				for _, rec := range recs {
					rr := rec
					rr.Hdr = dns.RR_Header{Name: q.Name, Rrtype: dns.TypeSRV, Class: dns.ClassINET, Ttl: 60}
					msg.Answer = append(msg.Answer, &rr)
				}
			}
		}
		if len(msg.Answer) == 0 {
			msg.Rcode = dns.RcodeNameError
		}
	case dns.TypeA, dns.TypeAAAA:
		for _, ip := range d.a[name] {
			p := net.ParseIP(ip)
			if p.To4() != nil && q.Qtype == dns.TypeA {
				msg.Answer = append(msg.Answer, &dns.A{Hdr: dns.RR_Header{Name: q.Name, Rrtype: dns.TypeA, Class: dns.ClassINET, Ttl: 60}, A: p.To4()})
			}
			if p.To4() == nil && q.Qtype == dns.TypeAAAA {
				msg.Answer = append(msg.Answer, &dns.AAAA{Hdr: dns.RR_Header{Name: q.Name, Rrtype: dns.TypeAAAA, Class: dns.ClassINET, Ttl: 60}, AAAA: p})
			}
		}
		if len(d.a[name]) == 0 {
			msg.Rcode = dns.RcodeNameError
		}
	default:
		msg.Rcode = dns.RcodeNameError
	}
	_ = w.WriteMsg(&msg)
}

// startEnv installs the scripted HTTP transport and DNS server process-wide.
func startEnv() (*scriptedTransport, *dnsScript, func()) {
	st := &scriptedTransport{wk: map[string]wkReply{}}
	ds := &dnsScript{srv: map[string]srvScript{}, a: map[string][]string{}}
	oldT, oldR := http.DefaultTransport, net.DefaultResolver
	http.DefaultTransport = st
	pc, err := net.ListenPacket("udp", "127.0.0.1:0")
	if err != nil {
		panic(err)
	}
	srv := &dns.Server{PacketConn: pc, Handler: ds}
	go func() { _ = srv.ActivateAndServe() }()
	addr := pc.LocalAddr().String()
	net.DefaultResolver = &net.Resolver{PreferGo: true, Dial: func(ctx context.Context, network, address string) (net.Conn, error) {
		return net.Dial("udp", addr)
	}}
	return st, ds, func() {
		_ = srv.Shutdown()
		http.DefaultTransport, net.DefaultResolver = oldT, oldR
	}
}

// ---- resolution workload ----

var wkOutcomes = []string{"absent", "404", "500", "203", "oversized-with-length", "oversized-no-length", "malformed", "no-m.server", "empty-m.server", "to-name", "to-name-port", "to-ipv4", "to-ipv4-port", "to-ipv6", "to-ipv6-port", "to-invalid", "wrong-type"}
var srvOutcomes = []string{"none", "fed", "legacy", "both", "three", "same-target-two-ports", "same-record-twice", "trailing-dot", "root-target", "root-target-next-to-a-record", "one-malformed-target", "legacy-one-malformed-target", "fed-servfail", "legacy-servfail"}

func mkSRV(target string, port uint16) dns.SRV {
	return dns.SRV{Target: dns.Fqdn(target), Port: port, Priority: 10, Weight: 5}
}

func srvFor(outcome, name string) (srvScript, ref.SRVAnswer) {
	sc, ans := srvScript{}, ref.SRVAnswer{}
	fed := []dns.SRV{mkSRV("fed."+name, 8443)}
	leg := []dns.SRV{mkSRV("legacy."+name, 8444)}
	switch outcome {
	case "fed":
		sc.fed, ans.Fed = fed, []ref.SRVRecord{{Target: "fed." + name, Port: 8443}}
	case "legacy":
		sc.legacy, ans.Legacy = leg, []ref.SRVRecord{{Target: "legacy." + name, Port: 8444}}
	case "both":
		sc.fed, sc.legacy = fed, leg
		ans.Fed, ans.Legacy = []ref.SRVRecord{{Target: "fed." + name, Port: 8443}}, []ref.SRVRecord{{Target: "legacy." + name, Port: 8444}}
	case "three":
		for i := 0; i < 3; i++ {
			t := fmt.Sprintf("s%d.%s", i, name)
			sc.fed = append(sc.fed, mkSRV(t, uint16(9000+i)))
			ans.Fed = append(ans.Fed, ref.SRVRecord{Target: t, Port: 9000 + i})
		}
	case "same-target-two-ports":
		for _, p := range []int{8001, 8002} {
			sc.legacy = append(sc.legacy, mkSRV("multi."+name, uint16(p)))
			ans.Legacy = append(ans.Legacy, ref.SRVRecord{Target: "multi." + name, Port: p})
		}
	case "same-record-twice":
		// answers may repeat a record; every record is a target
		for i := 0; i < 2; i++ {
			sc.fed = append(sc.fed, mkSRV("dup."+name, 8005))
			ans.Fed = append(ans.Fed, ref.SRVRecord{Target: "dup." + name, Port: 8005})
		}
	case "trailing-dot":
		sc.fed, ans.Fed = fed, []ref.SRVRecord{{Target: "fed." + name, Port: 8443}}
	case "root-target":
		// a record whose target is the root "." says the service is not offered: it names no host to connect to
		sc.fed = []dns.SRV{{Target: ".", Port: 8445, Priority: 0, Weight: 0}}
	case "root-target-next-to-a-record":
		// the same record next to an ordinary one (tenth seeding round, C16-T): the root names no host here either; the
		// ordinary record is a target (the monitor also lets the whole answer count for "not offered")
		sc.fed = []dns.SRV{{Target: ".", Port: 8445, Priority: 0, Weight: 0}, mkSRV("fed."+name, 8443)}
		ans.Fed = []ref.SRVRecord{{Target: "fed." + name, Port: 8443}}
	case "one-malformed-target":
		// one record whose target is no host name (a blank inside a label) next to a good one: the good record is the
		// SRV answer (Go's resolver hands the valid records back together with an error about the other)
		sc.fed = []dns.SRV{mkSRV("fed."+name, 8443), {Target: `bad\032host.` + dns.Fqdn(name), Port: 8446, Priority: 20, Weight: 5}}
		ans.Fed = []ref.SRVRecord{{Target: "fed." + name, Port: 8443}}
	case "legacy-one-malformed-target":
		// the same under the deprecated service name, with no _matrix-fed record at all
		sc.legacy = []dns.SRV{mkSRV("legacy."+name, 8444), {Target: `bad\032host.` + dns.Fqdn(name), Port: 8446, Priority: 20, Weight: 5}}
		ans.Legacy = []ref.SRVRecord{{Target: "legacy." + name, Port: 8444}}
	case "fed-servfail":
		sc.fedFail, ans.FedError = true, true
		sc.legacy, ans.Legacy = leg, []ref.SRVRecord{{Target: "legacy." + name, Port: 8444}}
	case "legacy-servfail":
		sc.legacyFail, ans.LegacyError = true, true
	}
	return sc, ans
}

func c16Resolutions(c *mon.Ctx, st *scriptedTransport, ds *dnsScript) {
	names := []string{"example.org", "sub.domain.example", "xn--e1afmkfd.example", "UPPER.example", "example.org:8448", "example.org:443", "1.2.3.4", "1.2.3.4:8448", "[2001:db8::1]", "[2001:db8::1]:443", "[::1]",
		"", "exa mple.org", "example.org:99999", "[::1", "ex_ample.org", "example.org:", ":8448", "[1.2.3.4]"}
	big := func(n int) []byte {
		return []byte(`{"m.server":"delegated.example:8448","pad":"` + strings.Repeat("x", n) + `"}`)
	}
	n := 0
	for _, name := range names {
		for _, wk := range wkOutcomes {
			for _, so := range srvOutcomes {
				n++
				if !c.Mine(n) {
					continue
				}
				deleg := ""
				rep := wkReply{status: 200, contentLength: true, headers: map[string]string{}}
				switch wk {
				case "absent":
					rep.err = true
				case "404":
					rep.status, rep.body = 404, []byte(`{"m.server":"delegated.example"}`)
				case "500":
					rep.status, rep.body = 500, []byte(`{"m.server":"delegated.example"}`)
				case "203":
					rep.status, rep.body = 203, []byte(`{"m.server":"delegated.example"}`)
				case "oversized-with-length":
					rep.body = big(60000)
				case "oversized-no-length":
					rep.body, rep.contentLength = append(big(10), []byte(strings.Repeat(" ", 60000))...), false
				case "malformed":
					rep.body = []byte(`{"m.server":`)
				case "no-m.server":
					rep.body = []byte(`{"other":"x"}`)
				case "empty-m.server":
					rep.body = []byte(`{"m.server":""}`)
				case "wrong-type":
					rep.body = []byte(`{"m.server":5}`)
				case "to-name":
					deleg = "delegated.example"
				case "to-name-port":
					deleg = "delegated.example:8443"
				case "to-ipv4":
					deleg = "10.9.8.7"
				case "to-ipv4-port":
					deleg = "10.9.8.7:8443"
				case "to-ipv6":
					deleg = "[2001:db8::2]"
				case "to-ipv6-port":
					deleg = "[2001:db8::2]:8443"
				case "to-invalid":
					deleg = "not a valid name"
				}
				if deleg != "" {
					rep.body, _ = json.Marshal(map[string]string{"m.server": deleg})
				}
				wkRes := ref.WellKnown{OK: deleg != "", Delegated: deleg}
				// the name SRV records are looked up for
				host, _, _ := ref.ServerName(name)
				_ = host
				srvName := name
				if deleg != "" {
					srvName = deleg
				}
				sc, ans := srvFor(so, srvName)
				caseName := fmt.Sprintf("resolve:%s|%s|%s", name, wk, so)
				c.Case(caseName, map[string]any{"server_name": name, "well_known": wk, "delegated_to": deleg, "srv": so}, func() {
					st.mu.Lock()
					st.wk = map[string]wkReply{name: rep}
					st.calls = nil
					st.mu.Unlock()
					ds.mu.Lock()
					ds.srv = map[string]srvScript{srvName: sc}
					ds.seen = nil
					ds.mu.Unlock()
					want, wantErr, usedWK, usedSRV := ref.Resolve(name, wkRes, ans)
					var got []fclient.ResolutionResult
					var err error
					site, msg, pan := mon.Guard(func() { got, err = fclient.ResolveServer(context.Background(), spec.ServerName(name)) })
					if pan {
						c.Failf("resolve:panic:"+site, "ResolveServer(%q) panics: %s", name, msg)
						return
					}
					c.Count("resolutions")
					if usedWK || usedSRV {
						c.Nontrivial(caseName)
					}
					if usedWK {
						c.Count("reached_well_known_step")
					}
					if usedSRV {
						c.Count("reached_srv_step")
					}
					if wantErr {
						if err == nil {
							c.Failf("resolve:accepts-invalid-name", "ResolveServer(%q) = %v, the name is invalid", name, got)
						}
						return
					}
					if err != nil {
						c.Failf("resolve:error", "ResolveServer(%q): %v", name, err)
						return
					}
					gs := []string{}
					for _, r := range got {
						gs = append(gs, fmt.Sprintf("%s host=%s sni=%s", r.Destination, r.Host, r.TLSServerName))
					}
					ws := []string{}
					for _, r := range want {
						ws = append(ws, fmt.Sprintf("%s host=%s sni=%s", r.Destination, r.Host, r.TLSName))
					}
					if so == "three" || so == "same-target-two-ports" {
						sort.Strings(gs)
						sort.Strings(ws)
					}
					if so == "root-target-next-to-a-record" && strings.Join(gs, " | ") != strings.Join(ws, " | ") {
						// (reading the root record as "the service is not offered at all" is as good: then nothing of the answer counts)
						alt, _, _, _ := ref.Resolve(name, wkRes, ref.SRVAnswer{})
						ws = ws[:0]
						for _, r := range alt {
							ws = append(ws, fmt.Sprintf("%s host=%s sni=%s", r.Destination, r.Host, r.TLSName))
						}
					}
					if strings.Join(gs, " | ") != strings.Join(ws, " | ") {
						c.Failf("resolve:wrong-target:"+resolveClass(name, wk, so), "ResolveServer(%q) with well-known=%s srv=%s\n got  %v\n want %v", name, wk, so, gs, ws)
					}
					// the delegated name must be resolved without a further well-known lookup
					st.mu.Lock()
					calls := append([]string{}, st.calls...)
					st.mu.Unlock()
					for _, cl := range calls {
						if !strings.HasPrefix(cl, name+"/") {
							c.Failf("resolve:well-known-for-delegated-name", "ResolveServer(%q) fetched %s", name, cl)
						}
					}
					if !usedWK && len(calls) > 0 {
						c.Failf("resolve:unexpected-well-known-lookup", "ResolveServer(%q) fetched %v although the name has a port / is a literal", name, calls)
					}
					if c.WantSample() && usedSRV && deleg != "" {
						c.Sample(map[string]any{"server_name": name, "well_known": wk, "delegated_to": deleg, "srv": so, "targets": gs})
					}
				})
			}
		}
	}
	c.Floor("reached_well_known_step", 50)
	c.Floor("reached_srv_step", 50)
}

func resolveClass(name, wk, so string) string {
	v, _, port := ref.ServerName(name)
	shape := "dns-name"
	if v != ref.Valid {
		shape = "invalid"
	} else if strings.HasPrefix(name, "[") || net.ParseIP(strings.Split(name, ":")[0]) != nil {
		shape = "ip-literal"
	}
	if port >= 0 {
		shape += "+port"
	}
	return shape + ":" + wk + ":" + so
}

func c16WellKnown(c *mon.Ctx, st *scriptedTransport) {
	if c.Shard != 0 {
		return
	}
	body := []byte(`{"m.server":"d.example"}`)
	exp := time.Now().Add(5 * time.Hour).UTC()
	cases := map[string]map[string]string{
		"none":            {},
		"expires":         {"Expires": exp.Format("Mon, 02 Jan 2006 15:04:05 MST")},
		"max-age":         {"Cache-Control": "max-age=3600"},
		"both":            {"Cache-Control": "public, max-age=3600", "Expires": exp.Format("Mon, 02 Jan 2006 15:04:05 MST")},
		"both-reordered":  {"Expires": exp.Format("Mon, 02 Jan 2006 15:04:05 MST"), "Cache-Control": "max-age=7200, must-revalidate"},
		"malformed":       {"Cache-Control": "max-age=soon", "Expires": "tomorrow"},
		"max-age-uppercase": {"Cache-Control": "MAX-AGE=60"},
		"both-max-age-zero": {"Cache-Control": "max-age=0", "Expires": exp.Format("Mon, 02 Jan 2006 15:04:05 MST")},
		"both-max-age-one":  {"Cache-Control": "no-transform, max-age=1", "Expires": exp.Format("Mon, 02 Jan 2006 15:04:05 MST")},
		"max-age-zero":      {"Cache-Control": "max-age=0"},
		"both-expires-past": {"Cache-Control": "max-age=600", "Expires": "Mon, 02 Jan 2006 15:04:05 GMT"},
		// the two obsolete HTTP-date forms every recipient has to understand (RFC 7231 section 7.1.1.1)
		"expires-rfc850":  {"Expires": exp.Format("Monday, 02-Jan-06 15:04:05 MST")},
		"expires-asctime": {"Expires": exp.Format("Mon Jan _2 15:04:05 2006")},
		// a directive whose quoted argument merely contains the text "max-age=5": there is no max-age directive
		"quoted-argument-mentions-max-age": {"Cache-Control": `community="UCI,max-age=5,x"`, "Expires": exp.Format("Mon, 02 Jan 2006 15:04:05 MST")},
		// the quoted-string form of the argument, which recipients ought to accept
		"max-age-quoted": {"Cache-Control": `max-age="100"`, "Expires": exp.Format("Mon, 02 Jan 2006 15:04:05 MST")},
		// ... and a quoted argument with an escaped quote in it, which does not end the argument
		"quoted-argument-with-escaped-quote": {"Cache-Control": `community="a\",max-age=5,\""`, "Expires": exp.Format("Mon, 02 Jan 2006 15:04:05 MST")},
	}
	expS := exp.Format("Mon, 02 Jan 2006 15:04:05 MST")
	extra := map[string][][2]string{
		"two-cache-control-lines":          {{"Cache-Control", "public"}, {"Cache-Control", "max-age=100"}, {"Expires", expS}},
		"two-cache-control-lines-reversed": {{"Cache-Control", "max-age=100"}, {"Cache-Control", "public"}, {"Expires", expS}},
		"tab-after-comma":                  {{"Cache-Control", "public,\tmax-age=100"}, {"Expires", expS}},
		"max-age-max-int64":                {{"Cache-Control", "max-age=9223372036854775807"}, {"Expires", "Mon, 02 Jan 2006 15:04:05 GMT"}},
		"max-age-beyond-int64":             {{"Cache-Control", "max-age=99999999999999999999"}, {"Expires", "Mon, 02 Jan 2006 15:04:05 GMT"}},
		"body-names-an-expiry":             {{"Cache-Control", "max-age=100"}},
		"body-names-an-expiry-lower-case":  {{"Cache-Control", "max-age=100"}},
	}
	bodies := map[string][]byte{
		"body-names-an-expiry":            []byte(`{"m.server":"d.example","CacheExpiresAt":99999999999}`),
		"body-names-an-expiry-lower-case": []byte(`{"m.server":"d.example","cacheexpiresat":99999999999}`),
	}
	for name := range extra {
		cases[name] = map[string]string{}
	}
	for name, hdrs := range cases {
		c.Case("well-known-cache:"+name, map[string]any{"headers": hdrs, "more_headers": extra[name], "body": string(bodies[name])}, func() {
			c.Nontrivial("wkcache|" + name)
			rep := wkReply{status: 200, body: body, contentLength: true, headers: hdrs, extraHeaders: extra[name]}
			if b, ok := bodies[name]; ok {
				rep.body = b
			}
			st.mu.Lock()
			st.wk = map[string]wkReply{"wk.example": rep}
			st.mu.Unlock()
			before := time.Now().Unix()
			res, err := fclient.LookupWellKnown(context.Background(), "wk.example")
			after := time.Now().Unix()
			c.Count("well_known_lookups")
			if err != nil {
				c.Failf("wellknown:rejects-good-reply", "LookupWellKnown: %v", err)
				return
			}
			if res.NewAddress != "d.example" {
				c.Failf("wellknown:wrong-address", "m.server = %q", res.NewAddress)
			}
			in := func(lo, hi int64) bool { return res.CacheExpiresAt >= lo && res.CacheExpiresAt <= hi }
			ok := true
			switch name {
			case "none", "malformed":
				ok = res.CacheExpiresAt == 0
			case "expires", "expires-rfc850", "expires-asctime", "quoted-argument-mentions-max-age", "quoted-argument-with-escaped-quote":
				ok = res.CacheExpiresAt == exp.Unix()
			case "max-age", "both":
				ok = in(before+3600, after+3600)
			case "both-reordered":
				ok = in(before+7200, after+7200)
			case "max-age-uppercase":
				ok = in(before+60, after+60)
			case "both-max-age-zero", "max-age-zero":
				ok = in(before, after)
			case "both-max-age-one":
				ok = in(before+1, after+1)
			case "both-expires-past":
				ok = in(before+600, after+600)
			case "two-cache-control-lines", "two-cache-control-lines-reversed", "tab-after-comma", "body-names-an-expiry", "body-names-an-expiry-lower-case", "max-age-quoted":
				ok = in(before+100, after+100)
			case "max-age-max-int64", "max-age-beyond-int64":
				// max-age is there, so it wins over the (past) Expires; however it is represented, it is far in the future
				ok = res.CacheExpiresAt > after+1000000000
			}
			if !ok {
				c.Failf("wellknown:cache-lifetime:"+name, "CacheExpiresAt = %d (now %d) for headers %v", res.CacheExpiresAt, after, hdrs)
			}
		})
	}
	// guards, directly
	guards := map[string]wkReply{
		"status-404":            {status: 404, body: body, contentLength: true},
		"status-301":            {status: 301, body: body, contentLength: true},
		"status-204":            {status: 204, body: body, contentLength: true},
		"status-201":            {status: 201, body: body, contentLength: true},
		"status-202":            {status: 202, body: body, contentLength: true},
		"status-203":            {status: 203, body: body, contentLength: true},
		"status-206":            {status: 206, body: body, contentLength: true},
		"status-299":            {status: 299, body: body, contentLength: true},
		"status-100":            {status: 100, body: body, contentLength: true},
		"status-302":            {status: 302, body: body, contentLength: true},
		"status-304":            {status: 304, body: body, contentLength: true},
		"status-400":            {status: 400, body: body, contentLength: true},
		"status-403":            {status: 403, body: body, contentLength: true},
		"status-500":            {status: 500, body: body, contentLength: true},
		"status-503":            {status: 503, body: body, contentLength: true},
		"status-0":              {status: 0, body: body, contentLength: true},
		"oversized-with-length": {status: 200, body: []byte(`{"m.server":"d.example","p":"` + strings.Repeat("x", 51200) + `"}`), contentLength: true},
		"oversized-no-length":   {status: 200, body: append([]byte(`{"m.server":"d.example"}`), []byte(strings.Repeat("\n", 51200))...), contentLength: false},
		"exactly-50KiB":         {status: 200, body: append([]byte(`{"m.server":"d.example"}`), []byte(strings.Repeat(" ", 51200-24))...), contentLength: false},
		"exactly-50KiB-with-length": {status: 200, body: append([]byte(`{"m.server":"d.example"}`), []byte(strings.Repeat(" ", 51200-24))...), contentLength: true},
		"one-byte-over-with-length": {status: 200, body: append([]byte(`{"m.server":"d.example"}`), []byte(strings.Repeat(" ", 51201-24))...), contentLength: true},
		"one-byte-over-no-length":   {status: 200, body: append([]byte(`{"m.server":"d.example"}`), []byte(strings.Repeat(" ", 51201-24))...), contentLength: false},
		"no-m.server":           {status: 200, body: []byte(`{}`), contentLength: true},
		"lookalike-M.SERVER":    {status: 200, body: []byte(`{"M.SERVER":"d.example"}`), contentLength: true},
		"lookalike-M.Server":    {status: 200, body: []byte(`{"M.Server":"d.example","other":1}`), contentLength: true},
		"lookalike-m.ſerver":    {status: 200, body: []byte(`{"m.ſerver":"d.example"}`), contentLength: true},
		"empty-body":            {status: 200, body: []byte(``), contentLength: true},
	}
	for name, rep := range guards {
		c.Case("well-known-guard:"+name, map[string]any{"status": rep.status, "size": len(rep.body), "content_length_header": rep.contentLength}, func() {
			c.Nontrivial("wkguard|" + name)
			st.mu.Lock()
			st.wk = map[string]wkReply{"wk.example": rep}
			st.mu.Unlock()
			res, err := fclient.LookupWellKnown(context.Background(), "wk.example")
			c.Count("well_known_lookups")
			wantOK := name == "exactly-50KiB" || name == "exactly-50KiB-with-length"
			if wantOK && err != nil {
				c.Failf("wellknown:rejects-good-reply", "a well-known reply of exactly 50 KiB is refused: %v", err)
			}
			if !wantOK && err == nil {
				c.Failf("wellknown:honours:"+name, "LookupWellKnown honoured a reply it must ignore (%s): %+v", name, res)
			}
		})
	}
}

// ---- network policy ----

type listenerLog struct {
	mu      sync.Mutex
	accepts map[string]int // listener address -> count
}

func startListener(addr string, lg *listenerLog) (net.Listener, error) {
	l, err := net.Listen("tcp", addr)
	if err != nil {
		return nil, err
	}
	go func() {
		for {
			conn, err := l.Accept()
			if err != nil {
				return
			}
			lg.mu.Lock()
			lg.accepts[l.Addr().String()]++
			lg.mu.Unlock()
			_ = conn.Close()
		}
	}()
	return l, nil
}

func c16Policy(c *mon.Ctx, ds *dnsScript) {
	r := c.Rand("policy")
	ranges := []string{"10.0.0.0/8", "10.1.0.0/16", "10.1.2.0/24", "10.1.2.3/32", "192.168.0.0/16", "127.0.0.0/8", "127.0.0.2/32", "127.0.1.0/24", "0.0.0.0/0", "::/0", "::1/128", "2001:db8::/32", "fe80::/10", "100.64.0.0/10",
		// the same IPv4 ranges written in IPv4-mapped IPv6 notation: they name the same addresses
		"::ffff:127.0.0.0/104", "::ffff:10.1.2.0/120", "::ffff:127.0.0.2/128", "::ffff:0.0.0.0/96"}
	garbage := []string{"not-a-cidr", "10.0.0.0", "10.0.0.0/33", "", "300.1.1.1/8"}
	nCfg := c.Scale(40, 40000)
	for k := 0; k < nCfg; k++ {
		pick := func() []string {
			out := []string{}
			for i := r.Intn(4); i > 0; i-- {
				out = append(out, gen.Pick(r, ranges))
			}
			if r.Chance(0.35) {
				g := gen.Pick(r, garbage)
				pos := r.Intn(len(out) + 1)
				out = append(out[:pos:pos], append([]string{g}, out[pos:]...)...)
			}
			return out
		}
		allow, deny := pick(), pick()
		if r.Chance(0.3) {
			allow = []string{"0.0.0.0/0", "::/0"}
		}
		// candidate addresses: inside / outside / edges of every range mentioned
		cands := map[string]bool{"8.8.8.8": true, "127.0.0.1": true, "::1": true, "10.1.2.3": true, "10.1.2.4": true}
		for _, cidr := range append(append([]string{}, allow...), deny...) {
			for _, a := range ref.CIDREdges(cidr) {
				cands[a] = true
			}
		}
		addrs := []string{}
		for a := range cands {
			addrs = append(addrs, a)
		}
		sort.Strings(addrs)
		cfgName := fmt.Sprintf("allow=%v deny=%v", allow, deny)
		c.Case("policy:decision", map[string]any{"allow": allow, "deny": deny, "addresses": len(addrs)}, func() {
			interesting := len(allow) > 0 && len(deny) > 0
			for _, l := range [][]string{allow, deny} {
				for _, e := range l {
					if _, _, err := net.ParseCIDR(e); err != nil {
						interesting = true
					}
				}
			}
			ctl := fclient.VerifAllowDenyControl(allow, deny)
			for _, a := range addrs {
				ip := net.ParseIP(a)
				want := ref.NetAllowed(ip, allow, deny)
				got := fclient.VerifIsAllowed(ip, allow, deny)
				c.Count("policy_decisions")
				c.Eval()
				if interesting {
					c.Nontrivial(cfgName + "|" + a)
				}
				if got != want {
					dir := "denies-allowed-address"
					if got {
						dir = "allows-forbidden-address"
					}
					c.Failf("policy:"+dir+":"+policyClass(allow, deny), "address %s with %s: decision %v, policy says %v", a, cfgName, got, want)
					return
				}
				network, hostport := "tcp4", net.JoinHostPort(a, "8448")
				if ip.To4() == nil {
					network = "tcp6"
				}
				if err := ctl(context.Background(), network, hostport, nil); (err == nil) != want {
					c.Failf("policy:control-function-disagrees", "dialer control for %s %s with %s: err=%v, policy says allowed=%v", network, hostport, cfgName, err, want)
					return
				}
			}
			for _, network := range []string{"udp4", "unix", "tcp", "ip4"} {
				if err := ctl(context.Background(), network, "127.0.0.1:80", nil); err == nil {
					c.Failf("policy:unsafe-network-type-allowed", "dialer control allows network type %q", network)
				}
			}
			if c.WantSample() && interesting {
				c.Sample(map[string]any{"allow": allow, "deny": deny, "addresses_checked": addrs})
			}
		})
	}
	c.Floor("policy_decisions", 300)
	// real dials
	if c.Shard != 0 {
		return
	}
	lg := &listenerLog{accepts: map[string]int{}}
	var listeners []net.Listener
	for _, a := range []string{"127.0.0.1:0", "127.0.0.2:0", "127.0.1.1:0", "[::1]:0"} {
		if l, err := startListener(a, lg); err == nil {
			listeners = append(listeners, l)
		} else {
			c.Note("no listener on %s: %v", a, err)
		}
	}
	defer func() {
		for _, l := range listeners {
			_ = l.Close()
		}
	}()
	configs := [][2][]string{
		{{"127.0.0.0/8", "::1/128"}, {}},
		{{"127.0.0.0/8"}, {"127.0.0.2/32"}},
		{{"0.0.0.0/0", "::/0"}, {"127.0.1.0/24"}},
		{{"127.0.0.2/32"}, {}},
		{{}, {"127.0.0.1/32"}},
		{{"0.0.0.0/0"}, {"bogus", "127.0.0.1/32"}},
		{{"bogus", "127.0.0.0/8"}, {"127.0.0.2/32", "bogus"}},
		{{"::/0"}, {}},
		{{"0.0.0.0/0", "::/0"}, {"::1/128"}},
	}
	for ci, cfg := range configs {
		allow, deny := cfg[0], cfg[1]
		for _, l := range listeners {
			addr := l.Addr().String()
			host, port, _ := net.SplitHostPort(addr)
			ip := net.ParseIP(host)
			want := ref.NetAllowed(ip, allow, deny)
			name := fmt.Sprintf("dial%d.example", ci)
			for _, via := range []string{"client-by-literal", "dnscache-by-name", "dnscache-by-literal"} {
				c.Case("policy:dial:"+via, map[string]any{"allow": allow, "deny": deny, "listener": addr, "via": via}, func() {
					c.Nontrivial(fmt.Sprintf("dial|%v|%v|%s|%s", allow, deny, addr, via))
					lg.mu.Lock()
					before := lg.accepts[addr]
					lg.mu.Unlock()
					ctx, cancel := context.WithTimeout(context.Background(), 3*time.Second)
					defer cancel()
					switch via {
					case "client-by-literal":
						cl := fclient.NewClient(fclient.WithAllowDenyNetworks(allow, deny), fclient.WithSkipVerify(true), fclient.WithWellKnownSRVLookups(false), fclient.WithTimeout(3*time.Second))
						_, _ = cl.GetServerKeys(ctx, spec.ServerName(addr))
					case "dnscache-by-literal":
						cache := fclient.NewDNSCache(8, time.Minute, allow, deny)
						if conn, err := cache.DialContext(ctx, "tcp", addr); err == nil {
							_ = conn.Close()
						}
					default:
						ds.mu.Lock()
						ds.a = map[string][]string{name: {host}}
						ds.mu.Unlock()
						cache := fclient.NewDNSCache(8, time.Minute, allow, deny)
						if conn, err := cache.DialContext(ctx, "tcp", net.JoinHostPort(name, port)); err == nil {
							_ = conn.Close()
						}
					}
					time.Sleep(30 * time.Millisecond) // let the accept loop log the connection
					lg.mu.Lock()
					made := lg.accepts[addr] > before
					lg.mu.Unlock()
					c.Count("real_dials")
					if made && !want {
						c.Failf("policy:connection-to-forbidden-address:"+via, "a TCP connection reached %s with allow=%v deny=%v (%s)", addr, allow, deny, via)
					}
					if !made && want {
						c.Failf("policy:no-connection-to-allowed-address:"+via, "no TCP connection reached %s although allow=%v deny=%v permit it (%s)", addr, allow, deny, via)
					}
				})
			}
		}
	}
	c.Floor("real_dials", 20)
}

// c16WellKnownUnderPolicy: the policy holds "by whatever name they were reached", and the first thing a client does with
// a DNS name is fetch its well-known file. With every address of the name denied, that fetch must not go out through a
// transport that knows nothing of the lists (in this process: the scripted default transport, which records it).
func c16WellKnownUnderPolicy(c *mon.Ctx, st *scriptedTransport, ds *dnsScript) {
	for i, cfg := range [][2][]string{
		{{"0.0.0.0/0", "::/0"}, {"127.0.0.0/8", "::1/128"}},
		{{"10.0.0.0/8"}, {}},
		{{"0.0.0.0/0"}, {"127.0.0.1/32"}},
	} {
		allow, deny := cfg[0], cfg[1]
		name := fmt.Sprintf("wk-under-policy%d.example", i)
		c.Case("policy:well-known-lookup", map[string]any{"allow": allow, "deny": deny, "name": name, "addresses": []string{"127.0.0.1"}}, func() {
			c.Nontrivial("wk-policy|" + name)
			ds.mu.Lock()
			ds.a[name] = []string{"127.0.0.1"}
			ds.mu.Unlock()
			st.mu.Lock()
			st.wk[name] = wkReply{status: 200, body: []byte(`{"m.server":"127.0.0.1:1"}`), contentLength: true, headers: map[string]string{}}
			st.calls = nil
			st.mu.Unlock()
			for _, where := range []string{"client", "dns-cache"} {
				st.mu.Lock()
				st.calls = nil
				st.mu.Unlock()
				cl := fclient.NewClient(fclient.WithAllowDenyNetworks(allow, deny), fclient.WithSkipVerify(true), fclient.WithWellKnownSRVLookups(true), fclient.WithTimeout(3*time.Second))
				if where == "dns-cache" {
					// the lists are configured on the DNS cache the client dials through, the client has none of its own
					cl = fclient.NewClient(fclient.WithDNSCache(fclient.NewDNSCache(8, time.Minute, allow, deny)), fclient.WithSkipVerify(true), fclient.WithWellKnownSRVLookups(true), fclient.WithTimeout(3*time.Second))
				}
				ctx, cancel := context.WithTimeout(context.Background(), 3*time.Second)
				_, _ = cl.GetServerKeys(ctx, spec.ServerName(name))
				cancel()
				st.mu.Lock()
				calls := append([]string{}, st.calls...)
				st.mu.Unlock()
				c.Count("well_known_lookups_under_policy")
				for _, call := range calls {
					if strings.HasPrefix(call, name) {
						c.Failf("policy:well-known-lookup-not-subject-to-lists:"+where, "with allow=%v deny=%v configured on the %s the client fetched https://%s through the default transport, i.e. connected to %s (127.0.0.1, forbidden by the lists) without consulting them", allow, deny, where, call, name)
					}
				}
			}
			st.mu.Lock()
			delete(st.wk, name)
			st.mu.Unlock()
		})
	}
}

// c16BothLists: a client may carry lists of its own AND dial through a DNS cache that carries lists. Both are
// "configured": a connection is made only to addresses that neither forbids - on the well-known step as on the others.
func c16BothLists(c *mon.Ctx, ds *dnsScript) {
	if c.Shard != 0 {
		return
	}
	lg := &listenerLog{accepts: map[string]int{}}
	var addrs []string
	for _, a := range []string{"127.0.0.1:443", "127.0.0.1:8448"} {
		l, err := startListener(a, lg)
		if err != nil {
			c.Note("both-lists scenario: no listener on %s: %v", a, err)
			continue
		}
		defer l.Close()
		addrs = append(addrs, a)
	}
	if len(addrs) == 0 {
		return
	}
	all := []string{"0.0.0.0/0", "::/0"}
	for i, cfg := range []struct {
		cacheAllow, cacheDeny, ownAllow, ownDeny []string
		forbids                                  string
	}{
		{all, []string{"127.0.0.1/32"}, all, nil, "cache"},
		{all, nil, all, []string{"127.0.0.0/8"}, "client"},
		{[]string{"127.0.0.0/8"}, nil, []string{"127.0.0.0/8"}, nil, ""},
		{[]string{"10.0.0.0/8"}, nil, all, nil, "cache"},
		{all, nil, []string{"10.0.0.0/8"}, nil, "client"},
		{all, []string{"127.0.0.0/8"}, []string{"127.0.0.0/8"}, nil, "cache"},
	} {
		name := fmt.Sprintf("both-lists%d.example", i)
		c.Case("policy:both-lists", map[string]any{"cache_allow": cfg.cacheAllow, "cache_deny": cfg.cacheDeny, "client_allow": cfg.ownAllow, "client_deny": cfg.ownDeny, "name": name, "addresses": []string{"127.0.0.1"}}, func() {
			c.Nontrivial("both-lists|" + name)
			ds.mu.Lock()
			ds.a[name] = []string{"127.0.0.1"}
			ds.mu.Unlock()
			count := func() int {
				lg.mu.Lock()
				defer lg.mu.Unlock()
				n := 0
				for _, a := range addrs {
					n += lg.accepts[a]
				}
				return n
			}
			before := count()
			cl := fclient.NewClient(fclient.WithDNSCache(fclient.NewDNSCache(8, time.Minute, cfg.cacheAllow, cfg.cacheDeny)), fclient.WithAllowDenyNetworks(cfg.ownAllow, cfg.ownDeny),
				fclient.WithSkipVerify(true), fclient.WithWellKnownSRVLookups(true), fclient.WithTimeout(3*time.Second))
			ctx, cancel := context.WithTimeout(context.Background(), 3*time.Second)
			_, _ = cl.GetServerKeys(ctx, spec.ServerName(name))
			cancel()
			time.Sleep(30 * time.Millisecond)
			made := count() > before
			c.Count("both_lists_requests")
			switch {
			case made && cfg.forbids != "":
				c.Failf("policy:both-lists:connection-to-address-forbidden-by-"+cfg.forbids+"-lists", "client with a DNS cache (allow=%v deny=%v) and lists of its own (allow=%v deny=%v): a request for %s (127.0.0.1) made a TCP connection to 127.0.0.1 (listeners %v), which the %s's lists forbid",
					cfg.cacheAllow, cfg.cacheDeny, cfg.ownAllow, cfg.ownDeny, name, addrs, cfg.forbids)
			case !made && cfg.forbids == "":
				c.Failf("policy:both-lists:no-connection-although-both-permit", "client with a DNS cache (allow=%v) and lists of its own (allow=%v): a request for %s (127.0.0.1) made no connection to %v", cfg.cacheAllow, cfg.ownAllow, name, addrs)
			}
		})
	}
}

// c16SharedCache: one DNS cache behind two clients whose own lists differ. Each client's connections obey that
// client's lists (and the cache's), whichever of the two dialled through the cache first.
func c16SharedCache(c *mon.Ctx, ds *dnsScript) {
	if c.Shard != 0 {
		return
	}
	lg := &listenerLog{accepts: map[string]int{}}
	var addrs []string
	for _, a := range []string{"127.0.0.1:443", "127.0.0.1:8448"} {
		l, err := startListener(a, lg)
		if err != nil {
			c.Note("shared-cache scenario: no listener on %s: %v", a, err)
			continue
		}
		defer l.Close()
		addrs = append(addrs, a)
	}
	if len(addrs) == 0 {
		return
	}
	count := func() int {
		lg.mu.Lock()
		defer lg.mu.Unlock()
		n := 0
		for _, a := range addrs {
			n += lg.accepts[a]
		}
		return n
	}
	all := []string{"0.0.0.0/0", "::/0"}
	for i, firstStrict := range []bool{false, true, false} {
		name := fmt.Sprintf("shared-cache%d.example", i)
		c.Case("policy:shared-cache", map[string]any{"name": name, "strict_client_first": firstStrict, "addresses": []string{"127.0.0.1"}}, func() {
			c.Nontrivial("shared-cache|" + name)
			ds.mu.Lock()
			ds.a[name] = []string{"127.0.0.1"}
			ds.mu.Unlock()
			cache := fclient.NewDNSCache(8, time.Minute, all, nil)
			mk := func(strict bool) *fclient.Client {
				deny := []string(nil)
				if strict {
					deny = []string{"127.0.0.0/8"}
				}
				return fclient.NewClient(fclient.WithDNSCache(cache), fclient.WithAllowDenyNetworks(all, deny), fclient.WithSkipVerify(true), fclient.WithWellKnownSRVLookups(true), fclient.WithTimeout(3*time.Second))
			}
			for round, strict := range []bool{firstStrict, !firstStrict, firstStrict} {
				before := count()
				ctx, cancel := context.WithTimeout(context.Background(), 3*time.Second)
				_, _ = mk(strict).GetServerKeys(ctx, spec.ServerName(name))
				cancel()
				time.Sleep(30 * time.Millisecond)
				made := count() > before
				c.Count("shared_cache_requests")
				if made && strict {
					c.Failf("policy:shared-cache:connection-to-address-forbidden-by-client-lists", "two clients share one DNS cache; request %d, by the client that denies 127.0.0.0/8, made a TCP connection to 127.0.0.1 (the other client, which allows it, %s)", round+1, map[bool]string{true: "had not dialled yet", false: "had dialled before"}[round == 0])
					return
				}
				if !made && !strict {
					c.Failf("policy:shared-cache:no-connection-although-permitted", "two clients share one DNS cache; request %d, by the client that allows everything, made no connection to 127.0.0.1", round+1)
					return
				}
			}
		})
	}
}

func policyClass(allow, deny []string) string {
	bad := func(l []string) string {
		for i, e := range l {
			if _, _, err := net.ParseCIDR(e); err != nil {
				switch {
				case i == 0:
					return "unparsable-first"
				case i == len(l)-1:
					return "unparsable-last"
				}
				return "unparsable-middle"
			}
		}
		return ""
	}
	if b := bad(deny); b != "" {
		return "deny-" + b
	}
	if b := bad(allow); b != "" {
		return "allow-" + b
	}
	return "well-formed-lists"
}

func runC16(c *mon.Ctx) {
	st, ds, stop := startEnv()
	defer stop()
	c16Resolutions(c, st, ds)
	c16WellKnown(c, st)
	c16Policy(c, ds)
	c16WellKnownUnderPolicy(c, st, ds)
	c16BothLists(c, ds)
	c16SharedCache(c, ds)
	c16ClientSequences(c)
	c16ClientDelegationHistory(c, st, ds)
}

// c16ClientDelegationHistory: a.hist.test delegates (well-known) to the name b.hist.test, which is served through its SRV
// record by server B. b.hist.test is also a server name of its own whose well-known file delegates to server C. ONE
// resolving client is asked for the two names in every order: a request for a name goes where that name resolves to -
// the delegated name of somebody else's well-known file is "resolved without a further well-known lookup", the name
// itself is not.
func c16ClientDelegationHistory(c *mon.Ctx, st *scriptedTransport, ds *dnsScript) {
	if c.Shard != 0 {
		return
	}
	type hit struct{ server, host string }
	var mu sync.Mutex
	var hits []hit
	var snis []string
	var uris []string
	mk := func(label string) *httptest.Server {
		srv := httptest.NewUnstartedServer(http.HandlerFunc(func(w http.ResponseWriter, q *http.Request) {
			mu.Lock()
			hits = append(hits, hit{label, q.Host})
			sni := ""
			if q.TLS != nil {
				sni = q.TLS.ServerName
			}
			snis = append(snis, sni)
			uris = append(uris, q.RequestURI)
			mu.Unlock()
			if q.URL.Path == "/verif/moved" {
				w.Header().Set("Location", "/_matrix/federation/v1/version")
				w.WriteHeader(http.StatusTemporaryRedirect)
				return
			}
			w.Header().Set("Content-Type", "application/json")
			_, _ = w.Write([]byte(`{"server":{"name":"` + label + `","version":"1"}}`))
		}))
		srv.Config.ErrorLog = log.New(io.Discard, "", 0)
		srv.StartTLS()
		return srv
	}
	srvB, srvC := mk("B"), mk("C")
	defer srvB.Close()
	defer srvC.Close()
	_, portB, _ := net.SplitHostPort(srvB.Listener.Addr().String())
	pB, _ := strconv.Atoi(portB)
	addrC := srvC.Listener.Addr().String()
	ds.mu.Lock()
	ds.srv["b.hist.test"] = srvScript{fed: []dns.SRV{mkSRV("srv-b.hist.test", uint16(pB))}}
	ds.a["srv-b.hist.test"] = []string{"127.0.0.1"}
	ds.mu.Unlock()
	st.mu.Lock()
	st.wk["a.hist.test"] = wkReply{status: 200, body: []byte(`{"m.server":"b.hist.test"}`), contentLength: true}
	st.wk["b.hist.test"] = wkReply{status: 200, body: []byte(`{"m.server":"` + addrC + `"}`), contentLength: true}
	st.mu.Unlock()
	want := map[string]hit{"a.hist.test": {"B", "b.hist.test"}, "b.hist.test": {"C", addrC}}
	for _, seq := range [][]string{{"a.hist.test"}, {"b.hist.test"}, {"a.hist.test", "b.hist.test"}, {"b.hist.test", "a.hist.test"}, {"a.hist.test", "b.hist.test", "a.hist.test", "b.hist.test"}, {"a.hist.test", "a.hist.test", "b.hist.test"}} {
		c.Case("client:delegation-history", map[string]any{"sequence": seq}, func() {
			c.Nontrivial(fmt.Sprintf("client-delegation|%v", seq))
			cl := fclient.NewClient(fclient.WithSkipVerify(true), fclient.WithWellKnownSRVLookups(true), fclient.WithTimeout(5*time.Second))
			for step, name := range seq {
				mu.Lock()
				hits = nil
				mu.Unlock()
				ctx, cancel := context.WithTimeout(context.Background(), 5*time.Second)
				_, err := cl.GetVersion(ctx, spec.ServerName(name))
				cancel()
				mu.Lock()
				got := append([]hit{}, hits...)
				mu.Unlock()
				c.Count("client_delegation_history_requests")
				if err != nil || len(got) != 1 {
					c.Failf("client-delegation-history:request-not-delivered", "step %d of %v: the request for %s gave err=%v and reached %v", step, seq, name, err, got)
					return
				}
				if got[0] != want[name] {
					c.Failf("client-delegation-history:wrong-target", "step %d of %v: the request for %s reached server %s with Host %q; that name resolves to server %s with Host %q", step, seq, name, got[0].server, got[0].host, want[name].server, want[name].host)
					return
				}
			}
		})
	}
	// a fault in the middle: the first request for c.hist.test is given up (its context ends) while the well-known
	// lookup is still unanswered; the next request for that name, made in good health, goes where the name resolves to
	c.Case("client:delegation-history:request-given-up-during-the-well-known-lookup", nil, func() {
		c.Nontrivial("client-delegation|cancelled")
		ds.mu.Lock()
		ds.a["c.hist.test"] = []string{"127.0.0.1"}
		ds.mu.Unlock()
		st.mu.Lock()
		st.wk["c.hist.test"] = wkReply{block: true}
		st.mu.Unlock()
		cl := fclient.NewClient(fclient.WithSkipVerify(true), fclient.WithWellKnownSRVLookups(true), fclient.WithTimeout(5*time.Second))
		ctx, cancel := context.WithTimeout(context.Background(), 300*time.Millisecond)
		_, err := cl.GetVersion(ctx, "c.hist.test")
		cancel()
		if err == nil {
			c.Failf("client-delegation-history:request-answered-although-given-up", "a request whose well-known lookup never answered was answered")
			return
		}
		st.mu.Lock()
		st.wk["c.hist.test"] = wkReply{status: 200, body: []byte(`{"m.server":"` + addrC + `"}`), contentLength: true}
		st.mu.Unlock()
		mu.Lock()
		hits = nil
		mu.Unlock()
		ctx2, cancel2 := context.WithTimeout(context.Background(), 5*time.Second)
		_, err = cl.GetVersion(ctx2, "c.hist.test")
		cancel2()
		mu.Lock()
		got := append([]hit{}, hits...)
		mu.Unlock()
		c.Count("client_delegation_history_requests")
		if err != nil || len(got) != 1 || got[0] != (hit{"C", addrC}) {
			c.Failf("client-delegation-history:wrong-target:after-a-request-given-up-during-resolution", "after a request for c.hist.test was given up during its well-known lookup, the next request for it gave err=%v and reached %v; the name resolves to server C with Host %q", err, got, addrC)
		}
	})
	// a request object of the caller's, sent twice: it is the caller's, the second sending finds it as the first did
	c.Case("client:request-object-sent-twice", nil, func() {
		c.Nontrivial("client-delegation|request-reused")
		cl := fclient.NewClient(fclient.WithSkipVerify(true), fclient.WithWellKnownSRVLookups(true), fclient.WithTimeout(5*time.Second))
		req, err := http.NewRequest("GET", "matrix://a.hist.test/_matrix/federation/v1/version", nil)
		if err != nil {
			return
		}
		urlBefore := req.URL.String()
		for round := 0; round < 2; round++ {
			mu.Lock()
			hits = nil
			mu.Unlock()
			ctx, cancel := context.WithTimeout(context.Background(), 5*time.Second)
			resp, err := cl.DoHTTPRequest(ctx, req)
			if resp != nil {
				resp.Body.Close()
			}
			cancel()
			mu.Lock()
			got := append([]hit{}, hits...)
			mu.Unlock()
			c.Count("client_delegation_history_requests")
			if u := req.URL.String(); u != urlBefore {
				c.Failf("client:callers-request-rewritten", "DoHTTPRequest changed the URL of the request it was given from %q to %q", urlBefore, u)
				return
			}
			if err != nil || len(got) != 1 || got[0] != want["a.hist.test"] {
				c.Failf("client-delegation-history:wrong-target:request-object-sent-twice", "sending %d of one request object for a.hist.test gave err=%v and reached %v; expected server B with Host b.hist.test", round+1, err, got)
				return
			}
		}
	})
	// the same through a client without an overall timeout (callers that bound their requests by the context alone):
	// net/http hands such a client's own request object to the transport, so a transport that writes the connection
	// target into it leaves the caller's request - and every redirect worked out from it - pointing at the target
	// instead of the server name (ninth audit round, net #2)
	c.Case("client:request-object-sent-twice:no-client-timeout", nil, func() {
		c.Nontrivial("client-delegation|request-reused|timeout-0")
		cl := fclient.NewClient(fclient.WithSkipVerify(true), fclient.WithWellKnownSRVLookups(true), fclient.WithTimeout(0))
		req, err := http.NewRequest("GET", "matrix://a.hist.test/_matrix/federation/v1/version", nil)
		if err != nil {
			return
		}
		urlBefore, hostBefore := req.URL.String(), req.Host
		for round := 0; round < 2; round++ {
			mu.Lock()
			hits, snis = nil, nil
			mu.Unlock()
			ctx, cancel := context.WithTimeout(context.Background(), 5*time.Second)
			resp, err := cl.DoHTTPRequest(ctx, req)
			if resp != nil {
				resp.Body.Close()
			}
			cancel()
			mu.Lock()
			got := append([]hit{}, hits...)
			mu.Unlock()
			c.Count("client_delegation_history_requests")
			if u := req.URL.String(); u != urlBefore || req.Host != hostBefore {
				c.Failf("client:callers-request-rewritten:no-client-timeout", "DoHTTPRequest of a client built WithTimeout(0) changed the request it was given from URL %q Host %q to URL %q Host %q", urlBefore, hostBefore, u, req.Host)
				return
			}
			if err != nil || len(got) != 1 || got[0] != want["a.hist.test"] {
				c.Failf("client-delegation-history:wrong-target:request-object-sent-twice", "sending %d of one request object for a.hist.test (client without timeout) gave err=%v and reached %v; expected server B with Host b.hist.test", round+1, err, got)
				return
			}
		}
	})
	// a redirect to another path of the same server name: the second request is a request for that server name too,
	// so it reaches the same target with the same Host header and TLS server name - with and without a client timeout
	for _, timeout := range []time.Duration{5 * time.Second, 0} {
		for _, name := range []string{"a.hist.test", "b.hist.test"} {
			c.Case("client:redirect-within-a-server-name", map[string]any{"name": name, "client_timeout": timeout.String()}, func() {
				c.Nontrivial(fmt.Sprintf("client-delegation|redirect|%s|%v", name, timeout))
				cl := fclient.NewClient(fclient.WithSkipVerify(true), fclient.WithWellKnownSRVLookups(true), fclient.WithTimeout(timeout))
				req, err := http.NewRequest("GET", "matrix://"+name+"/verif/moved", nil)
				if err != nil {
					return
				}
				mu.Lock()
				hits, snis = nil, nil
				mu.Unlock()
				ctx, cancel := context.WithTimeout(context.Background(), 5*time.Second)
				resp, err := cl.DoHTTPRequest(ctx, req)
				if resp != nil {
					resp.Body.Close()
				}
				cancel()
				mu.Lock()
				got := append([]hit{}, hits...)
				gotSNI := append([]string{}, snis...)
				mu.Unlock()
				c.Count("client_redirects_followed")
				if err != nil && len(got) < 2 {
					// a client is free not to follow redirects; then there is nothing to compare
					c.Count("client_redirect_not_followed")
					return
				}
				if len(got) < 2 {
					c.Count("client_redirect_not_followed")
					return
				}
				w := want[name]
				wantSNI, _, _ := net.SplitHostPort(w.host)
				if wantSNI == "" {
					wantSNI = w.host
				}
				for i := range got {
					sniOK := gotSNI[i] == wantSNI || (net.ParseIP(wantSNI) != nil && gotSNI[i] == "")
					if got[i] != w || !sniOK {
						c.Failf("client:redirect-within-a-server-name:wrong-target", "request %d of a redirected request for %s (client timeout %v) reached server %s with Host %q and TLS name %q; that name resolves to server %s with Host %q and TLS name %q", i+1, name, timeout, got[i].server, got[i].host, gotSNI[i], w.server, w.host, wantSNI)
						return
					}
				}
			})
		}
	}
	// the request target travels as the caller wrote it: an escaped '/' (room version 3 event IDs), ':' or '$' in the
	// path is part of what the sender signs (X-Matrix covers the URI), so the transport does not re-spell it (tenth
	// seeding round, C13-U: the https URL rebuilt from Path and RawQuery alone)
	for _, target := range []string{"/verif/a%2Fb%3Ac%24d", "/verif/a%2Fb?x=%2F&y=%3A", "/verif/plain/path?", "/verif/%E2%82%AC/%2f"} {
		c.Case("client:request-target-as-written", map[string]any{"target": target}, func() {
			c.Nontrivial("client-delegation|target|" + target)
			cl := fclient.NewClient(fclient.WithSkipVerify(true), fclient.WithWellKnownSRVLookups(true), fclient.WithTimeout(5*time.Second))
			req, err := http.NewRequest("GET", "matrix://b.hist.test"+target, nil)
			if err != nil {
				return
			}
			wantURI := req.URL.RequestURI()
			mu.Lock()
			hits, snis, uris = nil, nil, nil
			mu.Unlock()
			ctx, cancel := context.WithTimeout(context.Background(), 5*time.Second)
			resp, err := cl.DoHTTPRequest(ctx, req)
			if resp != nil {
				resp.Body.Close()
			}
			cancel()
			mu.Lock()
			gotURIs := append([]string{}, uris...)
			mu.Unlock()
			c.Count("client_request_targets_compared")
			if err != nil || len(gotURIs) != 1 {
				c.Failf("client-delegation-history:request-not-delivered", "the request for b.hist.test%s gave err=%v and reached the server %d times", target, err, len(gotURIs))
				return
			}
			if gotURIs[0] != wantURI {
				c.Failf("client:request-target-respelt", "a request for the target %q arrived at the server as %q", wantURI, gotURIs[0])
			}
		})
	}
	c.Floor("client_delegation_history_requests", 10)
	c.Floor("client_redirects_followed", 4)
	c.Floor("client_request_targets_compared", 4)
}

// c16ClientSequences sends requests for several server names that share a host through ONE client that resolves and
// remembers resolutions (as NewFederationClient's does): every request must arrive at the target its own name
// resolves to, with that name as Host header, whatever the client resolved before.
func c16ClientSequences(c *mon.Ctx) {
	r := c.Rand("client-sequences")
	type hit struct{ server, host, sni string }
	var mu sync.Mutex
	var hits []hit
	var names []string
	var servers []*httptest.Server
	for i := 0; i < 3; i++ {
		label := fmt.Sprintf("server%d", i)
		srv := httptest.NewUnstartedServer(http.HandlerFunc(func(w http.ResponseWriter, q *http.Request) {
			mu.Lock()
			sni := ""
			if q.TLS != nil {
				sni = q.TLS.ServerName
			}
			hits = append(hits, hit{label, q.Host, sni})
			mu.Unlock()
			w.Header().Set("Content-Type", "application/json")
			_, _ = w.Write([]byte(`{"server":{"name":"` + label + `","version":"1"}}`))
		}))
		srv.Config.ErrorLog = log.New(io.Discard, "", 0)
		srv.StartTLS()
		servers = append(servers, srv)
		names = append(names, srv.Listener.Addr().String()) // 127.0.0.1:<port>: an IP literal with an explicit port
	}
	defer func() {
		for _, s := range servers {
			s.Close()
		}
	}()
	// invalid server names are refused by the federation client too, whichever way it builds its request: a name with a
	// userinfo part in front of a reachable address must not end up as a request to that address
	if c.Shard == 0 {
		signer := gen.NewIdentity(c.RandShared("c16-signer"), "me.example", "ed25519:1")
		fc := fclient.NewFederationClient([]*fclient.SigningIdentity{{ServerName: "me.example", KeyID: gmsl.KeyID(signer.KeyID), PrivateKey: signer.Priv}}, fclient.WithSkipVerify(true), fclient.WithTimeout(5*time.Second))
		for _, prefix := range []string{"evil@", "user:pass@", "@", "a%40b@"} {
			name := prefix + names[0]
			c.Case("client:invalid-name-with-userinfo", map[string]any{"name": name}, func() {
				c.Nontrivial("client-userinfo|" + prefix)
				for api, call := range map[string]func(ctx context.Context) error{
					"LookupProfile": func(ctx context.Context) error {
						_, err := fc.LookupProfile(ctx, "me.example", spec.ServerName(name), "@a:b.example", "")
						return err
					},
					"MakeJoin": func(ctx context.Context) error {
						_, err := fc.MakeJoin(ctx, "me.example", spec.ServerName(name), "!r:b.example", "@a:me.example")
						return err
					},
					"GetServerKeys": func(ctx context.Context) error { _, err := fc.GetServerKeys(ctx, spec.ServerName(name)); return err },
				} {
					mu.Lock()
					hits = nil
					mu.Unlock()
					ctx, cancel := context.WithTimeout(context.Background(), 5*time.Second)
					err := call(ctx)
					cancel()
					mu.Lock()
					got := append([]hit{}, hits...)
					mu.Unlock()
					c.Count("client_invalid_name_requests")
					if len(got) > 0 {
						c.Failf("client:invalid-name-not-refused:userinfo", "%s for the invalid server name %q (err=%v) sent a request to %s (Host %q)", api, name, err, names[0], got[0].host)
						return
					}
				}
			})
		}
	}
	// a client built without well-known / SRV lookups still follows the steps that need no lookup: explicit port (TLS
	// name = the host without the port, Host header = the server name), and port 8448 where the name gives none
	if c.Shard == 0 {
		_, portStr, _ := net.SplitHostPort(names[1])
		plain := "localhost:" + portStr
		var on8448 *httptest.Server
		if l, err := net.Listen("tcp", "127.0.0.1:8448"); err == nil {
			on8448 = httptest.NewUnstartedServer(servers[2].Config.Handler)
			on8448.Listener.Close()
			on8448.Listener = l
			on8448.Config.ErrorLog = log.New(io.Discard, "", 0)
			on8448.StartTLS()
			defer on8448.Close()
		}
		for _, name := range []string{plain, "localhost"} {
			if name == "localhost" && on8448 == nil {
				c.Note("port 8448 is taken on this machine: default-port case of the lookup-free client skipped")
				continue
			}
			c.Case("client:lookups-off", map[string]any{"name": name}, func() {
				c.Nontrivial("client-lookups-off|" + name)
				cl := fclient.NewClient(fclient.WithSkipVerify(true), fclient.WithTimeout(5*time.Second))
				mu.Lock()
				hits = nil
				mu.Unlock()
				ctx, cancel := context.WithTimeout(context.Background(), 5*time.Second)
				_, err := cl.GetVersion(ctx, spec.ServerName(name))
				cancel()
				mu.Lock()
				got := append([]hit{}, hits...)
				mu.Unlock()
				c.Count("client_lookups_off_requests")
				if err != nil || len(got) != 1 {
					c.Failf("client-lookups-off:request-not-delivered", "a client without well-known / SRV lookups asked for %s: err=%v, requests seen %v (expected one at %s)", name, err, got, map[bool]string{true: names[1], false: "127.0.0.1:8448"}[name == plain])
					return
				}
				if got[0].host != name {
					c.Failf("client-lookups-off:wrong-host-header", "request for %s carried Host %q", name, got[0].host)
				}
				if got[0].sni != "localhost" {
					c.Failf("client-lookups-off:wrong-tls-server-name", "request for %s asked for the TLS server name %q, the host is localhost", name, got[0].sni)
				}
			})
		}
	}
	// the caller's slice of options is the caller's: a constructor given a part of it leaves the rest alone, and a
	// client built from the whole slice afterwards has the lists the caller put there
	if c.Shard == 0 {
		c.Case("client:options-slice-shared-between-two-constructors", nil, func() {
			c.Nontrivial("client-options-slice")
			opts := make([]fclient.ClientOption, 0, 8)
			opts = append(opts, fclient.WithSkipVerify(true), fclient.WithTimeout(5*time.Second), fclient.WithAllowDenyNetworks([]string{"0.0.0.0/0"}, []string{"127.0.0.0/8"}))
			signer := gen.NewIdentity(c.RandShared("c16-signer"), "me.example", "ed25519:1")
			_ = fclient.NewFederationClient([]*fclient.SigningIdentity{{ServerName: "me.example", KeyID: gmsl.KeyID(signer.KeyID), PrivateKey: signer.Priv}}, opts[:2]...)
			cl := fclient.NewClient(opts...)
			mu.Lock()
			hits = nil
			mu.Unlock()
			ctx, cancel := context.WithTimeout(context.Background(), 5*time.Second)
			_, err := cl.GetVersion(ctx, spec.ServerName(names[0]))
			cancel()
			mu.Lock()
			got := append([]hit{}, hits...)
			mu.Unlock()
			c.Count("client_invalid_name_requests")
			if len(got) > 0 {
				c.Failf("policy:connection-to-denied-address:options-slice-overwritten-by-another-constructor", "a client built with a deny list for 127.0.0.0/8 (err=%v) connected to %s after NewFederationClient had been given the first two options of the same slice", err, names[0])
			}
		})
	}
	// LookupWellKnown is an entry point of its own: what is no server name is refused there too
	if c.Shard == 0 {
		for _, name := range []string{"evil@" + names[0], names[0] + "/x?", names[0] + "#", "user:pw@" + names[0]} {
			if v, _, _ := ref.ServerName(name); v == ref.Valid {
				panic("harness: " + name + " is a valid server name")
			}
			c.Case("wellknown:invalid-name", map[string]any{"name": name}, func() {
				c.Nontrivial("wellknown-invalid|" + name[:len(name)-len(names[0])+1])
				old := http.DefaultTransport
				asked := []string{}
				var amu sync.Mutex
				http.DefaultTransport = c18Transport(func(q *http.Request) (*http.Response, error) {
					amu.Lock()
					asked = append(asked, q.URL.String())
					amu.Unlock()
					return &http.Response{StatusCode: 200, Status: "200", Header: http.Header{"Content-Type": []string{"application/json"}}, Body: io.NopCloser(strings.NewReader(`{"m.server":"delegated.example:443"}`)), Request: q, ProtoMajor: 1, ProtoMinor: 1, ContentLength: -1}, nil
				})
				ctx, cancel := context.WithTimeout(context.Background(), 5*time.Second)
				res, err := fclient.LookupWellKnown(ctx, spec.ServerName(name))
				cancel()
				http.DefaultTransport = old
				c.Count("client_invalid_name_requests")
				if len(asked) > 0 || (err == nil && res != nil) {
					c.Failf("wellknown:invalid-name-not-refused", "LookupWellKnown(%q) - no server name - asked %v and returned %v, %v", name, asked, res, err)
				}
			})
		}
	}
	// a client without lookups given a request somebody else built (DoHTTPRequest; FederationRequest.HTTPRequest makes
	// such requests): a host that is no server name is refused there as well, not dialled as whatever net/url makes of it
	if c.Shard == 0 {
		_, portStr, _ := net.SplitHostPort(names[0])
		cl := fclient.NewClient(fclient.WithSkipVerify(true), fclient.WithTimeout(5*time.Second))
		for _, host := range []string{"[127.0.0.1]:" + portStr, "[localhost]:" + portStr, "[127.0.0.1" + "]"} {
			if v, _, _ := ref.ServerName(host); v == ref.Valid {
				panic("harness: " + host + " is a valid server name")
			}
			c.Case("client:lookups-off:invalid-host-in-a-built-request", map[string]any{"host": host}, func() {
				c.Nontrivial("client-lookups-off-invalid|" + host)
				req, err := http.NewRequest("GET", "matrix://"+host+"/_matrix/federation/v1/version", nil)
				if err != nil {
					c.Count("client_built_request_not_constructible")
					return
				}
				mu.Lock()
				hits = nil
				mu.Unlock()
				ctx, cancel := context.WithTimeout(context.Background(), 5*time.Second)
				resp, err := cl.DoHTTPRequest(ctx, req)
				if resp != nil {
					resp.Body.Close()
				}
				cancel()
				mu.Lock()
				got := append([]hit{}, hits...)
				mu.Unlock()
				c.Count("client_invalid_name_requests")
				if len(got) > 0 {
					c.Failf("client:invalid-name-not-refused:lookups-off:DoHTTPRequest", "a request built for the host %q (no server name) and handed to a client without lookups (err=%v) was sent to %s (Host %q)", host, err, names[0], got[0].host)
				}
			})
		}
	}
	// the same through the plain client's own entry points, which build their URLs in other ways: names that are no
	// server names (userinfo, a trailing colon, a path, a query, a fragment behind a reachable address)
	if c.Shard == 0 {
		cl := fclient.NewClient(fclient.WithSkipVerify(true), fclient.WithWellKnownSRVLookups(true), fclient.WithTimeout(5*time.Second))
		for _, name := range []string{"evil@" + names[0], "user:pw@" + names[0], names[0] + ":", names[0] + "/x", names[0] + "?x=", names[0] + "#", " " + names[0]} {
			if v, _, _ := ref.ServerName(name); v == ref.Valid {
				panic("harness: " + name + " is a valid server name")
			}
			c.Case("client:invalid-name-through-plain-client", map[string]any{"name": name}, func() {
				c.Nontrivial("client-invalid|" + name[:len(name)-len(names[0])+1])
				for api, call := range map[string]func(ctx context.Context) error{
					"GetVersion":    func(ctx context.Context) error { _, err := cl.GetVersion(ctx, spec.ServerName(name)); return err },
					"GetServerKeys": func(ctx context.Context) error { _, err := cl.GetServerKeys(ctx, spec.ServerName(name)); return err },
					"LookupServerKeys": func(ctx context.Context) error {
						_, err := cl.LookupServerKeys(ctx, spec.ServerName(name), map[gmsl.PublicKeyLookupRequest]spec.Timestamp{{ServerName: "a.example", KeyID: "ed25519:1"}: 0})
						return err
					},
					"LookupUserInfo": func(ctx context.Context) error { _, err := cl.LookupUserInfo(ctx, spec.ServerName(name), "token"); return err },
					"CreateMediaDownloadRequest": func(ctx context.Context) error {
						resp, err := cl.CreateMediaDownloadRequest(ctx, spec.ServerName(name), "mediaid")
						if resp != nil {
							resp.Body.Close()
						}
						return err
					},
				} {
					mu.Lock()
					hits = nil
					mu.Unlock()
					ctx, cancel := context.WithTimeout(context.Background(), 5*time.Second)
					err := call(ctx)
					cancel()
					mu.Lock()
					got := append([]hit{}, hits...)
					mu.Unlock()
					c.Count("client_invalid_name_requests")
					if len(got) > 0 {
						c.Failf("client:invalid-name-not-refused:"+api, "%s for the invalid server name %q (err=%v) sent a request to %s (Host %q)", api, name, err, names[0], got[0].host)
					}
				}
			})
		}
	}
	n := c.Scale(6, 60)
	for k := 0; k < n; k++ {
		sr := r.Fork("seq")
		var seq []int
		for i, m := 0, sr.Range(3, 8); i < m; i++ {
			seq = append(seq, sr.Intn(len(names)))
		}
		c.Case("client:sequence-of-names-sharing-a-host", map[string]any{"sequence": seq}, func() {
			c.Nontrivial(fmt.Sprintf("client-seq|%v", seq))
			cl := fclient.NewClient(fclient.WithSkipVerify(true), fclient.WithWellKnownSRVLookups(true), fclient.WithTimeout(5*time.Second))
			for step, i := range seq {
				mu.Lock()
				hits = nil
				mu.Unlock()
				ctx, cancel := context.WithTimeout(context.Background(), 5*time.Second)
				v, err := cl.GetVersion(ctx, spec.ServerName(names[i]))
				cancel()
				mu.Lock()
				got := append([]hit{}, hits...)
				mu.Unlock()
				c.Count("client_sequence_requests")
				want := fmt.Sprintf("server%d", i)
				if err != nil || len(got) != 1 {
					c.Failf("client-sequence:request-not-delivered", "step %d of %v: the request for %s gave err=%v and reached %v", step, seq, names[i], err, got)
					return
				}
				if got[0].server != want || v.Server.Name != want {
					c.Failf("client-sequence:wrong-target", "step %d of %v: the request for %s was answered by %s (listening on %s), not by the server at that address", step, seq, names[i], got[0].server, names[seqIndex(got[0].server)])
					return
				}
				if got[0].host != names[i] {
					c.Failf("client-sequence:wrong-host-header", "step %d of %v: the request for %s carried Host %q", step, seq, names[i], got[0].host)
					return
				}
			}
		})
	}
}

func seqIndex(label string) int {
	i, _ := strconv.Atoi(strings.TrimPrefix(label, "server"))
	return i
}
