package main

import (
	"github.com/matrix-org/gomatrixserverlib/spec"
	"errors"
	"fmt"
	"sort"
	"strings"

	gmsl "github.com/matrix-org/gomatrixserverlib"

	"verif/gen"
	"verif/mon"
	"verif/ref"
)

func init() {
	register(&propDef{
		ID:    "C10",
		Level: "exploration",
		Rule: "a case is one simulated room history: a trunk (create, creator join, power levels, join rules, joins) forked into 2-5 branches of random actions by up to 6 users on 3 servers (power-level and join-rule changes, bans, kicks, unbans, invites, joins incl. restricted, leaves, topic/name/custom state, messages), every event built by the real EventBuilder with auth events chosen by AddAuthEvents and kept only if allowed at its position; the state sets are the branch states, the auth list is every state event of the room; 0-2 events may be marked rejected by the caller's oracle. The result of ResolveConflictsNew is compared, as a set of event IDs, with the reference resolver (v1 / v2 / v2.1 per room version). " +
			"distinct = distinct (version, sorted state-set IDs); non-trivial = at least one conflicted power event and one conflicted non-power event, or the auth-event fallback was exercised",
		Assumptions: []string{"reference resolvers harness/ref/stateres.go (appendix C, refinements R1-R7)", "the library's public Allowed on a fresh provider as auth primitive (decided by C07)", "v1 is driven as its resolver documents: auth events = the unconflicted auth state, one per key"},
		Run:         runC10,
	})
}

func toSEv(p gmsl.PDU) *ref.SEv {
	e := &ref.SEv{ID: p.EventID(), Type: p.Type(), Sender: string(p.SenderID()), Auth: p.AuthEventIDs(), TS: int64(p.OriginServerTS()), Depth: p.Depth()}
	if p.StateKey() != nil {
		e.StateKey = *p.StateKey()
	}
	if cv, _, err := ref.Parse(p.Content()); err == nil {
		e.Content = cv
		if p.Type() == "m.room.member" {
			e.Membership, _ = cv.Get("membership").Str()
		}
	}
	return e
}

// resInput prepares the reference problem for a scenario.
func resInput(sc *simScenario, sets [][]gmsl.PDU, authList []gmsl.PDU, rejected map[string]bool) (*ref.ResInput, map[string]gmsl.PDU) {
	pdus := map[string]gmsl.PDU{}
	in := &ref.ResInput{T: sc.s.t, Events: map[string]*ref.SEv{}, AuthMap: map[string]bool{}}
	for _, p := range authList {
		pdus[p.EventID()] = p
		in.AuthMap[p.EventID()] = true
	}
	for _, set := range sets {
		ids := []string{}
		for _, p := range set {
			pdus[p.EventID()] = p
			ids = append(ids, p.EventID())
		}
		in.Sets = append(in.Sets, ids)
	}
	for id, p := range pdus {
		in.Events[id] = toSEv(p)
	}
	in.Rejected = func(id string) bool { return rejected[id] }
	in.Creators = gmsl.CreatorsFromCreateEvent(sc.s.create)
	in.Needed = func(id string) []ref.SKey {
		out := []ref.SKey{}
		for _, t := range gmsl.StateNeededForAuth([]gmsl.PDU{pdus[id]}).Tuples() {
			out = append(out, ref.SKey{Type: t.EventType, Key: t.StateKey})
		}
		return out
	}
	in.Allowed = func(id string, st map[ref.SKey]string) bool {
		list := []gmsl.PDU{}
		for _, sid := range st {
			list = append(list, pdus[sid])
		}
		prov, err := gmsl.NewAuthEvents(list)
		if err != nil {
			return false
		}
		return gmsl.Allowed(pdus[id], prov, userIDForSender) == nil
	}
	return in, pdus
}

func idsOf(ps []gmsl.PDU) []string {
	out := []string{}
	for _, p := range ps {
		out = append(out, p.EventID())
	}
	sort.Strings(out)
	return out
}

// v1AuthState returns the unconflicted auth-type state (one event per key).
func v1AuthState(sets [][]gmsl.PDU) ([]gmsl.PDU, map[ref.SKey]string) {
	by := map[ref.SKey]map[string]gmsl.PDU{}
	for _, set := range sets {
		for _, p := range set {
			k := ref.SKey{Type: p.Type(), Key: *p.StateKey()}
			if by[k] == nil {
				by[k] = map[string]gmsl.PDU{}
			}
			by[k][p.EventID()] = p
		}
	}
	var list []gmsl.PDU
	m := map[ref.SKey]string{}
	keys := []ref.SKey{}
	for k := range by {
		keys = append(keys, k)
	}
	sort.Slice(keys, func(i, j int) bool { return keys[i].Type+"|"+keys[i].Key < keys[j].Type+"|"+keys[j].Key })
	for _, k := range keys {
		if len(by[k]) != 1 {
			continue
		}
		switch k.Type {
		case "m.room.create", "m.room.power_levels", "m.room.join_rules", "m.room.member", "m.room.third_party_invite":
		default:
			continue
		}
		for id, p := range by[k] {
			list = append(list, p)
			m[k] = id
		}
	}
	return list, m
}

// referenceResolve runs the reference for a scenario.
func referenceResolve(sc *simScenario, sets [][]gmsl.PDU, authList []gmsl.PDU, rejected map[string]bool) ([]string, *ref.ResTrace, []gmsl.PDU) {
	if sc.s.t.StateRes == 1 {
		authState, m := v1AuthState(sets)
		in, _ := resInput(sc, sets, authState, rejected)
		res := ref.ResolveV1(in, m)
		out := []string{}
		for _, id := range res {
			out = append(out, id)
		}
		sort.Strings(out)
		return out, &ref.ResTrace{}, authState
	}
	in, _ := resInput(sc, sets, authList, rejected)
	res, tr := ref.ResolveV2(in)
	out := []string{}
	for _, id := range res {
		out = append(out, id)
	}
	sort.Strings(out)
	return out, tr, authList
}

func describeScenario(sc *simScenario, rejected map[string]bool) map[string]any {
	sets := [][]string{}
	for _, s := range sc.stateSets {
		l := []string{}
		for _, p := range s {
			l = append(l, fmt.Sprintf("%s %s[%s]", p.EventID()[:8], p.Type(), *p.StateKey()))
		}
		sets = append(sets, l)
	}
	rej := []string{}
	for id := range rejected {
		rej = append(rej, id[:8])
	}
	sort.Strings(rej)
	return map[string]any{"version": sc.s.ver, "history": sc.s.trace, "state_sets": sets, "marked_rejected": rej}
}

func runC10(c *mon.Ctx) {
	r := c.Rand("scenarios")
	versions := []gmsl.RoomVersion{"1", "2", "6", "10", "11", "12"}
	if c.Thorough() {
		versions = nil
		for _, v := range sortedVersions() {
			if v != gmsl.RoomVersionPseudoIDs {
				versions = append(versions, v)
			}
		}
	}
	n := c.Scale(3600, 160000) / len(versions)
	maxActions := 6
	if c.Thorough() {
		maxActions = 14
	}
	for k := 0; k < n; k++ {
		for _, ver := range versions {
			sr := r.Fork("scenario")
			var sc *simScenario
			site, msg, pan := mon.Guard(func() { sc = genScenario(sr, ver, maxActions) })
			if pan {
				c.Case("simulate:"+string(ver), map[string]any{"version": ver}, func() {
					c.Failf("sim:panic:"+site, "building a room history panics in v%s: %s", ver, msg)
				})
				continue
			}
			if sc.s.t.StateRes != 1 && sr.Chance(0.2) && len(sc.stateSets) >= 2 {
				// state sets need not be fork tips: after a merge a server holds the resolved state of both sides. One set
				// takes over another set's event for some key; its own event for that key stays behind in the auth chains
				// of what it sent later, i.e. in the auth difference, while the key itself is no longer in conflict.
				i := sr.Intn(len(sc.stateSets))
				j := (i + 1 + sr.Intn(len(sc.stateSets)-1)) % len(sc.stateSets)
				from := map[stKey]gmsl.PDU{}
				for _, p := range sc.stateSets[j] {
					from[stKey{p.Type(), *p.StateKey()}] = p
				}
				mixed := append([]gmsl.PDU{}, sc.stateSets[i]...)
				for _, idx := range sr.Perm(len(mixed)) {
					p := mixed[idx]
					if q := from[stKey{p.Type(), *p.StateKey()}]; q != nil && q.EventID() != p.EventID() && p.Type() != "m.room.create" {
						mixed[idx] = q
						break
					}
				}
				sets := append([][]gmsl.PDU{}, sc.stateSets...)
				sets[i] = mixed
				sc.stateSets = sets
			}
			rejected := map[string]bool{}
			if sr.Chance(0.3) {
				for i := sr.Range(1, 2); i > 0; i-- {
					rejected[gen.Pick(sr, sc.authAll).EventID()] = true
				}
			}
			c.Case("resolve:"+string(ver), describeScenario(sc, rejected), func() {
				want, tr, authList := referenceResolve(sc, sc.stateSets, sc.authAll, rejected)
				var got []gmsl.PDU
				var err error
				site, msg, pan := mon.Guard(func() {
					got, err = gmsl.ResolveConflictsNew(ver, sc.stateSets, authList, userIDForSender, func(id string) bool { return rejected[id] })
				})
				if pan {
					c.Failf("stateres:panic:"+site, "ResolveConflictsNew(v%s) panics: %s", ver, msg)
					return
				}
				if err != nil {
					c.Failf("stateres:error", "ResolveConflictsNew(v%s): %v", ver, err)
					return
				}
				c.Count("resolutions")
				c.Count(fmt.Sprintf("algorithm_%d", sc.s.t.StateRes))
				if sc.s.t.StateRes == 1 {
					// a fault, version 1: the sender lookup fails once, at its k-th call. The version-1 algorithm resolves
					// every ordinary key on its own against the resolved create / power-levels / join-rules / member events,
					// one candidate and one auth check at a time: a single check that went wrong can cost the candidate it
					// was about. So where no key of those auth types resolves differently than without the fault, at most
					// one other key does.
					byKey := func(ps []gmsl.PDU) map[ref.SKey]string {
						m := map[ref.SKey]string{}
						for _, p := range ps {
							m[ref.SKey{Type: p.Type(), Key: *p.StateKey()}] = p.EventID()
						}
						return m
					}
					base := byKey(got)
					authType := map[string]bool{"m.room.create": true, "m.room.power_levels": true, "m.room.join_rules": true, "m.room.member": true, "m.room.third_party_invite": true}
					for k := 1; k <= 10; k++ {
						calls := 0
						flaky := func(roomID spec.RoomID, senderID spec.SenderID) (*spec.UserID, error) {
							calls++
							if calls == k {
								return nil, errors.New("scripted fault (once)")
							}
							return userIDForSender(roomID, senderID)
						}
						var fgot []gmsl.PDU
						var ferr error
						if site, msg, pan := mon.Guard(func() {
							fgot, ferr = gmsl.ResolveConflictsNew(ver, sc.stateSets, authList, flaky, func(id string) bool { return rejected[id] })
						}); pan {
							c.Failf("stateres:panic:sender-lookup-fails-once:"+site, "ResolveConflictsNew(v%s) panics when the sender lookup fails at call %d: %s", ver, k, msg)
							break
						}
						c.Count("v1_resolutions_with_a_sender_lookup_failing_once")
						if ferr != nil || calls < k {
							continue
						}
						fm := byKey(fgot)
						authDiffers, others := false, []string{}
						for key, id := range base {
							if fm[key] != id {
								if authType[key.Type] {
									authDiffers = true
								} else {
									others = append(others, key.Type+"["+key.Key+"]")
								}
							}
						}
						for key := range fm {
							if _, ok := base[key]; !ok {
								if authType[key.Type] {
									authDiffers = true
								} else {
									others = append(others, key.Type+"["+key.Key+"]")
								}
							}
						}
						if !authDiffers && len(others) > 1 {
							sort.Strings(others)
							c.Failf("stateres:alg1:one-failed-lookup-costs-several-keys", "v%s: with the sender lookup failing once (call %d) the create / power-levels / join-rules / member events resolve as without the fault, yet %d other keys resolve differently: %v", ver, k, len(others), others)
							break
						}
					}
				}
				gotIDs := idsOf(got)
				if tr.ConflictedPower > 0 && tr.ConflictedOther > 0 || tr.FallbackUsed {
					all := []string{}
					for _, s := range sc.stateSets {
						all = append(all, strings.Join(idsOf(s), ","))
					}
					sort.Strings(all)
					c.Nontrivial(string(ver) + "|" + strings.Join(all, ";"))
				}
				if tr.FallbackUsed {
					c.Count("fallback_exercised")
				}
				if tr.ConflictedPower > 0 {
					c.Count("with_conflicted_power_events")
				}
				if tr.AuthDiff > 0 {
					c.Count("with_auth_difference")
				}
				if tr.Subgraph > 0 {
					c.Count("with_conflicted_subgraph")
				}
				if len(tr.Rejected) > 0 {
					c.Count("with_event_failing_iterative_auth")
				}
				if strings.Join(gotIDs, ",") != strings.Join(want, ",") {
					gm, wm := map[string]bool{}, map[string]bool{}
					for _, id := range gotIDs {
						gm[id] = true
					}
					for _, id := range want {
						wm[id] = true
					}
					diff := []string{}
					kinds := map[string]bool{}
					for _, p := range got {
						if !wm[p.EventID()] {
							diff = append(diff, fmt.Sprintf("library has %s %s[%s]", p.EventID()[:8], p.Type(), *p.StateKey()))
							kinds[p.Type()] = true
						}
					}
					for _, id := range want {
						if !gm[id] {
							p := sc.s.all[id]
							diff = append(diff, fmt.Sprintf("reference has %s %s[%s]", id[:8], p.Type(), *p.StateKey()))
							kinds[p.Type()] = true
						}
					}
					ks := []string{}
					for k := range kinds {
						ks = append(ks, strings.TrimPrefix(k, "m.room."))
					}
					sort.Strings(ks)
					c.Failf(fmt.Sprintf("stateres:alg%d:differs:%s", sc.s.t.StateRes, strings.Join(ks, "+")), "v%s: resolved state differs from the reference: %v\nreference power order %v, other order %v, failing iterative auth %v", ver, diff, short(tr.PowerOrder), short(tr.OtherOrder), short(tr.Rejected))
				}
				if c.WantSample() && tr.ConflictedPower > 0 && len(sc.s.trace) < 40 {
					c.Sample(describeScenario(sc, rejected))
				}
			})
		}
	}
	// directed, version-1 algorithm: a kick on one branch against renames on the other, resolved with auth events that
	// cover keys in conflict too (pre-fork member events, or one of the candidates): every block of a type is judged
	// against the auth events as supplied, whichever block the resolver happens to walk first
	for _, ver := range versions {
		if t := ref.Traits(string(ver)); t == nil || t.StateRes != 1 {
			continue
		}
		for k := 0; k < c.Scale(32, 640); k++ {
			sr := c.Rand(fmt.Sprintf("v1-ancestors-%s-%d", ver, k))
			s, sets, auth, victim, skipped := v1AncestorScenario(sr, ver)
			if skipped != "" {
				c.Count(skipped)
				continue
			}
			c.Case("resolve:v1-auth-events-for-conflicted-keys:"+string(ver), map[string]any{"version": ver, "kicked": victim, "state_sets": [][]string{idsOf(sets[0]), idsOf(sets[1])}, "auth_events": idsOf(auth)}, func() {
				c.Nontrivial(fmt.Sprintf("v1anc|%s|%d", ver, k))
				m := map[ref.SKey]string{}
				for _, p := range auth {
					m[ref.SKey{Type: p.Type(), Key: *p.StateKey()}] = p.EventID()
				}
				in, _ := resInput(&simScenario{s: s}, sets, auth, nil)
				wantM := ref.ResolveV1(in, m)
				want := []string{}
				for _, id := range wantM {
					want = append(want, id)
				}
				sort.Strings(want)
				for i := 0; i < 24; i++ {
					got, err := gmsl.ResolveConflictsNew(ver, sets, auth, userIDForSender, func(string) bool { return false })
					if err != nil {
						c.Failf("stateres:error", "ResolveConflictsNew(v%s): %v", ver, err)
						return
					}
					c.Count("resolutions")
					c.Count("v1_resolutions_with_auth_events_for_conflicted_keys")
					if gotIDs := idsOf(got); strings.Join(gotIDs, ",") != strings.Join(want, ",") {
						c.Failf("stateres:alg1:differs:auth-events-for-conflicted-keys", "v%s, call %d of 24: resolved state %v differs from the reference %v (a kick of %s against renames; auth events %v)", ver, i+1, short(gotIDs), short(want), victim, short(idsOf(auth)))
						return
					}
				}
			})
		}
	}
	c.Floor("resolutions", 50)
	c.Floor("with_conflicted_power_events", 20)
	c.Floor("with_auth_difference", 20)
}

func short(ids []string) []string {
	out := []string{}
	for _, id := range ids {
		if len(id) > 8 {
			id = id[:8]
		}
		out = append(out, id)
	}
	return out
}
