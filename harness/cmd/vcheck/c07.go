package main

import (
	"github.com/matrix-org/gomatrixserverlib/spec"
	"errors"
	"encoding/base64"
	"crypto/ed25519"
	"fmt"
	"sort"
	"strings"

	gmsl "github.com/matrix-org/gomatrixserverlib"

	"verif/gen"
	"verif/mon"
	"verif/ref"
)

func init() {
	register(&propDef{
		ID:    "C07",
		Level: "exploration",
		Rule: "a case is (room version, create-event variant, auth state, event): the auth state is composed from pools of real built events - power-levels event (absent or one of N random contents incl. integer-like strings before v10), join rule (absent, public, invite, knock, restricted, knock_restricted, unknown), a member event per user (absent, join, leave, invite, ban, knock), third-party-invite event - and the event under test is one of 14 kinds (self / other membership change to every membership incl. missing and unknown, with and without authoriser, third-party invite, creator's first join, message, state, '@' state keys, third-party-invite event, redaction, aliases, create, power-levels change) by any of 5 users on 3 servers; occasionally with unrelated extra state, a foreign-room event or a missing create event. " +
			"distinct = distinct (version, state event IDs, event JSON minus signatures/ID); non-trivial = the reference reached a rule beyond the room/federation/sender-membership preliminaries",
		Assumptions: []string{"reference auth model harness/ref/auth.go (appendix B of DESIGN.md, departures D1-D12, abstentions 5.3)", "events are built by the real EventBuilder, so only buildable events are judged"},
		Run:         runC07,
	})
}

type authCase struct {
	w       *world
	state   []gmsl.PDU
	ev      gmsl.PDU
	kind    string
	multi   bool
	comment string
}

func pickMembership(r *gen.Rand) string {
	return gen.Pick(r, []string{"", "", "join", "join", "join", "leave", "invite", "ban", "knock"})
}

// composeState picks the auth state for a case.
func composeState(r *gen.Rand, w *world, force map[string]string) (state []gmsl.PDU, memberships map[string]string, pl gmsl.PDU, jr string) {
	memberships = map[string]string{}
	if !r.Chance(0.03) {
		state = append(state, w.create)
	}
	if len(w.pls) > 0 && r.Chance(0.8) {
		pl = gen.Pick(r, w.pls)
		state = append(state, pl)
	}
	jr = gen.Pick(r, []string{"", "public", "public", "invite", "knock", "restricted", "restricted", "knock_restricted", "private"})
	if f, ok := force["#join_rule"]; ok {
		jr = f
	}
	if jr != "" {
		state = append(state, w.jrs[jr])
	}
	for _, u := range authUsers {
		m := pickMembership(r)
		if f, ok := force[u]; ok {
			m = f
		}
		memberships[u] = m
		if m != "" {
			state = append(state, w.members[[2]string{u, m}])
		}
	}
	if r.Chance(0.5) {
		state = append(state, w.tpi)
	}
	if r.Chance(0.12) {
		state = append(state, w.tpiNoTok)
	}
	return
}

// proposePL derives a proposed power-levels content from the current one.
func proposePL(r *gen.Rand, t *ref.VersionTraits, cur *ref.Value, creators []string) *ref.Value {
	var c *ref.Value
	if cur != nil && r.Chance(0.8) {
		c = cur.Clone()
	} else {
		c = randPLContent(r, t, creators)
	}
	nEdits := r.Range(0, 3)
	if r.Chance(0.4) {
		nEdits = 1 // a single edit is judged on its own merits, not masked by another edit's refusal
	}
	for i := 0; i < nEdits; i++ {
		switch r.Intn(11) {
		case 0, 1:
			k := gen.Pick(r, []string{"ban", "kick", "invite", "redact", "state_default", "events_default", "users_default"})
			if r.Chance(0.25) {
				c.Del(k)
			} else {
				c.Set(k, lvl(r, t))
			}
		case 2, 3, 4:
			u := c.Get("users")
			if u == nil || u.K != ref.Obj {
				u = ref.O()
				c.Set("users", u)
			}
			user := gen.Pick(r, authUsers)
			if t.PLCreatorCheck && r.Chance(0.15) {
				// a creator named with exactly the level creators have anyway ("nothing changes") - named all the same
				user = gen.Pick(r, creators)
				u.Set(user, ref.I(gen.Pick(r, []int64{9007199254740991, 9007199254740991, 100, 9223372036854775807})))
				break
			}
			if r.Chance(0.3) {
				u.Del(user)
			} else {
				u.Set(user, lvl(r, t))
			}
		case 5, 6:
			e := c.Get("events")
			if e == nil || e.K != ref.Obj {
				e = ref.O()
				c.Set("events", e)
			}
			// (an event type may be spelt like one of the named thresholds: it is an entry of events all the same)
			typ := gen.Pick(r, []string{"m.room.topic", "m.room.message", "m.room.power_levels", "m.room.third_party_invite", "com.example.custom", "m.room.name", "kick", "ban", "users_default", "state_default"})
			if r.Chance(0.3) {
				e.Del(typ)
			} else {
				e.Set(typ, lvl(r, t))
			}
		case 7, 9, 10:
			n := c.Get("notifications")
			if n == nil || n.K != ref.Obj {
				n = ref.O()
				c.Set("notifications", n)
			}
			k := gen.Pick(r, []string{"room", "custom", "custom", "other"})
			switch {
			case r.Chance(0.25):
				// one entry goes and another comes in the same event (a rename): as many entries as before
				from, to := "custom", "other"
				if n.Get(from) == nil {
					from, to = to, from
				}
				if n.Get(from) == nil {
					n.Set(to, lvl(r, t))
					break
				}
				if r.Chance(0.5) {
					n.Set(to, n.Get(from))
				} else {
					n.Set(to, lvl(r, t))
				}
				n.Del(from)
			case r.Chance(0.3):
				n.Del(k)
			default:
				n.Set(k, lvl(r, t))
			}
		case 8:
			switch r.Intn(7) {
			case 4:
				// JSON null where a level or a map of levels belongs: present, and neither an integer nor an object
				c.Set(gen.Pick(r, []string{"users", "events", "notifications"}), ref.NullV())
			case 5:
				c.Set(gen.Pick(r, []string{"ban", "kick", "invite", "redact", "state_default", "events_default", "users_default"}), ref.NullV())
			case 6:
				k := gen.Pick(r, []string{"users", "events", "notifications"})
				m := c.Get(k)
				if m == nil || m.K != ref.Obj {
					m = ref.O()
					c.Set(k, m)
				}
				m.Set(map[string]string{"users": gen.Pick(r, authUsers), "events": "m.room.topic", "notifications": "room"}[k], ref.NullV())
			case 0:
				c.Set("users", ref.O("not a user id", ref.I(10)))
			case 1:
				c.Set("ban", ref.S("fifty"))
			case 2:
				c.Set("kick", ref.S("50"))
			default:
				c.Set("users", ref.A())
			}
		}
	}
	return c
}

var c07kinds = []string{"restricted-join", "restricted-join", "knock", "member-self", "member-self", "member-self", "member-other", "member-other", "member-other", "member-tpi", "first-join", "message", "state", "at-state-own", "at-state-other",
	"tpi-event", "redaction", "aliases", "create", "power-levels", "power-levels", "power-levels", "lookalike-keys", "lookalike-keys"}

func genAuthCase(r *gen.Rand, w *world) (*authCase, error) {
	kind := gen.Pick(r, c07kinds)
	sender := gen.Pick(r, authUsers)
	target := gen.Pick(r, authUsers)
	force := map[string]string{}
	// bias towards a joined sender, otherwise almost everything dies on the sender-membership rule
	if kind != "member-self" && kind != "first-join" && kind != "create" && kind != "aliases" && r.Chance(0.75) {
		force[sender] = "join"
	}
	via := gen.Pick(r, authUsers)
	if kind == "restricted-join" {
		force["#join_rule"] = gen.Pick(r, []string{"restricted", "restricted", "knock_restricted"})
		force[sender] = gen.Pick(r, []string{"", "leave", "leave", "knock", "invite", "join", "ban"})
		if r.Chance(0.8) {
			force[via] = "join"
		}
	}
	if kind == "knock" {
		force["#join_rule"] = gen.Pick(r, []string{"knock", "knock", "knock_restricted", "public", "invite"})
		force[sender] = gen.Pick(r, []string{"", "leave", "leave", "knock", "invite", "join", "ban"})
	}
	state, _, plEv, _ := composeState(r, w, force)
	ac := &authCase{w: w, state: state, kind: kind}
	creators := []string{authUsers[0]}
	if w.variant == "federated-explicit" && w.t.PrivCreators {
		creators = append(creators, authUsers[1])
	}
	var err error
	switch kind {
	case "restricted-join":
		c := ref.O("membership", ref.S("join"))
		if r.Chance(0.9) {
			c.Set("join_authorised_via_users_server", ref.S(via))
		}
		if r.Chance(0.06) {
			// a restricted join that also claims a third-party invite, with the empty token
			c.Set("third_party_invite", w.signedTPI(sender, "", true))
		}
		ac.ev, err = w.build("m.room.member", strp(sender), sender, c, nil, "")
	case "knock":
		ac.ev, err = w.build("m.room.member", strp(sender), sender, ref.O("membership", ref.S("knock")), nil, "")
	case "member-self", "member-other":
		if kind == "member-self" {
			target = sender
		} else {
			for target == sender {
				target = gen.Pick(r, authUsers)
			}
		}
		m := gen.Pick(r, []string{"join", "join", "leave", "invite", "ban", "knock", "", "bogus"})
		c := ref.O()
		if m != "" {
			c.Set("membership", ref.S(m))
		}
		if m == "join" && r.Chance(0.6) {
			c.Set("join_authorised_via_users_server", ref.S(gen.Pick(r, append([]string{"not-a-user-id", "@ghost:origin.example"}, authUsers...))))
		}
		if r.Chance(0.1) {
			c.Set("displayname", ref.S("x"))
		}
		if r.Chance(0.05) {
			c.Set("mxid_mapping", ref.O("user_room_key", ref.S("key"), "user_id", ref.S(gen.Pick(r, authUsers))))
		}
		if r.Chance(0.03) {
			c.Set("displayname", ref.I(5)) // wrong type: exercises the lenient second parse
		}
		ac.ev, err = w.build("m.room.member", strp(target), sender, c, nil, "")
	case "member-tpi":
		for target == sender {
			target = gen.Pick(r, authUsers)
		}
		mx := target
		if r.Chance(0.2) {
			mx = gen.Pick(r, authUsers)
		}
		tok := "tok1"
		if r.Chance(0.15) {
			tok = "unknown-token"
		} else if r.Chance(0.12) {
			tok = "" // the room may hold a third-party-invite event under that state key
		}
		c := ref.O("membership", ref.S("invite"), "third_party_invite", w.signedTPI(mx, tok, r.Chance(0.7)))
		if r.Chance(0.12) {
			// the property is there, and null: an invite that claims to come from a third-party invite and carries nothing
			c.Set("third_party_invite", ref.NullV())
		}
		if r.Chance(0.2) {
			// a profile member of the wrong type next to it (the content is then read by the lenient decoder)
			c.Set(gen.Pick(r, []string{"displayname", "avatar_url", "reason"}), gen.Pick(r, []*ref.Value{ref.I(5), ref.A(), ref.O()}))
		}
		ac.ev, err = w.build("m.room.member", strp(target), sender, c, nil, "")
	case "first-join":
		who := authUsers[0]
		if r.Chance(0.2) {
			who = gen.Pick(r, authUsers)
		}
		prev := []string{w.create.EventID()}
		if r.Chance(0.2) {
			prev = append(prev, fakeEventID(r, w.t))
		}
		if r.Chance(0.1) {
			prev = []string{fakeEventID(r, w.t)}
		}
		// the creator's first join has nothing but the create event to go by
		ac.state = nil
		if !r.Chance(0.05) {
			ac.state = append(ac.state, w.create)
		}
		if r.Chance(0.2) {
			ac.state = append(ac.state, w.jrs[gen.Pick(r, []string{"public", "invite"})])
		}
		ac.ev, err = w.build("m.room.member", strp(who), who, ref.O("membership", ref.S("join")), prev, "")
	case "message":
		ac.ev, err = w.build(gen.Pick(r, []string{"m.room.message", "com.example.custom", "m.room.topic"}), nil, sender, ref.O("body", ref.S("hi")), nil, "")
	case "state":
		ac.ev, err = w.build(gen.Pick(r, []string{"m.room.topic", "m.room.name", "com.example.custom", "m.room.join_rules", "m.room.history_visibility"}), strp(gen.Pick(r, []string{"", "k"})), sender, ref.O("topic", ref.S("t"), "join_rule", ref.S("public")), nil, "")
	case "at-state-own":
		ac.ev, err = w.build("com.example.custom", strp(sender), sender, ref.O("x", ref.I(1)), nil, "")
	case "at-state-other":
		for target == sender {
			target = gen.Pick(r, authUsers)
		}
		sk := target
		if r.Chance(0.2) {
			sk = "@" // an '@' state key that is nobody's ID
		}
		ac.ev, err = w.build("com.example.custom", strp(sk), sender, ref.O("x", ref.I(1)), nil, "")
	case "tpi-event":
		// the token is the state key: any string, one that looks like a user ID included
		ac.ev, err = w.build("m.room.third_party_invite", strp(gen.Pick(r, []string{"tok2", "tok2", "@sometoken", gen.Pick(r, authUsers)})), sender, ref.O("display_name", ref.S("x"), "public_keys", ref.A()), nil, "")
	case "redaction":
		red := fakeEventID(r, w.t)
		if w.t.EventIDFormat != 1 {
			// v3+ IDs carry no domain; give the v1/v2-rule branch something to compare when the create event has no room_version
			red = "$abc:" + gen.Pick(r, []string{"origin.example", "other.example", "third.example:8448"})
		} else if r.Chance(0.5) {
			red = "$abc:" + serverOf(sender)
		}
		ac.ev, err = w.build("m.room.redaction", nil, sender, ref.O("reason", ref.S("spam")), nil, red)
	case "aliases":
		sk := serverOf(sender)
		if r.Chance(0.3) {
			sk = gen.Pick(r, []string{"origin.example", "other.example", "", "third.example:8448"})
		}
		ac.ev, err = w.build("m.room.aliases", strp(sk), sender, ref.O("aliases", ref.A(ref.S("#a:"+sk))), nil, "")
	case "create":
		cc := ref.O("creator", ref.S(sender), "room_version", ref.S(string(w.ver)))
		switch r.Intn(8) {
		case 0:
			cc.Del("creator")
		case 1:
			cc.Set("room_version", ref.S("no.such.version"))
		case 2:
			cc.Del("room_version")
		case 3:
			cc.Set("additional_creators", ref.A(ref.S(gen.Pick(r, []string{"@x:y.example", "not a user", "@:y"}))))
		case 4:
			cc.Set("creator", ref.NullV())
		case 5:
			// present, but null: neither a recognised version nor an array of user IDs
			cc.Set(gen.Pick(r, []string{"room_version", "additional_creators"}), ref.NullV())
		}
		sk := strp("")
		if r.Chance(0.1) && !w.t.Domainless {
			sk = strp("x")
		}
		room := "!newroom:" + serverOf(sender)
		if r.Chance(0.25) {
			room = "!newroom:" + gen.Pick(r, []string{"origin.example", "other.example"})
		}
		var prev []string
		if r.Chance(0.15) {
			prev = []string{fakeEventID(r, w.t)}
		}
		ps := protoSpec{Type: "m.room.create", StateKey: sk, Sender: sender, RoomID: room, Content: gen.Plain().Bytes(cc), Prev: prev, Depth: 1}
		if w.t.Domainless {
			ps.RoomID = ""
		}
		ac.state = nil
		ac.ev, err = buildEvent(w.ver, ps, serverIdentity(serverOf(sender)), baseTime)
	case "power-levels":
		var cur *ref.Value
		if plEv != nil {
			cur = ref.MustParse(plEv.Content())
		}
		ac.ev, err = w.build("m.room.power_levels", strp(""), sender, proposePL(r, w.t, cur, creators), nil, "")
	case "lookalike-keys":
		// content keys that differ from a key the rules read only by letter case (or a letter that case-folds to
		// ASCII) are unknown keys: the rules see the real key, or none
		variant := func(k string) string { return gen.Pick(r, gen.FoldVariants(k)) }
		replace := func(typ string, p gmsl.PDU) {
			out := ac.state[:0:0]
			for _, q := range ac.state {
				if !(q.Type() == typ && q.StateKeyEquals("")) {
					out = append(out, q)
				}
			}
			ac.state = append(out, p)
		}
		switch r.Intn(5) {
		case 4: // the verifying key of a third-party invite listed under names the rules do not read
			pub := base64.RawStdEncoding.EncodeToString(w.tpiKey.Public().(ed25519.PublicKey))
			tc := ref.O("display_name", ref.S("b...@example.org"), "key_validity_url", ref.S("https://id.example/valid"))
			switch r.Intn(3) {
			case 0:
				tc.Set(variant("public_keys"), ref.A(ref.O("public_key", ref.S(pub), "key_validity_url", ref.S("https://id.example/valid"))))
			case 1:
				tc.Set(variant("public_key"), ref.S(pub))
				tc.Set(variant("public_keys"), ref.A(ref.O("public_key", ref.S(pub))))
			default:
				tc.Set("public_keys", ref.A(ref.O(variant("public_key"), ref.S(pub), "key_validity_url", ref.S("https://id.example/valid"))))
			}
			if te, e := w.build("m.room.third_party_invite", strp("tok1"), sender, tc, nil, ""); e == nil {
				out := ac.state[:0:0]
				for _, q := range ac.state {
					if !(q.Type() == "m.room.third_party_invite" && q.StateKeyEquals("tok1")) {
						out = append(out, q)
					}
				}
				ac.state = append(out, te)
			}
			for target == sender {
				target = gen.Pick(r, authUsers)
			}
			ac.ev, err = w.build("m.room.member", strp(target), sender, ref.O("membership", ref.S("invite"), "third_party_invite", w.signedTPI(target, "tok1", true)), nil, "")
		case 0: // the membership of the event under test
			c := ref.O()
			if r.Chance(0.5) {
				c.Set("membership", ref.S(gen.Pick(r, []string{"leave", "invite", "ban"})))
			}
			c.Set(variant("membership"), ref.S("join"))
			if r.Chance(0.4) {
				// the other way round: a join, with something that looks like a leave (or names an authoriser) behind it -
				// a reader that went by the look-alike would ask for less state than the rules read (tenth seeding round,
				// C09-U: StateNeededForAuth decoded through a pointer to a pointer, which the exact decoder let through)
				c = ref.O("membership", ref.S("join"), variant("membership"), ref.S(gen.Pick(r, []string{"leave", "ban", "invite"})))
				if r.Chance(0.5) {
					c.Set(variant("join_authorised_via_users_server"), ref.S(gen.Pick(r, authUsers)))
				}
			}
			ac.ev, err = w.build("m.room.member", strp(sender), sender, c, nil, "")
		case 1: // thresholds / users of the room's power levels
			pc := randPLContent(r, w.t, creators)
			if plEv != nil {
				pc = ref.MustParse(plEv.Content())
			}
			for _, k := range []string{"state_default", "events_default", "ban", "kick", "invite", "redact"} {
				if r.Chance(0.5) {
					pc.Set(variant(k), ref.I(0))
				}
			}
			pc.Set(variant("users"), ref.O(sender, ref.I(100)))
			pc.Set(variant("users_default"), ref.I(100))
			if pl, e := w.build("m.room.power_levels", strp(""), authUsers[0], pc, nil, ""); e == nil {
				replace("m.room.power_levels", pl)
			}
			switch r.Intn(3) {
			case 0:
				ac.ev, err = w.build("m.room.topic", strp(""), sender, ref.O("topic", ref.S("t")), nil, "")
			case 1:
				for target == sender {
					target = gen.Pick(r, authUsers)
				}
				ac.ev, err = w.build("m.room.member", strp(target), sender, ref.O("membership", ref.S(gen.Pick(r, []string{"ban", "leave", "invite"}))), nil, "")
			default:
				ac.ev, err = w.build("m.room.message", nil, sender, ref.O("body", ref.S("hi")), nil, "")
			}
		case 2: // the room's join rule
			jc := ref.O(variant("join_rule"), ref.S("public"))
			if r.Chance(0.5) {
				jc.Set("join_rule", ref.S(gen.Pick(r, []string{"invite", "knock"})))
				// real key first, lookalike last
				jc = ref.O("join_rule", jc.Get("join_rule"), variant("join_rule"), ref.S("public"))
			}
			if jr, e := w.build("m.room.join_rules", strp(""), authUsers[0], jc, nil, ""); e == nil {
				replace("m.room.join_rules", jr)
			}
			ac.ev, err = w.build("m.room.member", strp(sender), sender, ref.O("membership", ref.S("join")), nil, "")
		default: // a power-levels event under test that smuggles levels in under lookalike keys
			var cur *ref.Value
			if plEv != nil {
				cur = ref.MustParse(plEv.Content())
			}
			pc := proposePL(r, w.t, cur, creators)
			pc.Set(variant("users"), ref.O(sender, ref.I(1000000)))
			pc.Set(variant(gen.Pick(r, []string{"ban", "kick", "events_default", "state_default", "users_default"})), ref.I(gen.Pick(r, []int64{-1, 0, 1000000})))
			ac.ev, err = w.build("m.room.power_levels", strp(""), sender, pc, nil, "")
		}
	}
	if err != nil {
		return nil, err
	}
	if r.Chance(0.15) && kind != "create" {
		// unrelated extra state must not matter
		if extra, e := w.build("m.room.topic", strp(""), authUsers[0], ref.O("topic", ref.S("x")), nil, ""); e == nil {
			ac.state = append(ac.state, extra)
		}
	}
	return ac, nil
}

// refState converts the provider contents (later events replace earlier ones).
func refState(state []gmsl.PDU) (ref.State, bool) {
	st := ref.State{}
	rooms := map[string]bool{}
	for _, p := range state {
		e := toRefEv(p)
		rooms[e.Room] = true
		st[[2]string{e.Type, *e.StateKey}] = e
	}
	return st, len(rooms) > 1
}

func knownVersion(v string) bool { return gmsl.KnownRoomVersion(gmsl.RoomVersion(v)) }

func judgeAuth(c *mon.Ctx, w *world, state []gmsl.PDU, ev gmsl.PDU, kind string) (ref.Outcome, string, error, bool) {
	st, multi := refState(state)
	want, rule := ref.Allowed(w.t, toRefEv(ev), st, multi, knownVersion)
	var got error
	site, msg, pan := mon.Guard(func() {
		prov, err := gmsl.NewAuthEvents(state)
		if err != nil {
			panic("harness: " + err.Error())
		}
		got = gmsl.Allowed(ev, prov, userIDForSender)
	})
	if pan {
		c.Failf("auth:panic:"+site, "Allowed panics (%s) for a %s event in v%s, reference says %s by %s: %s\n%s", msg, kind, w.ver, want, rule, site, ev.JSON())
		return want, rule, nil, false
	}
	return want, rule, got, true
}

func runC07(c *mon.Ctx) {
	versions := sortedVersions()
	r := c.Rand("cases")
	perWorld := c.Scale(48000, 1600000) / (len(versions) * len(worldVariants))
	if perWorld < 8 {
		perWorld = 8
	}
	nPL := 10
	if c.Thorough() {
		nPL = 40
	}
	other := map[gmsl.RoomVersion]*world{}
	for _, ver := range versions {
		if ref.Traits(string(ver)) == nil || ver == gmsl.RoomVersionPseudoIDs {
			continue
		}
		for _, variant := range worldVariants {
			w := newWorld(r, ver, variant, nPL)
			if other[ver] == nil {
				other[ver] = newWorld(r, ver, "plain", 1)
			}
			for k := 0; k < perWorld; k++ {
				ac, err := genAuthCase(r, w)
				if err != nil {
					c.Count("unbuildable_event")
					continue
				}
				// occasionally pollute the state with an event of another room
				if r.Chance(0.04) && ac.kind != "create" {
					ow := other[ver]
					ac.state = append(ac.state, ow.members[[2]string{authUsers[3], "join"}])
					ac.comment = "foreign-room auth event"
				}
				desc := map[string]any{"version": ver, "create_variant": variant, "kind": ac.kind, "event": string(ac.ev.JSON()), "state": describeState(ac.state), "comment": ac.comment}
				c.Case("auth:"+string(ver)+":"+ac.kind, desc, func() {
					want, rule, got, ok := judgeAuth(c, w, ac.state, ac.ev, ac.kind)
					if !ok {
						return
					}
					c.Count("evaluations")
					if want == ref.NoOpinion {
						c.Count("abstained")
						return
					}
					c.Count("rule|" + rule)
					if !strings.HasSuffix(rule, "room-differs-from-create") && !strings.HasSuffix(rule, "federation-denied") && !strings.HasSuffix(rule, "sender-not-joined") && !strings.HasPrefix(rule, "0:") {
						ids := []string{}
						for _, s := range ac.state {
							ids = append(ids, s.EventID())
						}
						sort.Strings(ids)
						jv := ref.MustParse(ac.ev.JSON())
						jv.Del("signatures")
						jv.Del("hashes")
						jv.Del("event_id")
						c.Nontrivial(string(ver) + "|" + strings.Join(ids, ",") + "|" + string(ref.Canon(jv)))
					}
					if want == ref.Allow {
						c.Count("reference_allows")
					} else {
						c.Count("reference_rejects")
					}
					if (got == nil) != (want == ref.Allow) {
						dir := "library-rejects"
						if got == nil {
							dir = "library-accepts"
						}
						sig := "auth:" + dir + ":" + rule
						if ac.kind == "lookalike-keys" {
							sig = "auth:lookalike-content-key:" + dir
						}
						c.Failf(sig, "v%s %s event: reference %s by rule %s, library: %v\nevent: %s\nstate: %v", w.ver, ac.kind, want, rule, got, ac.ev.JSON(), describeState(ac.state))
					}
					// fault injection: the same question put to a provider one of whose lookups fails (a database that is
					// down at that moment). A verdict that rests on a lookup that was refused an answer cannot be "allowed".
					if got == nil && r.Chance(0.15) {
						needed := gmsl.StateNeededForAuth([]gmsl.PDU{ac.ev})
						for _, m := range faultyProviderMethods {
							// (only lookups of state the event needs: what a checker makes of a failed lookup it had no need
							// to make is its own business)
							if (m == "Create" && !needed.Create) || (m == "PowerLevels" && !needed.PowerLevels) || (m == "JoinRules" && !needed.JoinRules) ||
								(m == "Member" && len(needed.Member) == 0) || (m == "ThirdPartyInvite" && len(needed.ThirdPartyInvite) == 0) {
								continue
							}
							inner, err := gmsl.NewAuthEvents(ac.state)
							if err != nil {
								break
							}
							fp := &faultyProvider{AuthEvents: inner, fail: m}
							var fgot error
							if site, msg, pan := mon.Guard(func() { fgot = gmsl.Allowed(ac.ev, fp, userIDForSender) }); pan {
								c.Failf("auth:panic:provider-fault:"+site, "Allowed panics when the provider's %s lookup fails: %s", m, msg)
								continue
							}
							c.Count("evaluations_with_a_failing_provider_lookup")
							if fp.hits > 0 {
								c.Count("provider_faults_hit")
								if fgot == nil {
									c.Failf("auth:allows-although-a-provider-lookup-failed:"+m, "v%s %s event: Allowed returns nil although the auth-event provider answered its %s lookup with an error (%d times)\nevent: %s", w.ver, ac.kind, m, fp.hits, ac.ev.JSON())
								}
							}
						}
					}
					if c.WantSample() && want == ref.Allow && ac.kind != "message" {
						c.Sample(map[string]any{"version": ver, "kind": ac.kind, "decided_by": rule, "verdict": want.String(), "event": string(ac.ev.JSON()), "state": describeState(ac.state)})
					}
				})
			}
		}
	}
	c07CreateWithRoomID(c)
	c07DirectedPowerLevelPairs(c)
	c.Floor("reference_allows", 100)
	c.Floor("reference_rejects", 100)
	for _, rule := range []string{"3:join-public", "3:restricted-join-authorised", "3:ban-allowed", "3:kick-allowed", "3:invite-allowed", "3:knock-allowed", "3:creator-first-join", "3:tpi-signature-valid",
		"4:pl-allowed", "4:other-event-allowed", "1:create-allowed", "2:alias-allowed", "4:sender-level-below-required", "4:at-state-key-of-another-user", "0:auth-events-from-several-rooms"} {
		c.Floor("rule|"+rule, 1)
	}
}

func describeState(state []gmsl.PDU) []string {
	out := []string{}
	for _, p := range state {
		sk := "<nil>"
		if p.StateKey() != nil {
			sk = *p.StateKey()
		}
		out = append(out, fmt.Sprintf("%s[%s] by %s: %s", p.Type(), sk, p.SenderID(), p.Content()))
	}
	return out
}

// c07CreateWithRoomID: in room versions whose room ID is derived from the create event, the create-event rule reads "if
// the event has a room_id, reject" - has, not "has a non-empty". The member is added to the JSON of a buildable create
// event (the builder itself refuses a room ID there) and the event is parsed as trusted and as untrusted input.
func c07CreateWithRoomID(c *mon.Ctx) {
	if c.Shard != 0 {
		return
	}
	for _, ver := range sortedVersions() {
		t := ref.Traits(string(ver))
		if t == nil || !t.Domainless {
			continue
		}
		impl := gmsl.MustGetRoomVersion(ver)
		sender := authUsers[0]
		ps := protoSpec{Type: "m.room.create", StateKey: strp(""), Sender: sender, Content: []byte(`{"room_version":"` + string(ver) + `"}`), Depth: 1}
		base, err := buildEvent(ver, ps, serverIdentity(serverOf(sender)), baseTime)
		if err != nil {
			continue
		}
		prov, _ := gmsl.NewAuthEvents(nil)
		if err := gmsl.Allowed(base, prov, userIDForSender); err != nil {
			c.Case("create-with-room-id:control:"+string(ver), map[string]any{"version": ver}, func() {
				c.Failf("auth:library-rejects:1:create-allowed", "the control create event (no room_id) is refused: %v", err)
			})
			continue
		}
		for name, val := range map[string]*ref.Value{"empty-string": ref.S(""), "null": ref.NullV(), "another-room": ref.S("!other:origin.example"), "number": ref.I(0)} {
			jv := ref.MustParse(base.JSON())
			jv.Set("room_id", val)
			text := gen.Plain().Bytes(rehashAndSign(jv, t))
			c.Case("create-with-room-id:"+string(ver)+":"+name, map[string]any{"version": ver, "event": string(text)}, func() {
				c.Nontrivial("create-room-id|" + string(ver) + "|" + name)
				for pname, parse := range map[string]func([]byte) (gmsl.PDU, error){"trusted": func(b []byte) (gmsl.PDU, error) { return impl.NewEventFromTrustedJSON(b, false) }, "untrusted": impl.NewEventFromUntrustedJSON} {
					var p gmsl.PDU
					var perr error
					if _, _, pan := mon.Guard(func() { p, perr = parse(text) }); pan || perr != nil || p == nil {
						c.Count("create_with_room_id_refused_at_parse")
						continue
					}
					c.Count("create_with_room_id_judged")
					var aerr error
					site, msg, pan := mon.Guard(func() { aerr = gmsl.Allowed(p, prov, userIDForSender) })
					if pan {
						c.Failf("auth:panic:"+site, "Allowed panics on a create event carrying room_id (%s, %s parser): %s", name, pname, msg)
					} else if aerr == nil {
						c.Failf("auth:library-accepts:1:create-event-has-a-room-id", "v%s: a create event carrying \"room_id\": %s is authorised (%s parser); the rule refuses a create event that has a room_id", ver, gen.Plain().Bytes(val), pname)
					}
				}
			})
		}
	}
}

// faultyProvider is an auth-event provider over a real AuthEvents one lookup method of which answers with an error.
type faultyProvider struct {
	*gmsl.AuthEvents
	fail string
	hits int
}

var faultyProviderMethods = []string{"Create", "PowerLevels", "JoinRules", "Member", "ThirdPartyInvite"}

func (f *faultyProvider) fault(m string) error {
	if f.fail == m {
		f.hits++
		return errors.New("scripted fault: " + m)
	}
	return nil
}
func (f *faultyProvider) Create() (gmsl.PDU, error) {
	if err := f.fault("Create"); err != nil {
		return nil, err
	}
	return f.AuthEvents.Create()
}
func (f *faultyProvider) PowerLevels() (gmsl.PDU, error) {
	if err := f.fault("PowerLevels"); err != nil {
		return nil, err
	}
	return f.AuthEvents.PowerLevels()
}
func (f *faultyProvider) JoinRules() (gmsl.PDU, error) {
	if err := f.fault("JoinRules"); err != nil {
		return nil, err
	}
	return f.AuthEvents.JoinRules()
}
func (f *faultyProvider) Member(sk spec.SenderID) (gmsl.PDU, error) {
	if err := f.fault("Member"); err != nil {
		return nil, err
	}
	return f.AuthEvents.Member(sk)
}
func (f *faultyProvider) ThirdPartyInvite(sk string) (gmsl.PDU, error) {
	if err := f.fault("ThirdPartyInvite"); err != nil {
		return nil, err
	}
	return f.AuthEvents.ThirdPartyInvite(sk)
}

// c07DirectedPowerLevelPairs: (current, proposed) power-level contents in which the sender's level lies strictly
// between two values that a comparison could confuse - in particular BELOW 50, the default of notifications.room and of
// ban / kick / redact / state_default, which has no business in the judgement of a key that has no default (tenth
// seeding round, C07-T: a notification key other than "room" that is removed was compared with an invented 50 again,
// so a level-40 user could not remove "foo": 10). The random proposals rarely put the sender there.
func c07DirectedPowerLevelPairs(c *mon.Ctx) {
	r := c.Rand("directed-pl-pairs")
	n := 0
	for _, ver := range sortedVersions() {
		t := ref.Traits(string(ver))
		if t == nil || ver == gmsl.RoomVersionPseudoIDs {
			continue
		}
		w := newWorld(r, ver, "plain", 1)
		creator, mod, other := authUsers[0], authUsers[1], authUsers[2]
		base := func() *ref.Value {
			u := ref.O(mod, ref.I(40), other, ref.I(10))
			if !t.PrivCreators {
				u.Set(creator, ref.I(100))
			}
			return ref.O("users", u, "users_default", ref.I(0), "events", ref.O("m.room.power_levels", ref.I(30)), "notifications", ref.O("room", ref.I(50), "foo", ref.I(10), "bar", ref.I(45)))
		}
		type pair struct {
			name string
			edit func(p *ref.Value)
		}
		pairs := []pair{
			{"notification-entry-below-sender-removed", func(p *ref.Value) { p.Get("notifications").Del("foo") }},
			{"notification-entry-above-sender-removed", func(p *ref.Value) { p.Get("notifications").Del("bar") }},
			{"notification-entry-added-below-sender", func(p *ref.Value) { p.Get("notifications").Set("baz", ref.I(20)) }},
			{"notification-entry-added-above-sender", func(p *ref.Value) { p.Get("notifications").Set("baz", ref.I(45)) }},
			{"notification-entry-lowered", func(p *ref.Value) { p.Get("notifications").Set("foo", ref.I(5)) }},
			{"notification-room-removed", func(p *ref.Value) { p.Get("notifications").Del("room") }},
			{"events-entry-added-below-sender", func(p *ref.Value) { p.Get("events").Set("m.room.topic", ref.I(35)) }},
			{"events-entry-added-at-state-default", func(p *ref.Value) { p.Get("events").Set("m.room.topic", ref.I(50)) }},
			{"user-below-sender-removed", func(p *ref.Value) { p.Get("users").Del(other) }},
			{"user-added-below-sender", func(p *ref.Value) { p.Get("users").Set(authUsers[3], ref.I(20)) }},
			{"threshold-invite-raised-to-sender", func(p *ref.Value) { p.Set("invite", ref.I(40)) }},
			{"threshold-ban-lowered", func(p *ref.Value) { p.Set("ban", ref.I(40)) }},
		}
		for _, pr := range pairs {
			n++
			if !c.Mine(n) {
				continue
			}
			cur := base()
			proposed := base()
			pr.edit(proposed)
			curEv := w.mustBuild("m.room.power_levels", strp(""), creator, cur)
			ev, err := w.build("m.room.power_levels", strp(""), mod, proposed, nil, "")
			if err != nil {
				c.Count("unbuildable_event")
				continue
			}
			state := []gmsl.PDU{w.create, curEv, w.members[[2]string{creator, "join"}], w.members[[2]string{mod, "join"}], w.members[[2]string{other, "join"}]}
			name := fmt.Sprintf("auth:%s:power-levels-pair:%s", ver, pr.name)
			c.Case(name, map[string]any{"version": ver, "sender": mod, "current": gen.Describe(cur), "proposed": gen.Describe(proposed)}, func() {
				c.Nontrivial(name)
				want, rule, got, ok := judgeAuth(c, w, state, ev, "power-levels-pair")
				if !ok {
					return
				}
				c.Count("directed_power_level_pairs")
				if want == ref.NoOpinion {
					c.Count("abstained")
					return
				}
				if (got == nil) != (want == ref.Allow) {
					dir := "library-rejects"
					if got == nil {
						dir = "library-accepts"
					}
					c.Failf("auth:"+dir+":"+rule+":"+pr.name, "v%s power-levels event by a level-40 user (%s): reference %s by rule %s, library: %v\ncurrent:  %s\nproposed: %s", w.ver, pr.name, want, rule, got, gen.Describe(cur), gen.Describe(proposed))
				}
			})
		}
	}
}
