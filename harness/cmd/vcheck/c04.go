package main

import (
	"strings"
	"crypto/sha256"
	"bytes"
	"encoding/base64"
	"encoding/json"
	"fmt"

	gmsl "github.com/matrix-org/gomatrixserverlib"

	"verif/gen"
	"verif/mon"
	"verif/ref"
)

func init() {
	register(&propDef{
		ID:    "C04",
		Level: "exploration",
		Rule: "a case is (built event, room version, tampering): 16 tamperings of the event JSON - redactable content key changed/added, extra top-level key, redacts/origin changed, protected key changed, hash replaced/removed/mistyped, keys stripped on receipt added or changed (unsigned, age_ts, outlier, destinations, event_id), none - each parsed with NewEventFromUntrustedJSON and compared with the reference classification (reference content hash) and the reference redaction; " +
			"distinct = distinct (version, tampered bytes); non-trivial = the tampered event has content keys outside the keep-list",
		Assumptions: []string{"reference content hash, redaction and event ID in harness/ref", "integer-only contents"},
		Run:         runC04,
	})
}

var strippedOnReceipt = []string{"outlier", "destinations", "age_ts", "unsigned"}

type tampering struct {
	name string
	// apply edits the event value in place; returns false when not applicable
	apply func(r *gen.Rand, t *ref.VersionTraits, ev *ref.Value) bool
	// redactableOnly: only material outside the redacted form was altered, so
	// ID and signature validity must be those of the original
	redactableOnly bool
	// rehash: the sender (or a relay) recomputed the content hash after the edit, so the hash matches
	rehash bool
}

// lookalikeTop adds a top-level key that differs from a protected key only by case / a case-folding letter, with a
// value of the protected key's kind. It is an unknown key to every reader of the event.
func lookalikeTop(r *gen.Rand, ev *ref.Value, keys []string) bool {
	k := gen.Pick(r, keys)
	vs := gen.FoldVariants(k)
	if len(vs) == 0 {
		return false
	}
	v := gen.Pick(r, vs)
	var val *ref.Value
	switch k {
	case "type":
		val = ref.S("m.room.power_levels")
	case "state_key":
		val = ref.S("")
	case "sender":
		val = ref.S("@mallory:evil.example")
	case "room_id":
		val = ref.S("!other:evil.example")
	case "event_id":
		val = ref.S("$spoofed")
	case "content":
		val = ref.O("users", ref.O("@mallory:evil.example", ref.I(100)), "membership", ref.S("ban"))
	case "depth", "origin_server_ts":
		val = ref.I(1)
	case "redacts":
		val = ref.S("$victim")
	case "hashes":
		val = ref.O("sha256", ref.S("AAAAAAAAAAAAAAAAAAAAAAAAAAAAAAAAAAAAAAAAAAA"))
	default:
		val = ref.S("x")
	}
	if r.Chance(0.4) {
		// an unknown key can hold anything: a value of another JSON type than the key it resembles
		val = gen.Pick(r, []*ref.Value{ref.I(1), ref.S("x"), ref.A(), ref.B(true), ref.NullV(), ref.O("a", ref.A())})
	}
	ev.Set(v, val)
	return true
}

var lookalikeKeys = []string{"type", "state_key", "sender", "room_id", "event_id", "content", "depth", "origin_server_ts", "redacts", "hashes", "membership", "prev_state", "origin"}

// setContentHash stores the reference content hash of the event as received.
func setContentHash(ev *ref.Value, t *ref.VersionTraits) {
	recv := ev.Clone()
	for _, k := range strippedOnReceipt {
		recv.Del(k)
	}
	if t.EventFormat == 2 {
		recv.Del("event_id")
	}
	h := ref.ContentHash(recv)
	ev.Set("hashes", ref.O("sha256", ref.S(base64.RawStdEncoding.EncodeToString(h[:]))))
}

func redactableContentKey(t *ref.VersionTraits, ev *ref.Value) string {
	typ, _ := ev.Get("type").Str()
	keep, all := ref.ContentKeep(t.Redaction, typ)
	if all {
		return ""
	}
	kept := map[string]bool{}
	for _, k := range keep {
		kept[k] = true
	}
	for _, m := range ev.Get("content").O {
		if !kept[m.Key] {
			return m.Key
		}
	}
	return ""
}

var tamperings = []tampering{
	{name: "none", apply: func(r *gen.Rand, t *ref.VersionTraits, ev *ref.Value) bool { return true }, redactableOnly: true},
	{name: "top-level-lookalike-key", apply: func(r *gen.Rand, t *ref.VersionTraits, ev *ref.Value) bool { return lookalikeTop(r, ev, lookalikeKeys) }, redactableOnly: true},
	{name: "rehashed-lookalike-key", apply: func(r *gen.Rand, t *ref.VersionTraits, ev *ref.Value) bool { return lookalikeTop(r, ev, lookalikeKeys) }, rehash: true},
	{name: "rehashed-lookalike-keys-last", apply: func(r *gen.Rand, t *ref.VersionTraits, ev *ref.Value) bool {
		ok := false
		for _, k := range []string{"type", "content", "state_key", "sender"} {
			ok = lookalikeTop(r, ev, []string{k}) || ok
		}
		return ok
	}, rehash: true},
	{name: "top-level-optional-key-of-another-type", apply: func(r *gen.Rand, t *ref.VersionTraits, ev *ref.Value) bool {
		// keys the event format knows but no redaction algorithm keeps at the top level (redacts before v11 is
		// kept by none either): as redactable as any unknown key, whatever their value
		k := gen.Pick(r, []string{"sticky", "msc4354_sticky", "redacts"})
		if k == "redacts" && ev.Get("redacts") != nil {
			return false
		}
		ev.Set(k, gen.Pick(r, []*ref.Value{ref.B(true), ref.A(), ref.I(5), ref.O("duration_ms", ref.S("5000")), ref.O(), ref.NullV()}))
		return true
	}, redactableOnly: true},
	{name: "rehashed-content-changed", apply: func(r *gen.Rand, t *ref.VersionTraits, ev *ref.Value) bool {
		ev.Get("content").Set("injected_by_sender", ref.S("x"))
		return true
	}, rehash: true},
	{name: "content-redactable-changed", apply: func(r *gen.Rand, t *ref.VersionTraits, ev *ref.Value) bool {
		k := redactableContentKey(t, ev)
		if k == "" {
			return false
		}
		ev.Get("content").Set(k, ref.S("tampered"))
		return true
	}, redactableOnly: true},
	{name: "content-redactable-added", apply: func(r *gen.Rand, t *ref.VersionTraits, ev *ref.Value) bool {
		typ, _ := ev.Get("type").Str()
		if _, all := ref.ContentKeep(t.Redaction, typ); all {
			return false
		}
		ev.Get("content").Set("injected_by_attacker", ref.O("body", ref.S("spam")))
		return true
	}, redactableOnly: true},
	{name: "content-redactable-removed", apply: func(r *gen.Rand, t *ref.VersionTraits, ev *ref.Value) bool {
		k := redactableContentKey(t, ev)
		if k == "" {
			return false
		}
		ev.Get("content").Del(k)
		return true
	}, redactableOnly: true},
	{name: "top-level-extra-key", apply: func(r *gen.Rand, t *ref.VersionTraits, ev *ref.Value) bool {
		ev.Set("injected_top_level", ref.A(ref.I(1), ref.S("x")))
		return true
	}, redactableOnly: true},
	{name: "top-level-redacts-changed", apply: func(r *gen.Rand, t *ref.VersionTraits, ev *ref.Value) bool {
		ev.Set("redacts", ref.S("$other:evil.example"))
		return true
	}, redactableOnly: true},
	{name: "top-level-origin-changed", apply: func(r *gen.Rand, t *ref.VersionTraits, ev *ref.Value) bool {
		if t.Redaction < 5 {
			return false // origin is protected before v11
		}
		ev.Set("origin", ref.S("evil.example"))
		return true
	}, redactableOnly: true},
	{name: "protected-depth-changed", apply: func(r *gen.Rand, t *ref.VersionTraits, ev *ref.Value) bool {
		d, _ := ev.Get("depth").Int()
		ev.Set("depth", ref.I(d^3))
		return true
	}, redactableOnly: false},
	{name: "protected-content-changed", apply: func(r *gen.Rand, t *ref.VersionTraits, ev *ref.Value) bool {
		typ, _ := ev.Get("type").Str()
		keep, _ := ref.ContentKeep(t.Redaction, typ)
		for _, k := range keep {
			if ev.Get("content").Get(k) != nil {
				ev.Get("content").Set(k, ref.S("tampered-protected"))
				return true
			}
		}
		return false
	}, redactableOnly: false},
	{name: "hash-replaced", apply: func(r *gen.Rand, t *ref.VersionTraits, ev *ref.Value) bool {
		ev.Set("hashes", ref.O("sha256", ref.S(base64.RawStdEncoding.EncodeToString(r.Bytes(32)))))
		return true
	}, redactableOnly: false},
	{name: "hash-removed", apply: func(r *gen.Rand, t *ref.VersionTraits, ev *ref.Value) bool { ev.Del("hashes"); return true }},
	{name: "hash-sha256-missing", apply: func(r *gen.Rand, t *ref.VersionTraits, ev *ref.Value) bool {
		ev.Set("hashes", ref.O("md5", ref.S("abcd")))
		return true
	}, redactableOnly: false},
	{name: "hash-truncated", apply: func(r *gen.Rand, t *ref.VersionTraits, ev *ref.Value) bool {
		s, _ := ev.Get("hashes").Get("sha256").Str()
		ev.Set("hashes", ref.O("sha256", ref.S(s[:len(s)-2])))
		return true
	}, redactableOnly: false},
	{name: "stripped-unsigned-changed", apply: func(r *gen.Rand, t *ref.VersionTraits, ev *ref.Value) bool {
		ev.Set("unsigned", ref.O("age", ref.I(99999), "redacted_because", ref.O("x", ref.I(1))))
		return true
	}, redactableOnly: true},
	{name: "stripped-keys-added", apply: func(r *gen.Rand, t *ref.VersionTraits, ev *ref.Value) bool {
		ev.Set("age_ts", ref.I(1234))
		ev.Set("outlier", ref.B(true))
		ev.Set("destinations", ref.A(ref.S("x.example")))
		return true
	}, redactableOnly: true},
	{name: "stripped-event-id-added", apply: func(r *gen.Rand, t *ref.VersionTraits, ev *ref.Value) bool {
		if t.EventFormat == 1 {
			return false
		}
		ev.Set("event_id", ref.S("$forged"))
		return true
	}, redactableOnly: true},
	// two at once: something that makes the hash fail, and members that are dropped on receipt (what the redacted
	// form is made from is the event without them)
	{name: "top-level-extra-key+event-id-added", apply: func(r *gen.Rand, t *ref.VersionTraits, ev *ref.Value) bool {
		if t.EventFormat == 1 {
			return false
		}
		ev.Set("injected_top_level", ref.A(ref.I(1), ref.S("x")))
		ev.Set("event_id", ref.S("$forged"))
		return true
	}, redactableOnly: true},
	{name: "top-level-extra-key+stripped-keys-added", apply: func(r *gen.Rand, t *ref.VersionTraits, ev *ref.Value) bool {
		ev.Set("injected_top_level", ref.A(ref.I(1), ref.S("x")))
		ev.Set("unsigned", ref.O("age", ref.I(99999), "redacted_because", ref.O("x", ref.I(1))))
		ev.Set("age_ts", ref.I(1234))
		ev.Set("outlier", ref.B(true))
		ev.Set("destinations", ref.A(ref.S("x.example")))
		return true
	}, redactableOnly: true},
	{name: "protected-depth-changed+event-id-added", apply: func(r *gen.Rand, t *ref.VersionTraits, ev *ref.Value) bool {
		if t.EventFormat == 1 {
			return false
		}
		d, _ := ev.Get("depth").Int()
		ev.Set("depth", ref.I(d^3))
		ev.Set("event_id", ref.S("$forged"))
		return true
	}, redactableOnly: false},
}

// accessorsVsJSON names the first field whose accessor disagrees with the event's own JSON (exact key names).
func accessorsVsJSON(p gmsl.PDU, j *ref.Value, t *ref.VersionTraits) string {
	str := func(k string) string { s, _ := j.Get(k).Str(); return s }
	if p.Type() != str("type") {
		return "type"
	}
	if string(p.SenderID()) != str("sender") {
		return "sender"
	}
	if sk := p.StateKey(); (sk == nil) != (j.Get("state_key") == nil) || (sk != nil && *sk != str("state_key")) {
		return "state_key"
	}
	if j.Get("room_id") != nil {
		room := ""
		if _, _, pan := mon.Guard(func() { room = p.RoomID().String() }); pan || room != str("room_id") {
			return "room_id"
		}
	}
	if cv, _, err := ref.Parse(p.Content()); err != nil || !ref.Equal(cv, j.Get("content")) {
		return "content"
	}
	if d, ok := j.Get("depth").Int(); ok && p.Depth() != d {
		return "depth"
	}
	if ts, ok := j.Get("origin_server_ts").Int(); ok && int64(p.OriginServerTS()) != ts {
		return "origin_server_ts"
	}
	if p.Redacts() != str("redacts") && j.Get("redacts") != nil && j.Get("redacts").K == ref.Str {
		return "redacts"
	}
	if t.EventFormat == 1 && p.EventID() != str("event_id") {
		return "event_id"
	}
	return ""
}

func runC04(c *mon.Ctx) {
	r := c.Rand("protos")
	id := gen.NewIdentity(c.RandShared("id"), "a.example", "ed25519:k1")
	versions := sortedVersions()
	n := c.Scale(48, 8000)
	for k := 0; k < n; k++ {
		for _, ver := range versions {
			t := ref.Traits(string(ver))
			if t == nil {
				continue
			}
			impl := gmsl.MustGetRoomVersion(ver)
			ps := genProto(r, t)
			if k < len(gen.ProtectedTypes) && !(t.Domainless && ps.Type == "m.room.create") {
				// directed: every protected type, with every content key that any version's algorithm keeps for it
				// present (over the shards every (version, type) cell is visited)
				typ := gen.ProtectedTypes[(k+c.Shard)%len(gen.ProtectedTypes)]
				if !(t.Domainless && typ == "m.room.create") {
					ps.Type = typ
					ps.StateKey = strp(gen.Pick(r, []string{"", "@bob:b.example"}))
					ps.Content = gen.Plain().Bytes(gen.FullContentFor(r, typ, gen.SafeNumbers))
					if typ == "m.room.redaction" {
						ps.Redacts = fakeEventID(r, t)
					}
				}
			}
			ev, err := buildEvent(ver, ps, id, baseTime)
			if err != nil && t.EnforceCanon && ps.Depth > 9007199254740991 {
				continue // versions 6+ cannot carry such a depth (C03 asserts that)
			}
			if err != nil {
				c.Case("build", map[string]any{"version": ver, "proto": ps}, func() {
					c.Failf("build:refuses-valid-proto", "Build(v%s): %v", ver, err)
				})
				continue
			}
			orig := ref.MustParse(ev.JSON())
			origID := ev.EventID()
			tr := r.Fork("tamper")
			for _, tm := range tamperings {
				tv := orig.Clone()
				if !tm.apply(tr, t, tv) {
					continue
				}
				if tm.rehash {
					setContentHash(tv, t)
				}
				text := gen.Plain().Bytes(tv)
				if tr.Chance(0.3) {
					text = gen.ScrambleStrict(tr).Bytes(tv)
				}
				c.Case("tamper:"+tm.name+":"+string(ver), map[string]any{"version": ver, "tampering": tm.name, "event": string(text)}, func() {
					// what the receiver is meant to look at: the event without the keys stripped on receipt
					recv := tv.Clone()
					for _, k := range strippedOnReceipt {
						recv.Del(k)
					}
					if t.EventFormat == 2 {
						recv.Del("event_id")
					}
					want := ref.ContentHash(recv)
					hs, _ := recv.Get("hashes").Get("sha256").Str()
					hb, herr := base64.RawStdEncoding.DecodeString(hs)
					matches := herr == nil && bytes.Equal(hb, want[:])
					if (tm.name == "none" || tm.name[:8] == "stripped" || tm.rehash) != matches {
						panic(fmt.Sprintf("harness bug: tampering %s: reference hash match = %v", tm.name, matches))
					}
					gin, intact := mon.Guarded(text)
					p, err := impl.NewEventFromUntrustedJSON(gin)
					if d := intact(); d != "" {
						c.Failf("untrusted:callers-buffer-written", "NewEventFromUntrustedJSON(v%s): %s", ver, d)
					}
					if err == nil && p != nil {
						c.Retain("untrusted", "JSON() of a parsed event", p.JSON())
					}
					if err != nil {
						c.Failf("untrusted:error:"+tm.name, "NewEventFromUntrustedJSON(v%s) after %s: %v\n%s", ver, tm.name, err, text)
						return
					}
					got, _, perr := ref.Parse(p.JSON())
					if perr != nil {
						c.Failf("untrusted:json-invalid", "JSON() invalid: %v", perr)
						return
					}
					// whatever the outcome, the accessors must report what the event's JSON says under the exact key names
					if d := accessorsVsJSON(p, got, t); d != "" {
						c.Failf("untrusted:accessor-disagrees-with-json:"+d, "after %s (v%s) the accessor for %s reports something else than JSON() holds under that key\n in  %s\n out %s", tm.name, ver, d, text, p.JSON())
						return
					}
					if keyOutside := redactableContentKey(t, tv); keyOutside != "" {
						c.NontrivialBytes(append([]byte(string(ver)+"|"), text...))
					}
					if matches {
						c.Count("hash_matching_cases")
						if p.Redacted() {
							c.Failf("hashok:flagged-redacted:"+tm.name, "event with a matching content hash is flagged redacted (v%s, %s)\n%s", ver, tm.name, text)
							return
						}
						if !ref.Equal(got, recv) {
							c.Failf("hashok:fields-altered:"+tm.name, "event with a matching hash does not come back intact (v%s, %s)\n in  %s\n out %s", ver, tm.name, ref.Canon(recv), ref.Canon(got))
							return
						}
						if tm.rehash {
							// a different, self-consistent event: its ID is the reference hash of its own redacted form
							c.Count("rehashed_cases")
							if t.EventIDFormat >= 2 {
								if want := ref.EventID(t, recv); p.EventID() != want {
									c.Failf("hashok:id-not-reference-hash:"+tm.name, "EventID() = %s, the reference hash of the event is %s (v%s, %s)\n%s", p.EventID(), want, ver, tm.name, text)
								}
							}
							return
						}
						if cv, _, e := ref.Parse(p.Content()); e != nil || !ref.Equal(cv, orig.Get("content")) {
							c.Failf("hashok:content-altered:"+tm.name, "Content() differs from the original content (v%s)", ver)
						}
						if p.EventID() != origID {
							c.Failf("hashok:id-changed:"+tm.name, "event ID %s != original %s (v%s, %s)", p.EventID(), origID, ver, tm.name)
						}
						if !refEventSigValid(got, t, id.Server, id.KeyID, id.Pub) {
							c.Failf("hashok:signature-invalid:"+tm.name, "signature no longer valid on the parsed event (v%s, %s)", ver, tm.name)
						}
						return
					}
					c.Count("hash_failing_cases")
					if !p.Redacted() {
						c.Failf("hashfail:not-flagged-redacted:"+tm.name, "event whose content hash fails is not flagged redacted (v%s, %s)\n%s", ver, tm.name, text)
					}
					wantRed := ref.Redact(t.Redaction, recv)
					if !ref.Equal(got, wantRed) {
						c.Failf("hashfail:json-not-redacted-form:"+tm.name, "JSON() of a hash-failing event is not its redacted form (v%s, %s)\n got  %s\n want %s", ver, tm.name, ref.Canon(got), ref.Canon(wantRed))
						return
					}
					cv, _, e := ref.Parse(p.Content())
					if e != nil || !ref.Equal(cv, wantRed.Get("content")) {
						c.Failf("hashfail:content-accessor-leaks:"+tm.name, "Content() = %s exposes more than the redacted content %s (v%s, %s)", p.Content(), ref.Canon(wantRed.Get("content")), ver, tm.name)
					}
					if u := p.Unsigned(); len(u) != 0 && string(u) != "null" {
						c.Failf("hashfail:unsigned-accessor-leaks:"+tm.name, "Unsigned() = %s on a hash-failing event (v%s)", u, ver)
					}
					if wantRed.Get("redacts") == nil && p.Redacts() != "" {
						c.Failf("hashfail:redacts-accessor-leaks:"+tm.name, "Redacts() = %q on a hash-failing event (v%s)", p.Redacts(), ver)
					}
					if hj, err := p.ToHeaderedJSON(); err == nil {
						hv, _, e := ref.Parse(hj)
						if e == nil {
							hv.Del("_room_version")
							hv.Del("_event_id")
							if !ref.Equal(hv, wantRed) {
								c.Failf("hashfail:headered-json-leaks:"+tm.name, "ToHeaderedJSON exposes more than the redacted form (v%s)", ver)
							}
						}
					}
					if tm.redactableOnly {
						c.Count("redactable_only_cases")
						if t.EventIDFormat >= 2 || tm.name != "stripped-event-id-added" {
							if p.EventID() != origID {
								c.Failf("hashfail:id-changed:"+tm.name, "only redactable material was altered but the event ID %s != original %s (v%s)", p.EventID(), origID, ver)
							}
						}
						if !refEventSigValid(got, t, id.Server, id.KeyID, id.Pub) {
							c.Failf("hashfail:signature-invalid:"+tm.name, "only redactable material was altered but the origin signature is no longer valid (v%s)", ver)
						}
						red, err := impl.RedactEventJSON(p.JSON())
						if err == nil {
							if err := gmsl.VerifyJSON(id.Server, gmsl.KeyID(id.KeyID), id.Pub, red); err != nil {
								c.Failf("hashfail:signature-invalid:"+tm.name, "VerifyJSON on the parsed event fails (v%s): %v", ver, err)
							}
						}
					}
					if c.WantSample() && len(text) < 800 {
						b, _ := json.Marshal(string(p.JSON()))
						c.Sample(map[string]any{"version": ver, "tampering": tm.name, "input": string(text), "parsed_json": json.RawMessage(b)})
					}
				})
			}
		}
	}
	c04DuplicateMembers(c)
	c04RequiredMembers(c)
	c04NotJSON(c)
	c04UnpairedSurrogates(c)
	c04OverTheByteLimit(c)
	c.Floor("hash_failing_cases", 200)
	c.Floor("hash_matching_cases", 100)
	c.Floor("redactable_only_cases", 100)
}

// c04DuplicateMembers: a relay rewrites the content of somebody else's event and smuggles the original "hashes" (or
// "unsigned") past the hash check as a second member of the same name, counting on different parts of the parser
// reading different copies. Whatever the parser makes of such a text (refuse it, or keep the redacted form), the altered
// content must not surface under the original event's ID with the origin's signature intact.
// c04RequiredMembers: an event whose "type" or "content" is null or missing, correctly hashed and signed by its sender.
// The parser may refuse it (an event has a string type and an object content). If it returns an event, every field is
// intact: what the event says and what its redacted form - the thing the event ID and the signatures are taken over -
// says about type and content is what was received, not a value made up in its place.
func c04RequiredMembers(c *mon.Ctx) {
	r := c.Rand("required-members")
	n := c.Scale(3, 200)
	for _, ver := range sortedVersions() {
		t := ref.Traits(string(ver))
		if t == nil || ver == gmsl.RoomVersionPseudoIDs {
			continue
		}
		impl := gmsl.MustGetRoomVersion(ver)
		for k := 0; k < n; k++ {
			ps := genProto(r, t)
			ps.Sender, ps.RoomID = "@alice:origin.example", "!room:origin.example"
			if t.Domainless {
				ps.RoomID = "!aGVsbG9oZWxsb2hlbGxvaGVsbG9oZWxsb2hlbGxvaGV"
			}
			ev, err := buildEvent(ver, ps, serverIdentity("origin.example"), baseTime)
			if err != nil {
				continue
			}
			for _, variant := range []string{"type-null", "type-missing", "content-null", "content-missing"} {
				tv := ref.MustParse(ev.JSON())
				tv.Del("unsigned")
				switch variant {
				case "type-null":
					tv.Set("type", ref.NullV())
				case "type-missing":
					tv.Del("type")
				case "content-null":
					tv.Set("content", ref.NullV())
				case "content-missing":
					tv.Del("content")
				}
				tv = rehashAndSign(tv, t)
				text := gen.Plain().Bytes(tv)
				c.Case("required-member:"+variant+":"+string(ver), map[string]any{"version": ver, "event": string(text)}, func() {
					c.NontrivialBytes(append([]byte(string(ver)+"|req|"+variant+"|"), text...))
					c.Count("required_member_cases")
					var p gmsl.PDU
					var err error
					site, msg, pan := mon.Guard(func() { p, err = impl.NewEventFromUntrustedJSON(text) })
					if pan {
						c.Failf("untrusted:panic:"+site, "NewEventFromUntrustedJSON panics: %s", msg)
						return
					}
					if err != nil {
						c.Count("required_member_refused")
						return
					}
					got := ref.MustParse(p.JSON())
					key := strings.SplitN(variant, "-", 2)[0]
					if !ref.Equal(orNull(got.Get(key)), orNull(tv.Get(key))) || (got.Get(key) == nil) != (tv.Get(key) == nil) {
						c.Failf("untrusted:accepted-event-altered:"+variant, "v%s: the parser accepts an event with %s and returns one whose %q is %s\n%s", ver, variant, key, describeOrAbsent(got.Get(key)), text)
						return
					}
					var red []byte
					site, msg, pan = mon.Guard(func() { red, err = impl.RedactEventJSON(p.JSON()) })
					if pan || err != nil {
						c.Failf("untrusted:accepted-event-not-redactable:"+variant, "v%s: the parser accepts an event with %s that cannot be redacted (%v %s %s)", ver, variant, err, site, msg)
						return
					}
					rv := ref.MustParse(red)
					want := ref.Redact(t.Redaction, tv)
					if (rv.Get(key) == nil) != (want.Get(key) == nil) || (key == "type" && !ref.Equal(orNull(rv.Get(key)), orNull(want.Get(key)))) {
						c.Failf("untrusted:accepted-event-redacts-to-made-up-"+key+":"+variant, "v%s: the parser accepts an event with %s; its redacted form, which the event ID and the signature check are computed over, has %q = %s where the redaction algorithm leaves %s\n%s", ver, variant, key, describeOrAbsent(rv.Get(key)), describeOrAbsent(want.Get(key)), text)
					}
				})
			}
		}
	}
}

// c04NotJSON: texts that are not JSON (a member name without a value in front of a member the parser drops or reads)
// but that the path-based readers the parser starts with are content with. Nothing that is not JSON is an event: the
// parser refuses; if it returns an event all the same, the dropped member is not observable and the ID is the reference
// hash, like for every other event.
func c04NotJSON(c *mon.Ctx) {
	r := c.Rand("not-json")
	id := gen.NewIdentity(c.RandShared("id"), "a.example", "ed25519:k1")
	n := c.Scale(3, 200)
	for _, ver := range sortedVersions() {
		t := ref.Traits(string(ver))
		if t == nil {
			continue
		}
		impl := gmsl.MustGetRoomVersion(ver)
		for k := 0; k < n; k++ {
			ps := genProto(r, t)
			ev, err := buildEvent(ver, ps, id, baseTime)
			if err != nil {
				continue
			}
			base := ref.MustParse(ev.JSON())
			base.Del("unsigned")
			body := gen.Plain().Bytes(base)
			body = body[:len(body)-1] // without the closing brace
			for name, suffix := range map[string]string{
				"event_id":     `,"event_id","event_id":"$evil:a.example"}`,
				"unsigned":     `,"unsigned","unsigned":{"injected":true}}`,
				"age_ts":       `,"age_ts","age_ts":5}`,
				"bare-name":    `,"zz"}`,
				"hashes-twice": `,"hashes","hashes":{"sha256":"AAAA"}}`,
			} {
				text := append(append([]byte{}, body...), suffix...)
				c.Case("not-json:"+name+":"+string(ver), map[string]any{"version": ver, "text": string(text)}, func() {
					c.NontrivialBytes(append([]byte(string(ver)+"|notjson|"+name+"|"), text...))
					c.Count("not_json_cases")
					if _, _, perr := ref.Parse(text); perr == nil {
						panic("harness: the text is JSON after all")
					}
					var p gmsl.PDU
					var err error
					site, msg, pan := mon.Guard(func() { p, err = impl.NewEventFromUntrustedJSON(text) })
					if pan {
						c.Failf("untrusted:panic:"+site, "NewEventFromUntrustedJSON panics on text that is not JSON: %s", msg)
						return
					}
					if err != nil || p == nil {
						c.Count("not_json_refused")
						return
					}
					c.Failf("untrusted:accepts-text-that-is-not-json:"+name, "v%s: NewEventFromUntrustedJSON returns an event (ID %s, unsigned %s) for a text that is not JSON\n%s", ver, p.EventID(), p.Unsigned(), text)
				})
			}
		}
	}
}

// c04UnpairedSurrogates: the escape of half a surrogate pair put into a content value (a redactable one) of a signed
// event is a change to the hashed fields like any other - every decoder reads U+FFFD there: the event is refused or
// comes back as its redacted form, never unredacted with the altered content.
func c04UnpairedSurrogates(c *mon.Ctx) {
	id := gen.NewIdentity(c.RandShared("id"), "a.example", "ed25519:k1")
	for vi, ver := range sortedVersions() {
		t := ref.Traits(string(ver))
		if t == nil || !c.Mine(vi) {
			continue
		}
		impl := gmsl.MustGetRoomVersion(ver)
		ps := protoSpec{Type: "m.room.message", Sender: "@u:a.example", RoomID: "!r:a.example", Content: []byte(`{"body":"pay 1","msgtype":"m.text","nested":{"k":"v"}}`), Depth: 5}
		if t.Domainless {
			ps.RoomID = "!" + strings.Repeat("A", 43)
		}
		ev, err := buildEvent(ver, ps, id, baseTime)
		if err != nil {
			c.Note("unpaired-surrogate scenario: cannot build the event for v%s: %v", ver, err)
			continue
		}
		orig := string(ev.JSON())
		// the same event with U+FFFD in its content, and copies in which that character is written as two escapes the
		// first of which is half a surrogate pair (one character to a canonicaliser that folds them, two to every decoder)
		ps2 := ps
		ps2.Content = []byte("{\"body\":\"pay \uFFFD1\",\"msgtype\":\"m.text\",\"nested\":{\"k\uFFFD\":\"v\"}}")
		if ev2, err := buildEvent(ver, ps2, id, baseTime); err == nil {
			orig2 := string(ev2.JSON())
			for _, esc := range []string{`\ud800\ud800`, `\uD83D\uD83D`, `\udc00\ud800`, `\ud800\u0041`, `\udbff\ufffd`} {
				for kind, text := range map[string]string{
					"replacement-char-in-content-value-respelled-as-two-escapes": strings.Replace(orig2, "pay \uFFFD1", "pay "+esc+"1", 1),
					"replacement-char-in-content-name-respelled-as-two-escapes":  strings.Replace(orig2, "\"k\uFFFD\"", "\"k"+esc+"\"", 1),
				} {
					c.Case("unpaired-surrogate:"+kind+":"+string(ver), map[string]any{"version": ver, "escape": esc, "text": text}, func() {
						c.Nontrivial(string(ver) + "|surrogate|" + kind + "|" + esc)
						c.Count("unpaired_surrogate_cases")
						if text == orig2 {
							c.Failf("harness:surrogate-tampering-did-not-apply", "%s v%s", kind, ver)
							return
						}
						var p gmsl.PDU
						var err error
						site, msg, pan := mon.Guard(func() { p, err = impl.NewEventFromUntrustedJSON([]byte(text)) })
						if pan {
							c.Failf("untrusted:panic:"+site, "NewEventFromUntrustedJSON panics: %s", msg)
							return
						}
						if err != nil || p == nil {
							c.Count("unpaired_surrogate_refused")
							return
						}
						if !p.Redacted() {
							c.Failf("hashmatch:altered-content-returned-unredacted:"+kind, "v%s: an event whose content was altered by writing U+FFFD as the two escapes %s is returned unredacted (ID %s), content %s", ver, esc, p.EventID(), p.Content())
						}
					})
				}
			}
		} else {
			c.Note("replacement-char scenario: cannot build the event for v%s: %v", ver, err)
		}
		for _, esc := range []string{`\udead`, `\ud800`, `\uDFFF`} {
			for kind, text := range map[string]string{
				"appended-to-content-value": strings.Replace(orig, `"pay 1"`, `"pay 1`+esc+`"`, 1),
				"in-nested-content-value":   strings.Replace(orig, `"k":"v"`, `"k":"`+esc+`v"`, 1),
				"in-content-member-name":    strings.Replace(orig, `"msgtype"`, `"msgtype`+esc+`"`, 1),
			} {
				c.Case("unpaired-surrogate:"+kind+":"+string(ver), map[string]any{"version": ver, "escape": esc, "text": text}, func() {
					c.Nontrivial(string(ver) + "|surrogate|" + kind + "|" + esc)
					c.Count("unpaired_surrogate_cases")
					if text == orig {
						c.Failf("harness:surrogate-tampering-did-not-apply", "%s v%s", kind, ver)
						return
					}
					var p gmsl.PDU
					var err error
					site, msg, pan := mon.Guard(func() { p, err = impl.NewEventFromUntrustedJSON([]byte(text)) })
					if pan {
						c.Failf("untrusted:panic:"+site, "NewEventFromUntrustedJSON panics: %s", msg)
						return
					}
					if err != nil || p == nil {
						c.Count("unpaired_surrogate_refused")
						return
					}
					if !p.Redacted() {
						c.Failf("hashmatch:altered-content-returned-unredacted:unpaired-surrogate-"+kind, "v%s: an event whose content was altered by putting in the escape %s is returned unredacted (ID %s), content %s", ver, esc, p.EventID(), p.Content())
					}
				})
			}
		}
	}
}

// c04OverTheByteLimit: events whose type or state key is over the 255-byte limit only (not over 255 code points) come
// back from the parser together with a "too large but persistable" report, and callers keep them. Such an event is an
// event like any other: when its hash fails, what comes back is the redacted form.
func c04OverTheByteLimit(c *mon.Ctx) {
	id := gen.NewIdentity(c.RandShared("id"), "a.example", "ed25519:k1")
	long := strings.Repeat("\u20ac", 100) // 100 code points, 300 bytes
	for vi, ver := range sortedVersions() {
		t := ref.Traits(string(ver))
		if t == nil || !c.Mine(vi) {
			continue
		}
		impl := gmsl.MustGetRoomVersion(ver)
		sk := "k"
		ps := protoSpec{Type: "com.example.state", StateKey: &sk, Sender: "@u:a.example", RoomID: "!r:a.example", Content: []byte(`{"body":"pay 1","extra":{"k":"v"}}`), Depth: 5}
		if t.Domainless {
			ps.RoomID = "!" + strings.Repeat("A", 43)
		}
		ev, err := buildEvent(ver, ps, id, baseTime)
		if err != nil {
			c.Note("byte-limit scenario: cannot build the event for v%s: %v", ver, err)
			continue
		}
		for _, field := range []string{"state_key", "type"} {
			for _, hashOK := range []bool{true, false} {
				tv := ref.MustParse(ev.JSON())
				tv.Set(field, ref.S(long))
				setContentHash(tv, t)
				if !hashOK {
					tv.Get("content").Set("body", ref.S("pay 1000"))
					tv.Set("com.example.extra_top_level", ref.S("x"))
				}
				text := gen.Plain().Bytes(tv)
				name := fmt.Sprintf("over-the-byte-limit:%s:hash-matches=%v", field, hashOK)
				c.Case(name+":"+string(ver), map[string]any{"version": ver, "event": string(text)}, func() {
					c.Nontrivial(string(ver) + "|" + name)
					var p gmsl.PDU
					var err error
					site, msg, pan := mon.Guard(func() { p, err = impl.NewEventFromUntrustedJSON(text) })
					if pan {
						c.Failf("untrusted:panic:"+site, "NewEventFromUntrustedJSON panics: %s", msg)
						return
					}
					if p == nil || (err != nil && !isPersistable(err)) {
						c.Count("over_the_byte_limit_refused")
						return
					}
					c.Count("over_the_byte_limit_returned")
					// such an event has the ID every event has: the one its redacted form determines (ninth seeding round, C04-R:
					// the parser handed it out before the ID had been worked out)
					var gotID string
					if site, msg, pan := mon.Guard(func() { gotID = p.EventID() }); pan {
						c.Failf("untrusted:panic:"+site, "EventID() of an event over the byte limit panics: %s", msg)
						return
					}
					if wantID := ref.EventID(t, tv); gotID != wantID {
						c.Failf("untrusted:event-id:"+name, "v%s: an event over the byte limit comes back with the event ID %q, its content determines %q", ver, gotID, wantID)
					}
					got, _, perr := ref.Parse(p.JSON())
					if perr != nil {
						c.Failf("untrusted:json-invalid", "JSON() invalid: %v", perr)
						return
					}
					recv := tv.Clone()
					if hashOK {
						if p.Redacted() || !ref.Equal(got, recv) {
							c.Failf("hashok:fields-altered:"+name, "v%s: an event over the byte limit whose hash matches does not come back intact (redacted=%v)\n in  %s\n out %s", ver, p.Redacted(), ref.Canon(recv), ref.Canon(got))
						}
						return
					}
					wantRed := ref.Redact(t.Redaction, recv)
					if !p.Redacted() {
						c.Failf("hashfail:not-flagged-redacted:"+name, "v%s: an event over the byte limit whose content hash fails is returned (error: %v) and not flagged redacted\n%s", ver, err, text)
					}
					if !ref.Equal(got, wantRed) {
						c.Failf("hashfail:json-not-redacted-form:"+name, "v%s: JSON() of a hash-failing event over the byte limit is not its redacted form\n got  %s\n want %s", ver, ref.Canon(got), ref.Canon(wantRed))
					}
					if cv, _, e := ref.Parse(p.Content()); e != nil || !ref.Equal(cv, wantRed.Get("content")) {
						c.Failf("hashfail:content-accessor-leaks:"+name, "v%s: Content() = %s exposes more than the redacted content", ver, p.Content())
					}
				})
			}
		}
	}
	c.Floor("over_the_byte_limit_returned", 4)
}

func orNull(v *ref.Value) *ref.Value {
	if v == nil {
		return ref.NullV()
	}
	return v
}

func describeOrAbsent(v *ref.Value) string {
	if v == nil {
		return "absent"
	}
	return gen.Describe(v)
}

func c04DuplicateMembers(c *mon.Ctx) {
	r := c.Rand("duplicates")
	id := gen.NewIdentity(c.RandShared("id"), "a.example", "ed25519:k1")
	n := c.Scale(6, 400)
	for _, ver := range sortedVersions() {
		t := ref.Traits(string(ver))
		if t == nil {
			continue
		}
		impl := gmsl.MustGetRoomVersion(ver)
		for k := 0; k < n; k++ {
			ps := genProto(r, t)
			ev, err := buildEvent(ver, ps, id, baseTime)
			if err != nil {
				continue
			}
			orig := ref.MustParse(ev.JSON())
			origContent := orig.Get("content").Clone()
			for _, order := range []string{"forged-first", "forged-last", "forged-first-escaped-name"} {
				tv := orig.Clone()
				tv.Get("content").Set("injected_by_relay", ref.S("not what the sender wrote"))
				// the hash the library computes: over the event minus signatures / unsigned and minus ONE hashes member
				rest := tv.Clone()
				rest.Del("signatures")
				rest.Del("unsigned")
				if t.EventFormat == 2 {
					rest.Del("event_id")
				}
				h := sha256.Sum256(ref.Canon(rest))
				forged := ref.Member{Key: "hashes", Val: ref.O("sha256", ref.S(base64.RawStdEncoding.EncodeToString(h[:])))}
				if order == "forged-first" {
					tv.O = append([]ref.Member{forged}, tv.O...)
				} else if order == "forged-last" {
					tv.O = append(tv.O, forged)
				}
				text := gen.Plain().Bytes(tv)
				if order == "forged-first-escaped-name" {
					// the forged copy's name spelled with an escape: the same name to every JSON reader
					text = append([]byte(`{"h\u0061shes":`+string(gen.Plain().Bytes(forged.Val))+`,`), text[1:]...)
				}
				c.Case("duplicate-member:hashes:"+order+":"+string(ver), map[string]any{"version": ver, "event": string(text)}, func() {
					c.NontrivialBytes(append([]byte(string(ver)+"|dup|"), text...))
					c.Count("duplicate_member_cases")
					p, err := impl.NewEventFromUntrustedJSON(text)
					if err != nil {
						c.Count("duplicate_member_refused")
						return
					}
					cv, _, perr := ref.Parse(p.Content())
					if perr != nil {
						return
					}
					if !ref.Equal(cv, origContent) && cv.Get("injected_by_relay") != nil {
						got := ref.MustParse(p.JSON())
						sigOK := refEventSigValid(got, t, id.Server, id.KeyID, id.Pub)
						if p.EventID() == ev.EventID() || sigOK {
							c.Failf("duplicate-member:content-substituted-under-original-identity", "v%s: a second \"hashes\" member lets rewritten content through: Redacted()=%v, event ID unchanged=%v, origin signature still valid=%v\n%s", ver, p.Redacted(), p.EventID() == ev.EventID(), sigOK, text)
						}
					}
				})
			}
		}
	}
	c.Floor("duplicate_member_cases", 20)
}
