package main

import (
	"bytes"
	"encoding/base64"
	"encoding/json"
	"fmt"

	gmsl "github.com/matrix-org/gomatrixserverlib"

	"verif/gen"
	"verif/mon"
	"verif/ref"
)

func init() {
	register(&propDef{
		ID:    "C04",
		Level: "exploration",
		Rule: "a case is (built event, room version, tampering): 16 tamperings of the event JSON - redactable content key changed/added, extra top-level key, redacts/origin changed, protected key changed, hash replaced/removed/mistyped, keys stripped on receipt added or changed (unsigned, age_ts, outlier, destinations, event_id), none - each parsed with NewEventFromUntrustedJSON and compared with the reference classification (reference content hash) and the reference redaction; " +
			"distinct = distinct (version, tampered bytes); non-trivial = the tampered event has content keys outside the keep-list",
		Assumptions: []string{"reference content hash, redaction and event ID in harness/ref", "integer-only contents"},
		Run:         runC04,
	})
}

var strippedOnReceipt = []string{"outlier", "destinations", "age_ts", "unsigned"}

type tampering struct {
	name string
	// apply edits the event value in place; returns false when not applicable
	apply func(r *gen.Rand, t *ref.VersionTraits, ev *ref.Value) bool
	// redactableOnly: only material outside the redacted form was altered, so
	// ID and signature validity must be those of the original
	redactableOnly bool
}

func redactableContentKey(t *ref.VersionTraits, ev *ref.Value) string {
	typ, _ := ev.Get("type").Str()
	keep, all := ref.ContentKeep(t.Redaction, typ)
	if all {
		return ""
	}
	kept := map[string]bool{}
	for _, k := range keep {
		kept[k] = true
	}
	for _, m := range ev.Get("content").O {
		if !kept[m.Key] {
			return m.Key
		}
	}
	return ""
}

var tamperings = []tampering{
	{"none", func(r *gen.Rand, t *ref.VersionTraits, ev *ref.Value) bool { return true }, true},
	{"content-redactable-changed", func(r *gen.Rand, t *ref.VersionTraits, ev *ref.Value) bool {
		k := redactableContentKey(t, ev)
		if k == "" {
			return false
		}
		ev.Get("content").Set(k, ref.S("tampered"))
		return true
	}, true},
	{"content-redactable-added", func(r *gen.Rand, t *ref.VersionTraits, ev *ref.Value) bool {
		typ, _ := ev.Get("type").Str()
		if _, all := ref.ContentKeep(t.Redaction, typ); all {
			return false
		}
		ev.Get("content").Set("injected_by_attacker", ref.O("body", ref.S("spam")))
		return true
	}, true},
	{"content-redactable-removed", func(r *gen.Rand, t *ref.VersionTraits, ev *ref.Value) bool {
		k := redactableContentKey(t, ev)
		if k == "" {
			return false
		}
		ev.Get("content").Del(k)
		return true
	}, true},
	{"top-level-extra-key", func(r *gen.Rand, t *ref.VersionTraits, ev *ref.Value) bool {
		ev.Set("injected_top_level", ref.A(ref.I(1), ref.S("x")))
		return true
	}, true},
	{"top-level-redacts-changed", func(r *gen.Rand, t *ref.VersionTraits, ev *ref.Value) bool {
		ev.Set("redacts", ref.S("$other:evil.example"))
		return true
	}, true},
	{"top-level-origin-changed", func(r *gen.Rand, t *ref.VersionTraits, ev *ref.Value) bool {
		if t.Redaction < 5 {
			return false // origin is protected before v11
		}
		ev.Set("origin", ref.S("evil.example"))
		return true
	}, true},
	{"protected-depth-changed", func(r *gen.Rand, t *ref.VersionTraits, ev *ref.Value) bool {
		d, _ := ev.Get("depth").Int()
		ev.Set("depth", ref.I(d^3))
		return true
	}, false},
	{"protected-content-changed", func(r *gen.Rand, t *ref.VersionTraits, ev *ref.Value) bool {
		typ, _ := ev.Get("type").Str()
		keep, _ := ref.ContentKeep(t.Redaction, typ)
		for _, k := range keep {
			if ev.Get("content").Get(k) != nil {
				ev.Get("content").Set(k, ref.S("tampered-protected"))
				return true
			}
		}
		return false
	}, false},
	{"hash-replaced", func(r *gen.Rand, t *ref.VersionTraits, ev *ref.Value) bool {
		ev.Set("hashes", ref.O("sha256", ref.S(base64.RawStdEncoding.EncodeToString(r.Bytes(32)))))
		return true
	}, false},
	{"hash-removed", func(r *gen.Rand, t *ref.VersionTraits, ev *ref.Value) bool { ev.Del("hashes"); return true }, false},
	{"hash-sha256-missing", func(r *gen.Rand, t *ref.VersionTraits, ev *ref.Value) bool {
		ev.Set("hashes", ref.O("md5", ref.S("abcd")))
		return true
	}, false},
	{"hash-truncated", func(r *gen.Rand, t *ref.VersionTraits, ev *ref.Value) bool {
		s, _ := ev.Get("hashes").Get("sha256").Str()
		ev.Set("hashes", ref.O("sha256", ref.S(s[:len(s)-2])))
		return true
	}, false},
	{"stripped-unsigned-changed", func(r *gen.Rand, t *ref.VersionTraits, ev *ref.Value) bool {
		ev.Set("unsigned", ref.O("age", ref.I(99999), "redacted_because", ref.O("x", ref.I(1))))
		return true
	}, true},
	{"stripped-keys-added", func(r *gen.Rand, t *ref.VersionTraits, ev *ref.Value) bool {
		ev.Set("age_ts", ref.I(1234))
		ev.Set("outlier", ref.B(true))
		ev.Set("destinations", ref.A(ref.S("x.example")))
		return true
	}, true},
	{"stripped-event-id-added", func(r *gen.Rand, t *ref.VersionTraits, ev *ref.Value) bool {
		if t.EventFormat == 1 {
			return false
		}
		ev.Set("event_id", ref.S("$forged"))
		return true
	}, true},
}

func runC04(c *mon.Ctx) {
	r := c.Rand("protos")
	id := gen.NewIdentity(c.RandShared("id"), "a.example", "ed25519:k1")
	versions := sortedVersions()
	n := c.Scale(48, 8000)
	for k := 0; k < n; k++ {
		for _, ver := range versions {
			t := ref.Traits(string(ver))
			if t == nil {
				continue
			}
			impl := gmsl.MustGetRoomVersion(ver)
			ps := genProto(r, t)
			ev, err := buildEvent(ver, ps, id, baseTime)
			if err != nil {
				c.Case("build", map[string]any{"version": ver, "proto": ps}, func() {
					c.Failf("build:refuses-valid-proto", "Build(v%s): %v", ver, err)
				})
				continue
			}
			orig := ref.MustParse(ev.JSON())
			origID := ev.EventID()
			tr := r.Fork("tamper")
			for _, tm := range tamperings {
				tv := orig.Clone()
				if !tm.apply(tr, t, tv) {
					continue
				}
				text := gen.Plain().Bytes(tv)
				if tr.Chance(0.3) {
					text = gen.ScrambleStrict(tr).Bytes(tv)
				}
				c.Case("tamper:"+tm.name+":"+string(ver), map[string]any{"version": ver, "tampering": tm.name, "event": string(text)}, func() {
					// what the receiver is meant to look at: the event without the keys stripped on receipt
					recv := tv.Clone()
					for _, k := range strippedOnReceipt {
						recv.Del(k)
					}
					if t.EventFormat == 2 {
						recv.Del("event_id")
					}
					want := ref.ContentHash(recv)
					hs, _ := recv.Get("hashes").Get("sha256").Str()
					hb, herr := base64.RawStdEncoding.DecodeString(hs)
					matches := herr == nil && bytes.Equal(hb, want[:])
					if (tm.name == "none" || tm.name[:8] == "stripped") != matches {
						panic(fmt.Sprintf("harness bug: tampering %s: reference hash match = %v", tm.name, matches))
					}
					p, err := impl.NewEventFromUntrustedJSON(text)
					if err != nil {
						c.Failf("untrusted:error:"+tm.name, "NewEventFromUntrustedJSON(v%s) after %s: %v\n%s", ver, tm.name, err, text)
						return
					}
					got, _, perr := ref.Parse(p.JSON())
					if perr != nil {
						c.Failf("untrusted:json-invalid", "JSON() invalid: %v", perr)
						return
					}
					if keyOutside := redactableContentKey(t, tv); keyOutside != "" {
						c.NontrivialBytes(append([]byte(string(ver)+"|"), text...))
					}
					if matches {
						c.Count("hash_matching_cases")
						if p.Redacted() {
							c.Failf("hashok:flagged-redacted:"+tm.name, "event with a matching content hash is flagged redacted (v%s, %s)\n%s", ver, tm.name, text)
							return
						}
						if !ref.Equal(got, recv) {
							c.Failf("hashok:fields-altered:"+tm.name, "event with a matching hash does not come back intact (v%s, %s)\n in  %s\n out %s", ver, tm.name, ref.Canon(recv), ref.Canon(got))
							return
						}
						if cv, _, e := ref.Parse(p.Content()); e != nil || !ref.Equal(cv, orig.Get("content")) {
							c.Failf("hashok:content-altered:"+tm.name, "Content() differs from the original content (v%s)", ver)
						}
						if p.EventID() != origID {
							c.Failf("hashok:id-changed:"+tm.name, "event ID %s != original %s (v%s, %s)", p.EventID(), origID, ver, tm.name)
						}
						if !refEventSigValid(got, t, id.Server, id.KeyID, id.Pub) {
							c.Failf("hashok:signature-invalid:"+tm.name, "signature no longer valid on the parsed event (v%s, %s)", ver, tm.name)
						}
						return
					}
					c.Count("hash_failing_cases")
					if !p.Redacted() {
						c.Failf("hashfail:not-flagged-redacted:"+tm.name, "event whose content hash fails is not flagged redacted (v%s, %s)\n%s", ver, tm.name, text)
					}
					wantRed := ref.Redact(t.Redaction, recv)
					if !ref.Equal(got, wantRed) {
						c.Failf("hashfail:json-not-redacted-form:"+tm.name, "JSON() of a hash-failing event is not its redacted form (v%s, %s)\n got  %s\n want %s", ver, tm.name, ref.Canon(got), ref.Canon(wantRed))
						return
					}
					cv, _, e := ref.Parse(p.Content())
					if e != nil || !ref.Equal(cv, wantRed.Get("content")) {
						c.Failf("hashfail:content-accessor-leaks:"+tm.name, "Content() = %s exposes more than the redacted content %s (v%s, %s)", p.Content(), ref.Canon(wantRed.Get("content")), ver, tm.name)
					}
					if u := p.Unsigned(); len(u) != 0 && string(u) != "null" {
						c.Failf("hashfail:unsigned-accessor-leaks:"+tm.name, "Unsigned() = %s on a hash-failing event (v%s)", u, ver)
					}
					if wantRed.Get("redacts") == nil && p.Redacts() != "" {
						c.Failf("hashfail:redacts-accessor-leaks:"+tm.name, "Redacts() = %q on a hash-failing event (v%s)", p.Redacts(), ver)
					}
					if hj, err := p.ToHeaderedJSON(); err == nil {
						hv, _, e := ref.Parse(hj)
						if e == nil {
							hv.Del("_room_version")
							hv.Del("_event_id")
							if !ref.Equal(hv, wantRed) {
								c.Failf("hashfail:headered-json-leaks:"+tm.name, "ToHeaderedJSON exposes more than the redacted form (v%s)", ver)
							}
						}
					}
					if tm.redactableOnly {
						c.Count("redactable_only_cases")
						if t.EventIDFormat >= 2 || tm.name != "stripped-event-id-added" {
							if p.EventID() != origID {
								c.Failf("hashfail:id-changed:"+tm.name, "only redactable material was altered but the event ID %s != original %s (v%s)", p.EventID(), origID, ver)
							}
						}
						if !refEventSigValid(got, t, id.Server, id.KeyID, id.Pub) {
							c.Failf("hashfail:signature-invalid:"+tm.name, "only redactable material was altered but the origin signature is no longer valid (v%s)", ver)
						}
						red, err := impl.RedactEventJSON(p.JSON())
						if err == nil {
							if err := gmsl.VerifyJSON(id.Server, gmsl.KeyID(id.KeyID), id.Pub, red); err != nil {
								c.Failf("hashfail:signature-invalid:"+tm.name, "VerifyJSON on the parsed event fails (v%s): %v", ver, err)
							}
						}
					}
					if c.WantSample() && len(text) < 800 {
						b, _ := json.Marshal(string(p.JSON()))
						c.Sample(map[string]any{"version": ver, "tampering": tm.name, "input": string(text), "parsed_json": json.RawMessage(b)})
					}
				})
			}
		}
	}
	c.Floor("hash_failing_cases", 200)
	c.Floor("hash_matching_cases", 100)
	c.Floor("redactable_only_cases", 100)
}
