package main

import (
	"context"
	"encoding/base64"
	"encoding/json"
	"errors"
	"fmt"
	"sort"
	"strings"

	gmsl "github.com/matrix-org/gomatrixserverlib"
	"github.com/matrix-org/gomatrixserverlib/spec"

	"verif/gen"
	"verif/mon"
	"verif/ref"
)

func init() {
	register(&propDef{
		ID:    "C14",
		Level: "fault_enumeration",
		Rule: "responses are built from simulated room histories (state = one branch's state, auth chain = its auth closure), all events really signed. CheckStateResponse: the fault-free response, then EVERY single position x fault kind {bad signature, replaced by an event its auth events do not allow, auth event removed from the chain, replaced by an event of another room} for small rooms, random fault subsets of size 2-5 for all rooms, plus whole-response faults {non-state event in state / auth list, duplicate state key, malformed JSON element}, each under provider behaviours {returns the event, returns nothing, errors}. CheckSendJoinResponse: joins that are allowed by both / only by their own auth events / only by the returned state / by neither. VerifyEventAuthChain and VerifyAuthRulesAtState: events with a bad link at every depth of the chain, partially known auth events, with and without the validation shortcut. LoadAndVerify: mixed batches classified per input. " +
			"distinct = distinct (response IDs, fault vector, provider behaviour); non-trivial = at least one fault or a missing auth event",
		Assumptions: []string{"ground truth from the simulator: the harness knows which events it corrupted and how", "the library's public Allowed on a fresh provider as auth primitive (C07)", "real KeyRing over an in-memory key database", "abstains on providers answering with a different event than asked"},
		Run:         runC14,
	})
}

var c14ring = func() *gmsl.KeyRing {
	db := newMemKeyDB()
	for _, s := range []string{"origin.example", "other.example", "third.example"} {
		id := serverIdentity(s)
		db.set(s, id.KeyID, id.Pub, farFuture, 0)
	}
	return &gmsl.KeyRing{KeyDatabase: db}
}()

// corruptSig flips a bit in the first signature of an event and returns the JSON.
func corruptSig(p gmsl.PDU) []byte {
	v := ref.MustParse(p.JSON())
	sigs := v.Get("signatures")
	for _, srv := range sigs.O {
		for i, k := range srv.Val.O {
			b, err := base64.RawStdEncoding.DecodeString(k.Val.S)
			if err == nil && len(b) > 10 {
				b[9] ^= 0x04
				srv.Val.O[i].Val = ref.S(base64.RawStdEncoding.EncodeToString(b))
				return gen.Plain().Bytes(v)
			}
		}
	}
	return gen.Plain().Bytes(v)
}

type respItem struct {
	json    []byte
	pdu     gmsl.PDU // nil for malformed elements
	sigGood bool
}

type providerMode int

const (
	provReturns providerMode = iota
	provNothing
	provErrors
)

var provNames = []string{"returns-event", "returns-nothing", "errors"}

func mkProvider(mode providerMode, pool map[string]gmsl.PDU, log *[]string) gmsl.EventProvider {
	return func(roomVer gmsl.RoomVersion, eventIDs []string) ([]gmsl.PDU, error) {
		*log = append(*log, eventIDs...)
		switch mode {
		case provErrors:
			return nil, errors.New("scripted provider error")
		case provNothing:
			return nil, nil
		}
		var out []gmsl.PDU
		for _, id := range eventIDs {
			if p, ok := pool[id]; ok {
				out = append(out, p)
			}
		}
		return out, nil
	}
}

// allowedBy is the auth primitive: Allowed on a fresh provider holding exactly these events.
func allowedBy(ev gmsl.PDU, auth []gmsl.PDU) bool {
	prov, err := gmsl.NewAuthEvents(nil)
	if err != nil {
		return false
	}
	for _, a := range auth {
		if a.StateKey() == nil {
			return false
		}
		_ = prov.AddEvent(a)
	}
	return gmsl.Allowed(ev, prov, userIDForSender) == nil
}

type rawResp struct{ state, auth gmsl.EventJSONs }

func (r rawResp) GetAuthEvents() gmsl.EventJSONs  { return r.auth }
func (r rawResp) GetStateEvents() gmsl.EventJSONs { return r.state }

// authClosure returns the auth chain of a state list inside the room.
func authClosure(all map[string]gmsl.PDU, state []gmsl.PDU) []gmsl.PDU {
	seen := map[string]bool{}
	var out []gmsl.PDU
	var walk func(p gmsl.PDU)
	walk = func(p gmsl.PDU) {
		for _, a := range p.AuthEventIDs() {
			if seen[a] {
				continue
			}
			seen[a] = true
			if ap, ok := all[a]; ok {
				out = append(out, ap)
				walk(ap)
			}
		}
	}
	for _, p := range state {
		walk(p)
	}
	sort.Slice(out, func(i, j int) bool { return out[i].EventID() < out[j].EventID() })
	return out
}

// expectedKept is the oracle for CheckStateResponse. The same event may be listed under state and under auth events:
// each copy is judged on its own signatures, and an event "arrived with verified signatures" when at least one copy did.
// A copy is kept when its signatures are good and the event is allowed by those of its auth events that arrived with
// verified signatures or that the provider supplies.
func expectedKept(items []respItem, mode providerMode, pool map[string]gmsl.PDU) map[string]bool {
	good := map[string]gmsl.PDU{}
	for _, it := range items {
		if it.pdu != nil && it.sigGood {
			good[it.pdu.EventID()] = it.pdu
		}
	}
	kept := map[string]bool{}
	for id, p := range good {
		var auth []gmsl.PDU
		for _, a := range p.AuthEventIDs() {
			if ap, ok := good[a]; ok {
				auth = append(auth, ap)
			} else if mode == provReturns {
				if ap, ok := pool[a]; ok {
					auth = append(auth, ap)
				}
			}
		}
		if allowedBy(p, auth) {
			kept[id] = true
		}
	}
	return kept
}

func runC14(c *mon.Ctx) {
	r := c.Rand("scenarios")
	versions := []gmsl.RoomVersion{"1", "6", "8", "10", "12"}
	if c.Thorough() {
		versions = nil
		for _, v := range sortedVersions() {
			if v != gmsl.RoomVersionPseudoIDs {
				versions = append(versions, v)
			}
		}
	}
	nScen := c.Scale(64, 2400) / len(versions)
	if nScen < 2 {
		nScen = 2
	}
	for k := 0; k < nScen; k++ {
		for _, ver := range versions {
			sr := r.Fork("s")
			sc := genScenario(sr, ver, 5)
			other := genScenario(sr, ver, 2) // another room, for wrong-room faults
			c14StateResponses(c, sr, sc, other)
			c14SendJoin(c, sr, sc)
			c14SendJoinRedactedPowerLevels(c, sr, sc)
			c14AuthChain(c, sr, sc)
			c14AuthAtState(c, sr, sc, other)
			c14Load(c, sr, sc)
		}
	}
	c14RedactedRestrictedJoins(c, r.Fork("restricted-joins"), versions)
	c.Floor("state_responses", 200)
	c.Floor("state_responses_with_dropped_events", 50)
	c.Floor("send_join_checks", 20)
	c.Floor("auth_chain_checks", 50)
	c.Floor("auth_chain_checks_after_a_refused_event", 50)
	c.Floor("auth_at_state_checks", 50)
	c.Floor("load_batches", 10)
}

// disallowedReplacement builds an event for the same (type,key) as victim that its auth events do not allow.
func disallowedReplacement(sc *simScenario, b *simBranch, victim gmsl.PDU) gmsl.PDU {
	s := sc.s
	// somebody who is not in the room sends it
	outsider := "@mallory:third.example"
	c := ref.MustParse(victim.Content())
	eb := s.impl.NewEventBuilderFromProtoEvent(&gmsl.ProtoEvent{SenderID: outsider, RoomID: s.roomID, Type: victim.Type(), StateKey: victim.StateKey(), PrevEvents: []string{b.tip}, Depth: b.depth + 1,
		Content: gen.Plain().Bytes(c)})
	if err := eb.AddAuthEvents(s.provider(b)); err != nil {
		return nil
	}
	id := serverIdentity("third.example")
	ev, err := eb.Build(baseTime, spec.ServerName(id.Server), gmsl.KeyID(id.KeyID), id.Priv)
	if err != nil {
		return nil
	}
	if gmsl.Allowed(ev, s.provider(b), userIDForSender) == nil {
		return nil // happens to be allowed (e.g. a public room join): not a fault
	}
	return ev
}

func c14StateResponses(c *mon.Ctx, r *gen.Rand, sc *simScenario, other *simScenario) {
	b := gen.Pick(r, sc.branches)
	state := b.list()
	auth := authClosure(sc.s.all, state)
	type pos struct {
		inState bool
		i       int
	}
	var positions []pos
	for i := range state {
		positions = append(positions, pos{true, i})
	}
	for i := range auth {
		positions = append(positions, pos{false, i})
	}
	kinds := []string{"bad-signature", "disallowed", "auth-removed", "wrong-room"}
	type fault struct {
		p    pos
		kind string
	}
	var plans [][]fault
	plans = append(plans, nil) // fault-free
	if len(positions) <= 24 {
		for _, p := range positions {
			for _, k := range kinds {
				plans = append(plans, []fault{{p, k}})
			}
		}
	} else {
		for i := 0; i < 24; i++ {
			plans = append(plans, []fault{{gen.Pick(r, positions), gen.Pick(r, kinds)}})
		}
	}
	for i := 0; i < 6; i++ {
		var fs []fault
		for j := r.Range(2, 5); j > 0; j-- {
			fs = append(fs, fault{gen.Pick(r, positions), gen.Pick(r, kinds)})
		}
		plans = append(plans, fs)
	}
	otherState := gen.Pick(r, other.branches).list()
	for _, plan := range plans {
		stItems := make([]respItem, len(state))
		auItems := make([]respItem, len(auth))
		for i, p := range state {
			stItems[i] = respItem{json: p.JSON(), pdu: p, sigGood: true}
		}
		for i, p := range auth {
			auItems[i] = respItem{json: p.JSON(), pdu: p, sigGood: true}
		}
		removedAuth := map[int]bool{}
		desc := []string{}
		for _, f := range plan {
			items := auItems
			if f.p.inState {
				items = stItems
			}
			it := &items[f.p.i]
			if it.pdu == nil {
				continue
			}
			where := "auth"
			if f.p.inState {
				where = "state"
			}
			switch f.kind {
			case "bad-signature":
				it.json, it.sigGood = corruptSig(it.pdu), false
				desc = append(desc, fmt.Sprintf("bad-signature@%s[%d] %s", where, f.p.i, it.pdu.Type()))
			case "disallowed":
				if !f.p.inState || it.pdu.Type() == "m.room.create" {
					continue
				}
				if rep := disallowedReplacement(sc, b, it.pdu); rep != nil {
					*it = respItem{json: rep.JSON(), pdu: rep, sigGood: true}
					desc = append(desc, fmt.Sprintf("disallowed@state[%d] %s", f.p.i, rep.Type()))
				}
			case "auth-removed":
				if f.p.inState {
					continue
				}
				removedAuth[f.p.i] = true
				desc = append(desc, fmt.Sprintf("auth-removed[%d] %s", f.p.i, it.pdu.Type()))
			case "wrong-room":
				if !f.p.inState {
					continue
				}
				for _, o := range otherState {
					if o.Type() == it.pdu.Type() && *o.StateKey() == *it.pdu.StateKey() && o.Type() != "m.room.create" {
						*it = respItem{json: o.JSON(), pdu: o, sigGood: true}
						desc = append(desc, fmt.Sprintf("wrong-room@state[%d] %s", f.p.i, o.Type()))
						break
					}
				}
			}
		}
		for _, mode := range []providerMode{provReturns, provNothing, provErrors} {
			if len(removedAuth) == 0 && mode != provReturns {
				continue
			}
			var resp rawResp
			var all []respItem
			for _, it := range stItems {
				resp.state = append(resp.state, it.json)
				all = append(all, it)
			}
			for i, it := range auItems {
				if removedAuth[i] {
					continue
				}
				resp.auth = append(resp.auth, it.json)
				all = append(all, it)
			}
			// a removed auth event that is also a state event is still in the response
			pool := sc.s.all
			name := "state-response:" + string(sc.s.ver)
			dd := map[string]any{"version": sc.s.ver, "state_events": len(stItems), "auth_events": len(resp.auth), "faults": desc, "provider": provNames[mode]}
			c.Case(name, dd, func() {
				var asked []string
				want := expectedKept(all, mode, pool)
				var gotAuth, gotState []gmsl.PDU
				var err error
				site, msg, pan := mon.Guard(func() {
					gotAuth, gotState, err = gmsl.CheckStateResponse(context.Background(), resp, sc.s.ver, c14ring, mkProvider(mode, pool, &asked), userIDForSender)
				})
				if pan {
					c.Failf("stateresponse:panic:"+site, "CheckStateResponse panics: %s", msg)
					return
				}
				c.Count("state_responses")
				if len(desc) > 0 {
					c.Nontrivial(fmt.Sprintf("%s|%v|%v|%d", sc.s.ver, idsOf(state), desc, mode))
				}
				if err != nil {
					c.Failf("stateresponse:unexpected-error", "CheckStateResponse fails on a response without whole-response faults: %v (faults %v)", err, desc)
					return
				}
				// a fault: the caller gives up (its context ends) between two of the signature checks of the batch. An
				// error is an answer; events whose signature was never found good are not.
				anyBadSig := false
				for _, it := range all {
					if it.pdu != nil && !it.sigGood {
						anyBadSig = true
					}
				}
				if mode == provReturns && anyBadSig {
					for _, after := range []int{1, 2, 1 + len(all)/2} {
						ctx, cancel := context.WithCancel(context.Background())
						cv := &cancellingVerifier{inner: c14ring, after: after, cancel: cancel}
						var ca, cs []gmsl.PDU
						var cerr error
						site, msg, pan := mon.Guard(func() {
							ca, cs, cerr = gmsl.CheckStateResponse(ctx, resp, sc.s.ver, cv, mkProvider(mode, pool, &asked), userIDForSender)
						})
						cancel()
						c.Count("state_responses_given_up_mid_batch")
						if pan {
							c.Failf("stateresponse:panic:"+site, "CheckStateResponse panics when its context ends mid-batch: %s", msg)
							break
						}
						if cerr != nil {
							continue
						}
						bad := map[string]bool{}
						for _, it := range all {
							if it.pdu != nil && !it.sigGood {
								bad[it.pdu.EventID()] = true
							}
						}
						for _, it := range all {
							if it.pdu != nil && it.sigGood {
								delete(bad, it.pdu.EventID()) // an intact copy of the same event is in the response too
							}
						}
						for _, p := range append(append([]gmsl.PDU{}, ca...), cs...) {
							if bad[p.EventID()] {
								c.Failf("stateresponse:returns-bad-event:context-ended-mid-batch", "CheckStateResponse, its context cancelled after %d calls to the key ring, returned without error and handed out %s (%s), whose signature is invalid; faults %v", after, p.EventID(), p.Type(), desc)
								break
							}
						}
					}
				}
				check := func(kind string, in []respItem, out []gmsl.PDU, skip map[int]bool) {
					outIDs := map[string]bool{}
					for _, p := range out {
						outIDs[p.EventID()] = true
					}
					dropped := 0
					for i, it := range in {
						if skip[i] || it.pdu == nil {
							continue
						}
						id := it.pdu.EventID()
						wantCopy := want[id] && it.sigGood // this copy: good signatures, and the event is allowed
						if outIDs[id] && !wantCopy {
							why := "fails the auth check against its available auth events"
							if !it.sigGood {
								why = "has an invalid signature"
							}
							c.Failf("stateresponse:returns-bad-"+kind+"-event:"+faultKinds(desc), "CheckStateResponse returned %s event %s (%s) which %s; faults %v, provider %s", kind, id, it.pdu.Type(), why, desc, provNames[mode])
						}
						if !outIDs[id] && wantCopy {
							c.Failf("stateresponse:drops-good-"+kind+"-event:"+faultKinds(desc), "CheckStateResponse dropped %s event %s (%s) although its signature is valid and its available auth events allow it; faults %v, provider %s", kind, id, it.pdu.Type(), desc, provNames[mode])
						}
						if !wantCopy {
							dropped++
						}
					}
					if dropped > 0 {
						c.Count("state_responses_with_dropped_events")
					}
					for id := range outIDs {
						found := false
						for i, it := range in {
							if !skip[i] && it.pdu != nil && it.pdu.EventID() == id {
								found = true
							}
						}
						if !found {
							c.Failf("stateresponse:returns-foreign-event", "CheckStateResponse returned %s which was not in the %s list", id, kind)
						}
					}
				}
				check("state", stItems, gotState, nil)
				check("auth", auItems, gotAuth, removedAuth)
				if c.WantSample() && len(desc) > 0 {
					c.Sample(dd)
				}
			})
		}
	}
	// a second, hash-broken copy of a state event among the auth events: it parses as the event's redacted form (same
	// ID, signatures still valid) and is judged as such; the intact copy in the state is judged on what IT says, and
	// every other event exactly as without the extra copy
	{
		var resp0 rawResp
		for _, p := range state {
			resp0.state = append(resp0.state, p.JSON())
		}
		for _, p := range auth {
			resp0.auth = append(resp0.auth, p.JSON())
		}
		var victims []gmsl.PDU
		for _, p := range state {
			if p.Type() == "m.room.member" && strings.Contains(string(p.Content()), "join_authorised_via_users_server") {
				victims = append(victims, p)
			}
		}
		for _, p := range gen.Shuffled(r, state) {
			if len(victims) < 3 && p.Type() != "m.room.create" {
				victims = append(victims, p)
			}
		}
		for _, victim := range victims {
			tv := ref.MustParse(victim.JSON())
			tv.Get("content").Set("zz_added_after_signing", ref.I(1))
			broken := gen.Plain().Bytes(tv)
			bp, err := sc.s.impl.NewEventFromUntrustedJSON(broken)
			if err != nil || !bp.Redacted() || bp.EventID() != victim.EventID() {
				continue
			}
			resp := rawResp{state: resp0.state, auth: append(append(gmsl.EventJSONs{}, resp0.auth...), broken)}
			if r.Chance(0.5) {
				resp.auth = append(gmsl.EventJSONs{broken}, resp0.auth...)
			}
			c.Case("state-response:redacted-copy-listed-too:"+string(sc.s.ver), map[string]any{"version": sc.s.ver, "victim": victim.Type(), "victim_id": victim.EventID()}, func() {
				c.Nontrivial(fmt.Sprintf("%s|redacted-copy|%s", sc.s.ver, victim.EventID()))
				var asked []string
				var base, got []gmsl.PDU
				var err0, err1 error
				site, msg, pan := mon.Guard(func() {
					_, base, err0 = gmsl.CheckStateResponse(context.Background(), resp0, sc.s.ver, c14ring, mkProvider(provReturns, sc.s.all, &asked), userIDForSender)
					_, got, err1 = gmsl.CheckStateResponse(context.Background(), resp, sc.s.ver, c14ring, mkProvider(provReturns, sc.s.all, &asked), userIDForSender)
				})
				if pan {
					c.Failf("stateresponse:panic:"+site, "CheckStateResponse panics: %s", msg)
					return
				}
				c.Count("state_responses")
				c.Count("state_responses_with_a_redacted_copy")
				if err0 != nil || err1 != nil {
					c.Failf("stateresponse:unexpected-error", "CheckStateResponse fails: %v / %v", err0, err1)
					return
				}
				if fmt.Sprint(idsOf(base)) != fmt.Sprint(idsOf(got)) {
					c.Failf("stateresponse:drops-good-state-event:redacted-copy-among-auth-events", "with a hash-broken (hence redacted) copy of %s %s added to the auth events, CheckStateResponse returns the state %v; without it %v", victim.Type(), victim.EventID(), idsOf(got), idsOf(base))
				}
				for _, p := range got {
					if p.EventID() == victim.EventID() && p.Redacted() {
						c.Failf("stateresponse:returns-redacted-copy-as-state", "the state event %s comes back as the redacted copy that was listed among the auth events", victim.EventID())
					}
				}
			})
		}
	}
	// ... and the other way round: the state lists the hash-broken (redacted) copy, the intact event stands among the
	// auth events. The copy in the state is judged on what IT says - it is returned or dropped exactly as it is when the
	// intact copy is not in the response at all
	{
		// (first the events whose redacted form their own auth events refuse: there the two copies differ in verdict)
		var victims []gmsl.PDU
		for _, p := range state {
			if p.Type() == "m.room.create" {
				continue
			}
			rv := ref.Redact(sc.s.t.Redaction, ref.MustParse(p.JSON()))
			rp, err := sc.s.impl.NewEventFromTrustedJSONWithEventID(p.EventID(), gen.Plain().Bytes(rv), true)
			if err != nil {
				continue
			}
			var cited []gmsl.PDU
			for _, id := range p.AuthEventIDs() {
				if a := sc.s.all[id]; a != nil {
					cited = append(cited, a)
				}
			}
			if allowedBy(p, cited) && !allowedBy(rp, cited) {
				victims = append(victims, p)
				c.Count("state_events_whose_redacted_form_is_refused")
			}
		}
		for _, p := range gen.Shuffled(r, state) {
			if len(victims) < 3 && p.Type() != "m.room.create" {
				victims = append(victims, p)
			}
		}
		for _, victim := range victims {
			c14RedactedCopyInState(c, r, sc.s, state, auth, victim)
		}
	}
	// whole-response faults
	msgEv, _ := sc.s.propose(b.clone(), "m.room.message", nil, sc.s.users[0], ref.O("body", ref.S("x")), false)
	for _, kind := range []string{"non-state-in-state", "non-state-in-auth", "duplicate-state-key", "same-state-event-twice", "state-event-and-its-hash-broken-copy", "malformed-element", "empty-response"} {
		var resp rawResp
		for _, p := range state {
			resp.state = append(resp.state, p.JSON())
		}
		for _, p := range auth {
			resp.auth = append(resp.auth, p.JSON())
		}
		wantErr := true
		switch kind {
		case "non-state-in-state":
			if msgEv == nil {
				continue
			}
			resp.state = append(resp.state, msgEv.JSON())
		case "non-state-in-auth":
			if msgEv == nil {
				continue
			}
			resp.auth = append(resp.auth, msgEv.JSON())
		case "duplicate-state-key":
			var dup gmsl.PDU
			for _, p := range sc.s.order {
				if cur, ok := b.state[stKey{p.Type(), deref(p.StateKey())}]; ok && p.StateKey() != nil && cur.EventID() != p.EventID() {
					dup = p
				}
			}
			if dup == nil {
				continue
			}
			resp.state = append(resp.state, dup.JSON())
		case "same-state-event-twice", "state-event-and-its-hash-broken-copy":
			// the state list names one (type, state key) twice - with the very same event, or with a copy of it whose
			// content hash does not match (the redacted form, same event ID)
			var victim gmsl.PDU
			for _, p := range gen.Shuffled(r, state) {
				if p.Type() != "m.room.create" {
					victim = p
					break
				}
			}
			if victim == nil {
				continue
			}
			if kind == "same-state-event-twice" {
				resp.state = append(resp.state, victim.JSON())
			} else {
				tv := ref.MustParse(victim.JSON())
				tv.Get("content").Set("zz_added_after_signing", ref.I(1))
				resp.state = append(resp.state, gen.Plain().Bytes(tv))
			}
		case "malformed-element":
			resp.state = append(resp.state, []byte(`{"type":"m.room.topic",`), []byte(`null`), []byte(`[]`))
			resp.auth = append(resp.auth, []byte(`garbage`))
			wantErr = false
		case "empty-response":
			resp = rawResp{}
			wantErr = false
		}
		c.Case("state-response-whole:"+kind, map[string]any{"version": sc.s.ver, "fault": kind}, func() {
			c.Nontrivial(fmt.Sprintf("%s|whole|%s|%v", sc.s.ver, kind, idsOf(state)))
			var asked []string
			var gs []gmsl.PDU
			var err error
			site, msg, pan := mon.Guard(func() {
				_, gs, err = gmsl.CheckStateResponse(context.Background(), resp, sc.s.ver, c14ring, mkProvider(provReturns, sc.s.all, &asked), userIDForSender)
			})
			if pan {
				c.Failf("stateresponse:panic:"+site, "CheckStateResponse panics (%s): %s", kind, msg)
				return
			}
			c.Count("state_responses")
			if wantErr && err == nil {
				c.Failf("stateresponse:accepts:"+kind, "CheckStateResponse accepted a response with a %s", kind)
			}
			if !wantErr && err != nil {
				c.Failf("stateresponse:rejects:"+kind, "CheckStateResponse failed on %s: %v", kind, err)
			}
			if kind == "malformed-element" && err == nil && len(gs) != len(state) {
				c.Failf("stateresponse:malformed-element-changes-result", "malformed elements must simply be ignored: %d state events returned, %d valid ones sent", len(gs), len(state))
			}
		})
	}
}

func faultKinds(desc []string) string {
	ks := map[string]bool{}
	for _, d := range desc {
		ks[strings.SplitN(d, "@", 2)[0]] = true
		if strings.HasPrefix(d, "auth-removed") {
			ks["auth-removed"] = true
			delete(ks, d)
		}
	}
	out := []string{}
	for k := range ks {
		if !strings.Contains(k, "[") {
			out = append(out, k)
		}
	}
	sort.Strings(out)
	if len(out) == 0 {
		return "no-fault"
	}
	return strings.Join(out, "+")
}

func c14SendJoin(c *mon.Ctx, r *gen.Rand, sc *simScenario) {
	s := sc.s
	resident := gen.Pick(r, sc.branches)
	stale := sc.trunk
	state := resident.list()
	auth := authClosure(s.all, state)
	for _, user := range s.users[1:] {
		for _, against := range []*simBranch{resident, stale} {
			// the join event is built against one view of the room and checked against the resident's state
			eb := s.impl.NewEventBuilderFromProtoEvent(&gmsl.ProtoEvent{SenderID: user, RoomID: s.roomID, Type: "m.room.member", StateKey: strp(user), PrevEvents: []string{against.tip}, Depth: against.depth + 1,
				Content: []byte(`{"membership":"join"}`)})
			if err := eb.AddAuthEvents(s.provider(against)); err != nil {
				continue
			}
			id := serverIdentity(serverOf(user))
			join, err := eb.Build(baseTime, spec.ServerName(id.Server), gmsl.KeyID(id.KeyID), id.Priv)
			if err != nil {
				continue
			}
			// the response as it is, and with one event the join depends on moved from the state to the auth-event list: the
			// returned state then lacks it, and what is among the auth events must not stand in for it
			type variant struct {
				label string
				state []gmsl.PDU
				auth  []gmsl.PDU
			}
			variants := []variant{{"whole-state", state, auth}}
			needed := map[gmsl.StateKeyTuple]bool{}
			for _, tup := range gmsl.StateNeededForAuth([]gmsl.PDU{join}).Tuples() {
				needed[tup] = true
			}
			for _, p := range gen.Shuffled(r, state) {
				if len(variants) >= 3 {
					break
				}
				if p.Type() == "m.room.create" || !needed[gmsl.StateKeyTuple{EventType: p.Type(), StateKey: *p.StateKey()}] {
					continue
				}
				var rest []gmsl.PDU
				for _, q := range state {
					if q != p {
						rest = append(rest, q)
					}
				}
				moved := append([]gmsl.PDU{}, auth...)
				have := false
				for _, q := range auth {
					if q.EventID() == p.EventID() {
						have = true
					}
				}
				if !have {
					moved = append(moved, p)
				}
				variants = append(variants, variant{"state-without-" + p.Type(), rest, moved})
			}
			// the state lists a hash-broken copy of an event the join depends on (it parses as the redacted form, same ID,
			// signatures valid) while the intact event is among the auth events: the join's own auth events are the intact
			// ones - both arrived with verified signatures, the intact one stands for the event - and the returned state
			// is what it is, redacted copy included
			for _, p := range gen.Shuffled(r, state) {
				if len(variants) >= 5 {
					break
				}
				if !needed[gmsl.StateKeyTuple{EventType: p.Type(), StateKey: *p.StateKey()}] || (p.Type() != "m.room.power_levels" && p.Type() != "m.room.create" && p.Type() != "m.room.join_rules") {
					continue
				}
				tv := ref.MustParse(p.JSON())
				tv.Get("content").Set("zz_added_after_signing", ref.I(1))
				bp, err := s.impl.NewEventFromUntrustedJSON(gen.Plain().Bytes(tv))
				if err != nil || !bp.Redacted() || bp.EventID() != p.EventID() {
					continue
				}
				var st2 []gmsl.PDU
				for _, q := range state {
					if q == p {
						st2 = append(st2, bp)
					} else {
						st2 = append(st2, q)
					}
				}
				au2 := append([]gmsl.PDU{}, auth...)
				have := false
				for _, q := range auth {
					if q.EventID() == p.EventID() {
						have = true
					}
				}
				if !have {
					au2 = append(au2, p)
				}
				variants = append(variants, variant{"state-holds-redacted-copy-of-" + p.Type(), st2, au2})
			}
			for _, v := range variants {
				state, auth, label := v.state, v.auth, v.label
				var resp rawResp
				for _, p := range state {
					if p.Redacted() {
						tv := ref.MustParse(s.all[p.EventID()].JSON())
						tv.Get("content").Set("zz_added_after_signing", ref.I(1))
						resp.state = append(resp.state, gen.Plain().Bytes(tv))
						continue
					}
					resp.state = append(resp.state, p.JSON())
				}
				for _, p := range auth {
					resp.auth = append(resp.auth, p.JSON())
				}
				var own []gmsl.PDU
				inResp := map[string]gmsl.PDU{}
				for _, p := range append(append([]gmsl.PDU{}, state...), auth...) {
					if prev, ok := inResp[p.EventID()]; !ok || (prev.Redacted() && !p.Redacted()) {
						inResp[p.EventID()] = p
					}
				}
				for _, a := range join.AuthEventIDs() {
					if p, ok := inResp[a]; ok {
						own = append(own, p)
					} else if p, ok := s.all[a]; ok {
						own = append(own, p) // provider returns it
					}
				}
				byOwn := allowedBy(join, own)
				byState := allowedBy(join, state)
				view := "resident-state"
				if against == stale {
					view = "stale-state"
				}
				name := fmt.Sprintf("send-join:%s", s.ver)
				c.Case(name, map[string]any{"version": s.ver, "user": user, "built_against": view, "response": label, "allowed_by_own_auth_events": byOwn, "allowed_by_returned_state": byState}, func() {
					c.Nontrivial(fmt.Sprintf("%s|sj|%s|%s|%s|%v", s.ver, user, view, label, idsOf(state)))
					var asked []string
					var out gmsl.StateResponse
					var err error
					site, msg, pan := mon.Guard(func() {
						out, err = gmsl.CheckSendJoinResponse(context.Background(), s.ver, resp, c14ring, join, mkProvider(provReturns, s.all, &asked), userIDForSender)
					})
					if pan {
						c.Failf("sendjoin:panic:"+site, "CheckSendJoinResponse panics: %s", msg)
						return
					}
					c.Count("send_join_checks")
					c.Count(fmt.Sprintf("send_join_own=%v_state=%v", byOwn, byState))
					want := byOwn && byState
					if want && err != nil {
						c.Failf("sendjoin:rejects-allowed-join", "CheckSendJoinResponse refuses a join allowed by its auth events and by the returned state: %v", err)
					}
					if !want && err == nil {
						c.Failf(fmt.Sprintf("sendjoin:accepts-join:own=%v:state=%v", byOwn, byState), "CheckSendJoinResponse accepts a join of %s that is allowed by its own auth events: %v, by the returned state: %v (response: %s)", user, byOwn, byState, label)
					}
					if err == nil && out != nil && len(out.GetStateEvents()) != len(state) {
						got := map[string]bool{}
						for _, ej := range out.GetStateEvents() {
							if q, err := s.impl.NewEventFromTrustedJSON(ej, false); err == nil {
								got[q.EventID()] = true
							}
						}
						// what is not returned has failed a check: here that can only be a copy with a broken hash (the redacted
						// form of the event) that its own auth events no longer allow
						missing := []string{}
						for _, p := range state {
							if got[p.EventID()] {
								continue
							}
							var pown []gmsl.PDU
							for _, a := range p.AuthEventIDs() {
								if q, ok := inResp[a]; ok {
									pown = append(pown, q)
								} else if q, ok := s.all[a]; ok {
									pown = append(pown, q)
								}
							}
							if p.Redacted() && !allowedBy(p, pown) {
								c.Count("send_join_redacted_copy_dropped_as_not_allowed")
								continue
							}
							missing = append(missing, fmt.Sprintf("%s %s[%s] (redacted copy: %v)", p.EventID(), p.Type(), *p.StateKey(), p.Redacted()))
						}
						if len(missing) > 0 {
							c.Failf("sendjoin:state-not-returned", "accepted send_join returns %d state events of %d (response: %s); not returned although they pass both checks: %v", len(out.GetStateEvents()), len(state), label, missing)
						}
					}
				})
			}
		}
	}
}

// c14SendJoinRedactedPowerLevels: a restricted join authorised via a user who lacks the invite level. The resident
// sends the intact power-levels event among the auth events and, in the state, a copy with a broken content hash:
// that copy parses as the redacted event, which in the redaction algorithms before v11 has lost "invite" (default 0).
// The join's auth events are the events that arrived intact: it is not allowed by them, whatever the state says.
func c14SendJoinRedactedPowerLevels(c *mon.Ctx, r *gen.Rand, sc *simScenario) {
	s := sc.s
	if !s.t.Restricted || s.t.Redaction >= 5 {
		return
	}
	b := sc.trunk.clone()
	creator := s.users[0]
	var via string
	for _, u := range s.users[1:] {
		if s.membership(b, u) == "join" {
			via = u
		}
	}
	if via == "" {
		return
	}
	users := ref.O(creator, ref.I(100))
	if _, ok := s.propose(b, "m.room.power_levels", strp(""), creator, ref.O("users", users, "invite", ref.I(50), "state_default", ref.I(50), "users_default", ref.I(0)), false); !ok {
		return
	}
	if _, ok := s.propose(b, "m.room.join_rules", strp(""), creator, ref.O("join_rule", ref.S("restricted"), "allow", ref.A(ref.O("type", ref.S("m.room_membership"), "room_id", ref.S("!allowed:origin.example")))), false); !ok {
		return
	}
	joiner := "@latecomer:" + serverOf(s.users[2])
	eb := s.impl.NewEventBuilderFromProtoEvent(&gmsl.ProtoEvent{SenderID: joiner, RoomID: s.roomID, Type: "m.room.member", StateKey: strp(joiner), PrevEvents: []string{b.tip}, Depth: b.depth + 1,
		Content: []byte(fmt.Sprintf(`{"membership":"join","join_authorised_via_users_server":%q}`, via))})
	if err := eb.AddAuthEvents(s.provider(b)); err != nil {
		return
	}
	jid := serverIdentity(serverOf(joiner))
	join, err := eb.Build(baseTime, spec.ServerName(jid.Server), gmsl.KeyID(jid.KeyID), jid.Priv)
	if err != nil {
		return
	}
	if vid := serverIdentity(serverOf(via)); vid.Server != jid.Server {
		join = join.Sign(vid.Server, gmsl.KeyID(vid.KeyID), vid.Priv)
	}
	state := b.list()
	auth := authClosure(s.all, state)
	pl := b.state[stKey{"m.room.power_levels", ""}]
	if allowedBy(join, state) {
		return // the authoriser can invite after all
	}
	tv := ref.MustParse(pl.JSON())
	tv.Get("content").Set("zz_added_after_signing", ref.I(1))
	broken := gen.Plain().Bytes(tv)
	bp, err := s.impl.NewEventFromUntrustedJSON(broken)
	if err != nil || !bp.Redacted() || bp.EventID() != pl.EventID() {
		return
	}
	for _, order := range []string{"intact-among-auth-events", "intact-among-auth-events-listed-last", "both-copies-among-auth-events-redacted-last", "both-copies-among-auth-events-redacted-first"} {
		var resp rawResp
		for _, p := range state {
			if p == pl {
				resp.state = append(resp.state, broken)
			} else {
				resp.state = append(resp.state, p.JSON())
			}
		}
		for _, p := range auth {
			if p.EventID() != pl.EventID() {
				resp.auth = append(resp.auth, p.JSON())
			}
		}
		switch order {
		case "intact-among-auth-events":
			resp.auth = append(gmsl.EventJSONs{pl.JSON()}, resp.auth...)
		case "intact-among-auth-events-listed-last":
			resp.auth = append(resp.auth, pl.JSON())
		case "both-copies-among-auth-events-redacted-last":
			resp.auth = append(append(gmsl.EventJSONs{pl.JSON()}, resp.auth...), broken)
		default:
			resp.auth = append(append(gmsl.EventJSONs{broken}, resp.auth...), pl.JSON())
		}
		c.Case("send-join:redacted-power-levels-in-state:"+string(s.ver), map[string]any{"version": s.ver, "authoriser": via, "order": order}, func() {
			c.Nontrivial(fmt.Sprintf("%s|sj-redacted-pl|%s|%s", s.ver, join.EventID(), order))
			var asked []string
			var err error
			site, msg, pan := mon.Guard(func() {
				_, err = gmsl.CheckSendJoinResponse(context.Background(), s.ver, resp, c14ring, join, mkProvider(provReturns, s.all, &asked), userIDForSender)
			})
			if pan {
				c.Failf("sendjoin:panic:"+site, "CheckSendJoinResponse panics: %s", msg)
				return
			}
			c.Count("send_join_checks")
			c.Count("send_join_with_redacted_power_levels_in_state")
			if err == nil {
				c.Failf("sendjoin:accepts-join:own=false:redacted-copy-stood-for-the-auth-event", "CheckSendJoinResponse accepts a restricted join authorised via %s, who lacks the invite level of the power-levels event %s that arrived intact among the auth events; the state lists a hash-broken copy of that event, whose redacted form has no invite level (%s)", via, pl.EventID(), order)
			}
		})
	}
	// the same room through CheckStateResponse: the join is one of the state events, the power-levels event arrives
	// twice - intact and as a hash-broken copy - in either list and either order. The intact copy stands for the event:
	// the join is judged against it and dropped.
	for _, order := range []string{"redacted-among-auth-events-intact-in-state", "intact-among-auth-events-redacted-in-state", "redacted-first-among-auth-events", "intact-first-among-auth-events"} {
		var resp rawResp
		for _, p := range state {
			switch {
			case p != pl:
				resp.state = append(resp.state, p.JSON())
			case order == "intact-among-auth-events-redacted-in-state":
				resp.state = append(resp.state, broken)
			default:
				resp.state = append(resp.state, pl.JSON())
			}
		}
		resp.state = append(resp.state, join.JSON())
		for _, p := range auth {
			if p.EventID() != pl.EventID() {
				resp.auth = append(resp.auth, p.JSON())
			}
		}
		switch order {
		case "redacted-among-auth-events-intact-in-state":
			resp.auth = append(gmsl.EventJSONs{broken}, resp.auth...)
		case "intact-among-auth-events-redacted-in-state":
			resp.auth = append(gmsl.EventJSONs{pl.JSON()}, resp.auth...)
		case "redacted-first-among-auth-events":
			resp.auth = append(append(gmsl.EventJSONs{broken}, resp.auth...), pl.JSON())
		default:
			resp.auth = append(append(gmsl.EventJSONs{pl.JSON()}, resp.auth...), broken)
		}
		c.Case("state-response:redacted-and-intact-power-levels:"+string(s.ver), map[string]any{"version": s.ver, "authoriser": via, "order": order}, func() {
			c.Nontrivial(fmt.Sprintf("%s|sr-redacted-pl|%s|%s", s.ver, join.EventID(), order))
			var asked []string
			var gs []gmsl.PDU
			var err error
			site, msg, pan := mon.Guard(func() {
				_, gs, err = gmsl.CheckStateResponse(context.Background(), resp, s.ver, c14ring, mkProvider(provReturns, s.all, &asked), userIDForSender)
			})
			if pan {
				c.Failf("stateresponse:panic:"+site, "CheckStateResponse panics: %s", msg)
				return
			}
			c.Count("state_responses_with_redacted_and_intact_power_levels")
			if err != nil {
				return // a whole-response refusal hands nothing out
			}
			for _, p := range gs {
				if p.EventID() == join.EventID() {
					c.Failf("stateresponse:returns-bad-state-event:redacted-copy-stood-for-the-auth-event", "CheckStateResponse hands out a restricted join authorised via %s, who lacks the invite level of the power-levels event %s that arrived intact; a hash-broken copy of that event, whose redacted form has no invite level, arrived too (%s)", via, pl.EventID(), order)
				}
			}
		})
	}
}

// chainOK is the recursive definition VerifyEventAuthChain implements.
func chainOK(ev gmsl.PDU, pool map[string]gmsl.PDU, memo map[string]bool, depth int) bool {
	if v, ok := memo[ev.EventID()]; ok {
		return v
	}
	memo[ev.EventID()] = true // cycles cannot occur; guard anyway
	var auth []gmsl.PDU
	ok := true
	for _, a := range ev.AuthEventIDs() {
		if p, have := pool[a]; have {
			auth = append(auth, p)
		}
	}
	if !allowedBy(ev, auth) {
		ok = false
	}
	if ok {
		for _, p := range auth {
			if !chainOK(p, pool, memo, depth+1) {
				ok = false
				break
			}
		}
	}
	memo[ev.EventID()] = ok
	return ok
}

func c14AuthChain(c *mon.Ctx, r *gen.Rand, sc *simScenario) {
	s := sc.s
	b := gen.Pick(r, sc.branches)
	state := b.list()
	for i := 0; i < 6; i++ {
		ev := gen.Pick(r, state)
		pool := map[string]gmsl.PDU{}
		for id, p := range s.all {
			pool[id] = p
		}
		fault := gen.Pick(r, []string{"none", "none", "link-removed", "link-replaced-by-disallowed", "provider-error"})
		detail := ""
		switch fault {
		case "link-removed":
			chain := authClosure(s.all, []gmsl.PDU{ev})
			if len(chain) == 0 {
				continue
			}
			v := gen.Pick(r, chain)
			delete(pool, v.EventID())
			detail = v.Type()
		case "link-replaced-by-disallowed":
			// make the event cite a refused event: take a refused event itself as the event to verify
			if len(s.refused) == 0 {
				continue
			}
			ev = gen.Pick(r, s.refused)
			detail = ev.Type()
		}
		if r.Chance(0.25) {
			// an event that cites no auth events at all and is not a create event (a forged power-levels event), verified
			// itself or cited by an otherwise ordinary event: only the create event is allowed by nothing
			u := gen.Pick(r, s.users[1:])
			uid := serverIdentity(serverOf(u))
			forgedB := s.impl.NewEventBuilderFromProtoEvent(&gmsl.ProtoEvent{SenderID: u, RoomID: s.roomID, Type: "m.room.power_levels", StateKey: strp(""), PrevEvents: []string{b.tip}, AuthEvents: []string{}, Depth: b.depth + 1,
				Content: []byte(`{"users":{"` + u + `":100}}`)})
			if forged, err := forgedB.Build(baseTime, spec.ServerName(uid.Server), gmsl.KeyID(uid.KeyID), uid.Priv); err == nil && len(forged.AuthEventIDs()) == 0 {
				pool[forged.EventID()] = forged
				ev, fault, detail = forged, "cites-no-auth-events", "itself"
				if member := b.state[stKey{"m.room.member", u}]; member != nil && r.Chance(0.6) {
					citing := s.impl.NewEventBuilderFromProtoEvent(&gmsl.ProtoEvent{SenderID: u, RoomID: s.roomID, Type: "m.room.topic", StateKey: strp(""), PrevEvents: []string{b.tip}, Depth: b.depth + 2,
						AuthEvents: []string{s.create.EventID(), forged.EventID(), member.EventID()}, Content: []byte(`{"topic":"x"}`)})
					if s.t.Domainless {
						citing.AuthEvents = []string{forged.EventID(), member.EventID()}
					}
					if ce, err := citing.Build(baseTime, spec.ServerName(uid.Server), gmsl.KeyID(uid.KeyID), uid.Priv); err == nil && s.t.EventIDFormat >= 2 {
						ev, detail = ce, "an auth event of the event"
					}
				}
			}
		}
		mode := provReturns
		if fault == "provider-error" {
			mode = provErrors
		}
		// the refused event of the history below
		var poison gmsl.PDU
		poisonPool := map[string]gmsl.PDU{}
		{
			sender := string(ev.SenderID())
			var msgEv gmsl.PDU
			{
				uid := serverIdentity(serverOf(sender))
				mb := s.impl.NewEventBuilderFromProtoEvent(&gmsl.ProtoEvent{SenderID: sender, RoomID: s.roomID, Type: "m.room.message", PrevEvents: []string{b.tip}, Depth: b.depth + 2,
					AuthEvents: []string{s.create.EventID()}, Content: []byte(`{"body":"hi"}`)})
				if s.t.Domainless {
					mb.AuthEvents = []string{}
				}
				if me, err := mb.Build(baseTime, spec.ServerName(uid.Server), gmsl.KeyID(uid.KeyID), uid.Priv); err == nil {
					msgEv = me
				}
			}
			if msgEv != nil {
				cite := []string{}
				if !s.t.Domainless {
					cite = append(cite, s.create.EventID())
				}
				for _, k := range []stKey{{"m.room.member", sender}, {"m.room.power_levels", ""}, {"m.room.join_rules", ""}} {
					if p := b.state[k]; p != nil {
						cite = append(cite, p.EventID())
					}
				}
				cite = append(cite, msgEv.EventID())
				uid := serverIdentity(serverOf(sender))
				pb := s.impl.NewEventBuilderFromProtoEvent(&gmsl.ProtoEvent{SenderID: sender, RoomID: s.roomID, Type: "m.room.topic", StateKey: strp(""), PrevEvents: []string{b.tip}, Depth: b.depth + 3,
					AuthEvents: cite, Content: []byte(`{"topic":"p"}`)})
				if pe, err := pb.Build(baseTime, spec.ServerName(uid.Server), gmsl.KeyID(uid.KeyID), uid.Priv); err == nil {
					poison = pe
					for id, p := range s.all {
						poisonPool[id] = p
					}
					poisonPool[msgEv.EventID()] = msgEv
				}
			}
		}
		c.Case("auth-chain:"+string(s.ver), map[string]any{"version": s.ver, "event": ev.Type(), "fault": fault, "detail": detail}, func() {
			if fault != "none" {
				c.Nontrivial(fmt.Sprintf("%s|chain|%s|%s|%s", s.ver, ev.EventID(), fault, detail))
			}
			want := chainOK(ev, pool, map[string]bool{}, 0)
			if mode == provErrors {
				want = len(ev.AuthEventIDs()) == 0 && allowedBy(ev, nil)
			}
			var asked []string
			var err error
			site, msg, pan := mon.Guard(func() {
				err = gmsl.VerifyEventAuthChain(context.Background(), ev, mkProvider(mode, pool, &asked), userIDForSender)
			})
			if pan {
				c.Failf("authchain:panic:"+site, "VerifyEventAuthChain panics: %s", msg)
				return
			}
			c.Count("auth_chain_checks")
			c.Count(fmt.Sprintf("auth_chain_expected_%v", want))
			if want != (err == nil) {
				dir := "rejects-valid-chain"
				if err == nil {
					dir = "accepts-broken-chain"
				}
				c.Failf("authchain:"+dir+":"+fault, "VerifyEventAuthChain(%s %s) = %v, the recursive definition says ok=%v (fault %s %s)", ev.Type(), ev.EventID(), err, want, fault, detail)
			}
			// a fault: the caller gives up while the chain is being walked (the provider is asked, and the context ends).
			// Whatever is returned then, it is not "verified" for a chain that does not verify.
			if !want && mode == provReturns {
				for _, after := range []int{1, 2, 3} {
					ctx, cancel := context.WithCancel(context.Background())
					n := 0
					inner := mkProvider(mode, pool, &asked)
					prov := func(roomVer gmsl.RoomVersion, eventIDs []string) ([]gmsl.PDU, error) {
						n++
						if n >= after {
							cancel()
						}
						return inner(roomVer, eventIDs)
					}
					var cerr error
					site, msg, pan := mon.Guard(func() { cerr = gmsl.VerifyEventAuthChain(ctx, ev, prov, userIDForSender) })
					cancel()
					c.Count("auth_chain_checks_given_up_during_the_walk")
					if pan {
						c.Failf("authchain:panic:"+site, "VerifyEventAuthChain panics when its context ends during the walk: %s", msg)
					} else if cerr == nil && n >= after {
						c.Failf("authchain:accepts-broken-chain:context-ended-during-the-walk", "VerifyEventAuthChain(%s %s), its context cancelled at the provider's call %d, returns nil for a chain that does not verify (fault %s %s)", ev.Type(), ev.EventID(), after, fault, detail)
					}
				}
			}
			// a history: between two verifications of this event, another event of the same sender is verified and refused
			// on the way (it cites a message among its auth events, after the room's create / member / power-levels /
			// join-rules events). Nothing of that may be left over for the next question.
			if poison != nil && mode == provReturns {
				for round := 0; round < 3; round++ {
					var perr, err2 error
					site, msg, pan := mon.Guard(func() {
						perr = gmsl.VerifyEventAuthChain(context.Background(), poison, mkProvider(provReturns, poisonPool, &asked), userIDForSender)
						err2 = gmsl.VerifyEventAuthChain(context.Background(), ev, mkProvider(mode, pool, &asked), userIDForSender)
					})
					if pan {
						c.Failf("authchain:panic:"+site, "VerifyEventAuthChain panics: %s", msg)
						return
					}
					c.Count("auth_chain_checks_after_a_refused_event")
					if perr == nil {
						c.Failf("authchain:accepts-broken-chain:cites-a-non-state-event", "VerifyEventAuthChain accepts an event that cites a message (no state event) among its auth events")
					}
					if (err2 == nil) != (err == nil) {
						c.Failf("authchain:history:verdict-differs-after-a-refused-event:"+fault, "VerifyEventAuthChain(%s %s) = %v when asked first and %v after another event of the same sender was verified and refused (fault %s %s)", ev.Type(), ev.EventID(), err, err2, fault, detail)
						break
					}
				}
			}
		})
	}
}

type stubStateProvider struct {
	ids   []string
	state map[string]gmsl.PDU
	idErr bool
	stErr bool
}

func (p *stubStateProvider) StateIDsBeforeEvent(ctx context.Context, event gmsl.PDU) ([]string, error) {
	if p.idErr {
		return nil, errors.New("scripted")
	}
	return p.ids, nil
}
func (p *stubStateProvider) StateBeforeEvent(ctx context.Context, roomVer gmsl.RoomVersion, event gmsl.PDU, eventIDs []string) (map[string]gmsl.PDU, error) {
	if p.stErr {
		return nil, errors.New("scripted")
	}
	out := map[string]gmsl.PDU{}
	for k, v := range p.state {
		out[k] = v
	}
	return out, nil
}

// atStateOK is the definition VerifyAuthRulesAtState implements.
func atStateOK(ev gmsl.PDU, sp *stubStateProvider, allowValidation bool) bool {
	if sp.idErr {
		return false
	}
	if allowValidation {
		all := true
		in := map[string]bool{}
		for _, id := range sp.ids {
			in[id] = true
		}
		for _, a := range ev.AuthEventIDs() {
			if !in[a] {
				all = false
			}
		}
		if all {
			return true
		}
	}
	if sp.stErr {
		return false
	}
	// "allowed by the state before it": the whole state, not just the part of it the event chose to cite
	var state []gmsl.PDU
	tuples := map[stKey]bool{}
	for _, p := range sp.state {
		if p.StateKey() == nil {
			continue
		}
		k := stKey{p.Type(), *p.StateKey()}
		if tuples[k] {
			panic("harness: the stub state holds two events for one state key")
		}
		tuples[k] = true
		state = append(state, p)
	}
	return allowedBy(ev, state)
}

func c14AuthAtState(c *mon.Ctx, r *gen.Rand, sc *simScenario, other *simScenario) {
	s := sc.s
	for i := 0; i < 8; i++ {
		b := gen.Pick(r, sc.branches)
		st := b.list()
		ev := gen.Pick(r, append(append([]gmsl.PDU{}, st...), s.refused...))
		// the "state before the event": the branch state, perturbed
		view := gen.Pick(r, sc.branches).list()
		sp := &stubStateProvider{state: map[string]gmsl.PDU{}}
		kind := gen.Pick(r, []string{"same-branch", "other-branch", "first-known-later-missing", "none-known", "ids-error", "state-error", "event-of-another-room-in-state", "event-of-another-room-in-state"})
		switch kind {
		case "event-of-another-room-in-state":
			// the state before the event names, for the power levels / join rules / a membership, an event of another
			// room: that is no state the event can be allowed by (and the event is not to be judged as if the key were empty)
			view = append([]gmsl.PDU{}, st...)
			otherState := map[stKey]gmsl.PDU{}
			for _, o := range other.branches[0].list() {
				otherState[stKey{o.Type(), *o.StateKey()}] = o
			}
			replaced := 0
			for _, idx := range r.Perm(len(view)) {
				p := view[idx]
				if o := otherState[stKey{p.Type(), *p.StateKey()}]; o != nil && p.Type() != "m.room.create" && (replaced == 0 || r.Chance(0.3)) {
					view[idx] = o
					replaced++
				}
			}
			if replaced == 0 {
				kind = "same-branch"
			}
		case "same-branch":
			view = st
		case "first-known-later-missing":
			view = st
		}
		for _, p := range view {
			sp.ids = append(sp.ids, p.EventID())
			sp.state[p.EventID()] = p
		}
		auths := ev.AuthEventIDs()
		switch kind {
		case "first-known-later-missing":
			// IDs: only the first auth event is part of the state; the state itself holds a conflicting view
			sp.ids = nil
			if len(auths) > 0 {
				sp.ids = append(sp.ids, auths[0])
			}
			other := gen.Pick(r, sc.branches).list()
			sp.state = map[string]gmsl.PDU{}
			for _, p := range other {
				sp.state[p.EventID()] = p
			}
			if len(auths) > 0 {
				if p, ok := s.all[auths[0]]; ok {
					sp.state[p.EventID()] = p
				}
			}
		case "none-known":
			sp.ids, sp.state = []string{"$unrelated"}, map[string]gmsl.PDU{}
		case "ids-error":
			sp.idErr = true
		case "state-error":
			sp.stErr = true
			sp.ids = []string{"$unrelated"}
		}
		for _, allowValidation := range []bool{true, false} {
			c.Case("auth-at-state:"+string(s.ver), map[string]any{"version": s.ver, "event": ev.Type(), "state_view": kind, "allow_validation": allowValidation}, func() {
				c.Nontrivial(fmt.Sprintf("%s|atstate|%s|%s|%v|%v", s.ver, ev.EventID(), kind, allowValidation, sp.ids))
				want := atStateOK(ev, sp, allowValidation)
				var err error
				site, msg, pan := mon.Guard(func() {
					err = gmsl.VerifyAuthRulesAtState(context.Background(), sp, ev, allowValidation, userIDForSender)
				})
				if pan {
					c.Failf("authatstate:panic:"+site, "VerifyAuthRulesAtState panics: %s", msg)
					return
				}
				c.Count("auth_at_state_checks")
				c.Count(fmt.Sprintf("auth_at_state_expected_%v", want))
				if want != (err == nil) {
					dir := "rejects"
					if err == nil {
						dir = "accepts"
					}
					c.Failf(fmt.Sprintf("authatstate:%s:%s:validation=%v", dir, kind, allowValidation), "VerifyAuthRulesAtState(%s %s) = %v, the definition says ok=%v (state view %s)", ev.Type(), ev.EventID(), err, want, kind)
				}
			})
		}
	}
}

func c14Load(c *mon.Ctx, r *gen.Rand, sc *simScenario) {
	s := sc.s
	b := gen.Pick(r, sc.branches)
	st := b.list()
	sp := &stubStateProvider{state: map[string]gmsl.PDU{}}
	for _, p := range st {
		sp.ids = append(sp.ids, p.EventID())
		sp.state[p.EventID()] = p
	}
	type in struct {
		raw    []byte
		pdu    gmsl.PDU
		expect string // ok | parse | signature | auth-chain | auth-rules
	}
	var inputs []in
	pool := s.all
	classify := func(p gmsl.PDU, sigGood bool) string {
		if !sigGood {
			return "signature"
		}
		if !chainOK(p, pool, map[string]bool{}, 0) {
			return "auth-chain"
		}
		if !atStateOK(p, sp, true) {
			return "auth-rules"
		}
		return "ok"
	}
	cands := append(append([]gmsl.PDU{}, st...), s.refused...)
	for _, ob := range sc.branches {
		if ob != b {
			cands = append(cands, ob.list()...)
		}
	}
	seen := map[string]bool{}
	for i := r.Range(4, 12); i > 0 && len(cands) > 0; i-- {
		p := gen.Pick(r, cands)
		if seen[p.EventID()] {
			continue
		}
		seen[p.EventID()] = true
		switch r.Intn(5) {
		case 0:
			inputs = append(inputs, in{raw: corruptSig(p), pdu: p, expect: classify(p, false)})
		case 1:
			inputs = append(inputs, in{raw: []byte(`{"broken":`), expect: "parse"})
			inputs = append(inputs, in{raw: p.JSON(), pdu: p, expect: classify(p, true)})
		default:
			inputs = append(inputs, in{raw: p.JSON(), pdu: p, expect: classify(p, true)})
		}
	}
	if plEv := b.state[stKey{"m.room.power_levels", ""}]; plEv != nil && s.t.Redaction < 5 && r.Chance(0.5) {
		// an event and its redacted form that the rules judge differently: a power-levels event by a mid-level user
		// that raises "invite" above their level (refused); redaction in these versions drops "invite" (allowed)
		cur := ref.MustParse(plEv.Content())
		for _, u := range s.users[1:] {
			lv, ok := cur.Get("users").Get(u).Int()
			if !ok || lv >= 100 || lv < 25 || s.membership(b, u) != "join" {
				continue
			}
			proposal := cur.Clone()
			proposal.Set("invite", ref.I(100))
			bad, accepted := s.propose(b.clone(), "m.room.power_levels", strp(""), u, proposal, true)
			if bad == nil || accepted {
				continue
			}
			pool[bad.EventID()] = bad
			tv := ref.MustParse(bad.JSON())
			tv.Get("content").Set("zz_added_after_signing", ref.I(1))
			raw := gen.Plain().Bytes(tv)
			if bp, err := s.impl.NewEventFromUntrustedJSON(raw); err == nil && bp.Redacted() && bp.EventID() == bad.EventID() {
				pair := []in{{raw: bad.JSON(), pdu: bad, expect: classify(bad, true)}, {raw: raw, pdu: bp, expect: classify(bp, true)}}
				if r.Chance(0.5) {
					pair[0], pair[1] = pair[1], pair[0]
				}
				inputs = append(inputs, pair...)
				seen[bad.EventID()] = true
			}
			break
		}
	}
	if len(inputs) == 0 {
		return
	}
	if r.Chance(0.4) {
		// a batch may list an event more than once, the copies alike or one of them with a damaged signature, in either
		// order: every input gets a result, and every copy is classified by the first check IT fails
		for _, i := range inputs {
			if i.pdu != nil {
				switch r.Intn(5) {
				case 0:
					inputs = append(inputs, i)
				case 1:
					inputs = append(inputs, in{raw: corruptSig(i.pdu), pdu: i.pdu, expect: classify(i.pdu, false)})
				case 2:
					inputs = append([]in{{raw: corruptSig(i.pdu), pdu: i.pdu, expect: classify(i.pdu, false)}}, inputs...)
				default:
					// a copy whose content hash does not match: it is the event's redacted form (same ID, signatures
					// valid), and is judged as that - which the rules may see differently from the intact event
					tv := ref.MustParse(i.pdu.JSON())
					if cv := tv.Get("content"); cv != nil && cv.K == ref.Obj {
						cv.Set("zz_added_after_signing", ref.I(1))
						raw := gen.Plain().Bytes(tv)
						if bp, err := s.impl.NewEventFromUntrustedJSON(raw); err == nil && bp.Redacted() && bp.EventID() == i.pdu.EventID() {
							cp := in{raw: raw, pdu: bp, expect: classify(bp, true)}
							if r.Chance(0.5) {
								inputs = append(inputs, cp)
							} else {
								inputs = append([]in{cp}, inputs...)
							}
						}
					}
				}
				break
			}
		}
	}
	want := map[string]int{}
	for _, i := range inputs {
		want[i.expect]++
	}
	c.Case("load:"+string(s.ver), map[string]any{"version": s.ver, "inputs": len(inputs), "expected_classes": want}, func() {
		key := []string{}
		for _, i := range inputs {
			key = append(key, i.expect)
			if i.pdu != nil {
				key = append(key, i.pdu.EventID())
			}
		}
		c.Nontrivial(string(s.ver) + "|load|" + strings.Join(key, ","))
		var raws []json.RawMessage
		for _, i := range inputs {
			raws = append(raws, i.raw)
		}
		var asked []string
		l := gmsl.NewEventsLoader(s.ver, c14ring, sp, mkProvider(provReturns, pool, &asked), false)
		var res []gmsl.EventLoadResult
		var err error
		site, msg, pan := mon.Guard(func() {
			res, err = l.LoadAndVerify(context.Background(), raws, gmsl.TopologicalOrderByPrevEvents, userIDForSender)
		})
		if pan {
			c.Failf("load:panic:"+site, "LoadAndVerify panics: %s", msg)
			return
		}
		c.Count("load_batches")
		if err != nil {
			c.Failf("load:error", "LoadAndVerify: %v", err)
			return
		}
		if len(res) != len(inputs) {
			c.Failf("load:result-count", "%d results for %d inputs", len(res), len(inputs))
			return
		}
		byID := map[string][]string{}
		parseErrs := 0
		for _, rs := range res {
			cls := "ok"
			switch rs.Error.(type) {
			case nil:
			case gmsl.SignatureErr:
				cls = "signature"
			case gmsl.AuthChainErr:
				cls = "auth-chain"
			case gmsl.AuthRulesErr:
				cls = "auth-rules"
			default:
				cls = "parse"
			}
			if rs.Event == nil && rs.Error == nil {
				c.Failf("load:empty-result", "a result carries neither an event nor an error")
				continue
			}
			if rs.Event == nil {
				if cls != "parse" {
					c.Failf("load:result-without-event", "a result classified %s carries no event", cls)
				}
				parseErrs++
				continue
			}
			byID[rs.Event.EventID()] = append(byID[rs.Event.EventID()], cls)
		}
		if parseErrs != want["parse"] {
			c.Failf("load:parse-error-count", "%d results report an error without an event, %d inputs were unparsable", parseErrs, want["parse"])
		}
		expByID := map[string][]string{}
		for _, i := range inputs {
			if i.pdu != nil {
				expByID[i.pdu.EventID()] = append(expByID[i.pdu.EventID()], i.expect)
				c.Count("load_class_" + i.expect)
			}
		}
		for id, exp := range expByID {
			got := byID[id]
			sort.Strings(exp)
			sort.Strings(got)
			switch {
			case len(got) == 0:
				c.Failf("load:input-without-result", "input %s has no result", id)
			case len(exp) > 1 && fmt.Sprint(got) != fmt.Sprint(exp):
				c.Failf("load:repeated-event-misclassified", "LoadAndVerify classifies the %d copies of %s as %v; judged each by the first check it fails they are %v", len(exp), id, got, exp)
			case fmt.Sprint(got) != fmt.Sprint(exp):
				c.Failf("load:misclassified:"+exp[0]+"-as-"+got[0], "LoadAndVerify classifies %s as %q; the first check it fails is %q", id, got[0], exp[0])
			}
		}
	})
}

// c14RedactedCopyInState: the state lists the hash-broken (redacted) copy of victim, the intact event stands among the
// auth events; the copy in the state is returned or dropped exactly as when the intact copy is not in the response.
func c14RedactedCopyInState(c *mon.Ctx, r *gen.Rand, s *sim, state, auth []gmsl.PDU, victim gmsl.PDU) {
		tv := ref.MustParse(victim.JSON())
		tv.Get("content").Set("zz_added_after_signing", ref.I(1))
		broken := gen.Plain().Bytes(tv)
		bp, err := s.impl.NewEventFromUntrustedJSON(broken)
		if err != nil || !bp.Redacted() || bp.EventID() != victim.EventID() {
			return
		}
		var without, with rawResp
		for _, p := range state {
			if p.EventID() == victim.EventID() {
				without.state = append(without.state, broken)
			} else {
				without.state = append(without.state, p.JSON())
			}
		}
		for _, p := range auth {
			if p.EventID() != victim.EventID() {
				without.auth = append(without.auth, p.JSON())
			}
		}
		with.state = without.state
		with.auth = append(append(gmsl.EventJSONs{}, without.auth...), victim.JSON())
		if r.Chance(0.5) {
			with.auth = append(gmsl.EventJSONs{victim.JSON()}, without.auth...)
		}
		c.Case("state-response:redacted-copy-in-state-intact-among-auth:"+string(s.ver), map[string]any{"version": s.ver, "victim": victim.Type(), "victim_id": victim.EventID()}, func() {
			c.Nontrivial(fmt.Sprintf("%s|redacted-copy-in-state|%s", s.ver, victim.EventID()))
			var asked []string
			var base, got []gmsl.PDU
			var err0, err1 error
			site, msg, pan := mon.Guard(func() {
				_, base, err0 = gmsl.CheckStateResponse(context.Background(), without, s.ver, c14ring, mkProvider(provNothing, nil, &asked), userIDForSender)
				_, got, err1 = gmsl.CheckStateResponse(context.Background(), with, s.ver, c14ring, mkProvider(provNothing, nil, &asked), userIDForSender)
			})
			if pan {
				c.Failf("stateresponse:panic:"+site, "CheckStateResponse panics: %s", msg)
				return
			}
			c.Count("state_responses")
			c.Count("state_responses_with_a_redacted_copy_in_state")
			if err0 != nil || err1 != nil {
				c.Failf("stateresponse:unexpected-error", "CheckStateResponse fails: %v / %v", err0, err1)
				return
			}
			has := func(ps []gmsl.PDU) bool {
				for _, p := range ps {
					if p.EventID() == victim.EventID() {
						return true
					}
				}
				return false
			}
			// (when the victim is an auth event of other state events, THEIR verdicts may differ: the intact copy is
			// the better auth event. The victim's own copy in the state cites the same auth events either way.)
			if has(base) != has(got) {
				c.Failf("stateresponse:redacted-state-copy-judged-by-the-intact-copy", "the state lists the redacted copy of %s %s: returned=%v when the intact event is among the auth events, returned=%v when it is not in the response", victim.Type(), victim.EventID(), has(got), has(base))
			}
			for _, p := range got {
				if p.EventID() == victim.EventID() && !p.Redacted() {
					c.Failf("stateresponse:returns-intact-copy-as-state", "the state lists the redacted copy of %s; the intact copy from the auth events comes back as state", victim.EventID())
				}
			}
		})
}

// c14RedactedRestrictedJoins: directed rooms in which a join was authorised by a resident user and the room version's
// redaction drops the authoriser from the content: the redacted copy of that join is refused by the very auth events
// that allow the intact one, so the two copies of one event ID must not share a verdict.
func c14RedactedRestrictedJoins(c *mon.Ctx, r *gen.Rand, versions []gmsl.RoomVersion) {
	for _, ver := range versions {
		t := ref.Traits(string(ver))
		if t == nil || !t.Restricted || ver == gmsl.RoomVersionPseudoIDs {
			continue
		}
		for k := 0; k < c.Scale(16, 160); k++ {
			s, trunk := newSim(r.Fork("restricted"), ver)
			creator := s.users[0]
			if _, ok := s.propose(trunk, "m.room.join_rules", strp(""), creator, ref.O("join_rule", ref.S("restricted"), "allow", ref.A(ref.O("type", ref.S("m.room_membership"), "room_id", ref.S("!elsewhere:origin.example")))), false); !ok {
				c.Count("restricted_join_scenarios_skipped")
				continue
			}
			var victim gmsl.PDU
			for _, u := range s.users[1:] {
				if m := s.membership(trunk, u); m == "join" || m == "ban" || m == "invite" {
					continue
				}
				if p, ok := s.propose(trunk, "m.room.member", strp(u), u, ref.O("membership", ref.S("join"), "join_authorised_via_users_server", ref.S(creator)), false); ok {
					victim = p
					break
				}
			}
			if victim == nil {
				c.Count("restricted_join_scenarios_skipped")
				continue
			}
			rv := ref.Redact(t.Redaction, ref.MustParse(victim.JSON()))
			if rv.Get("content").Get("join_authorised_via_users_server") != nil {
				c.Count("restricted_join_scenarios_authoriser_survives_redaction")
				continue
			}
			state := trunk.list()
			c.Count("restricted_join_scenarios")
			c14RedactedCopyInState(c, r, s, state, authClosure(s.all, state), victim)
		}
	}
}

// cancellingVerifier is a key ring that works, and whose caller gives up after a number of calls.
type cancellingVerifier struct {
	inner  gmsl.JSONVerifier
	after  int
	calls  int
	cancel context.CancelFunc
}

func (v *cancellingVerifier) VerifyJSONs(ctx context.Context, requests []gmsl.VerifyJSONRequest) ([]gmsl.VerifyJSONResult, error) {
	v.calls++
	res, err := v.inner.VerifyJSONs(ctx, requests)
	if v.calls >= v.after {
		v.cancel()
	}
	return res, err
}
