package main

import (
	"bytes"
	"fmt"
	"sort"
	"strings"

	gmsl "github.com/matrix-org/gomatrixserverlib"

	"verif/gen"
	"verif/mon"
	"verif/ref"
)

func init() {
	register(&propDef{
		ID:    "C01",
		Level: "exploration",
		Rule: "cases are (JSON value, textual presentation) pairs: bounded-exhaustive values (depth<=1 over 14 atoms x 6 keys, depth<=2 over 4 atoms x 3 keys) x 3 scrambled presentations, seeded random deep values x 4 presentations, grammar-broken texts, and every number-boundary literal x every registered room version; " +
			"distinct = distinct text bytes; non-trivial = the value has an object with >=2 keys, or a string/key needing an escape, or a number that is not [0-9]+",
		Assumptions: []string{"reference RFC 8259 parser and canonical encoder in harness/ref/canon.go", "math/big for numeric equality",
			"abstains on ill-formed Unicode, duplicate keys and the spelling of non-integer numbers (value preservation only)"},
		Run: runC01,
	})
}

func sortedVersions() []gmsl.RoomVersion {
	var out []gmsl.RoomVersion
	for v := range gmsl.RoomVersions() {
		out = append(out, v)
	}
	sort.Slice(out, func(i, j int) bool { return out[i] < out[j] })
	return out
}

type jsonFeatures struct {
	keyNeedsEscape bool
	strNeedsEscape bool
	negZeroPrefix  bool
	expMinusZero   bool // a literal "-0." / "-0e" / "-0E": non-zero or zero written with a leading -0
	nonPlainNumber bool
	bigObject      bool
	numClass       map[string]bool
}

func needsEscape(s string) bool {
	for _, r := range s {
		if r == '"' || r == '\\' || r < 0x20 {
			return true
		}
	}
	return false
}

func numClassOf(lit string) string {
	switch {
	case lit == "-0":
		return "neg-zero"
	case strings.ContainsAny(lit, "E"):
		return "exponent-E"
	case strings.ContainsAny(lit, "e"):
		return "exponent-e"
	case strings.Contains(lit, "."):
		if ref.NumRat(lit).IsInt() {
			return "integral-fraction"
		}
		return "fraction"
	case !ref.EnforcedOK(ref.NumLit(lit)):
		return "out-of-range"
	}
	return "integer"
}

func featuresOf(v *ref.Value) jsonFeatures {
	f := jsonFeatures{numClass: map[string]bool{}}
	ref.Walk(v, func(x *ref.Value) {
		switch x.K {
		case ref.Obj:
			if len(x.O) >= 2 {
				f.bigObject = true
			}
			for _, m := range x.O {
				if needsEscape(m.Key) {
					f.keyNeedsEscape = true
				}
			}
		case ref.Str:
			if needsEscape(x.S) {
				f.strNeedsEscape = true
			}
		case ref.Num:
			if strings.HasPrefix(x.N, "-0") && len(x.N) > 2 {
				f.negZeroPrefix = true
			}
			if strings.Contains(x.N, "e-0") || strings.Contains(x.N, "E-0") {
				f.expMinusZero = true
			}
			if !ref.PlainInt(x.N) || x.N[0] == '-' {
				f.nonPlainNumber = true
			}
			f.numClass[numClassOf(x.N)] = true
		}
	})
	return f
}

// checkCanon runs every C01 monitor on one valid text. Returns the canonical bytes.
func checkCanon(c *mon.Ctx, v *ref.Value, text []byte) []byte {
	f := featuresOf(v)
	gin, intact := mon.Guarded(text)
	out, err := gmsl.CanonicalJSON(gin)
	if d := intact(); d != "" {
		c.Failf("canon:callers-buffer-written", "CanonicalJSON(%q): %s", text, d)
	}
	if err != nil {
		c.Failf("canon:rejects-valid", "CanonicalJSON(%q) = error %v", text, err)
		return nil
	}
	c.Count("canonicalised")
	c.Retain("canon", "the result of CanonicalJSON", out)
	pv, _, perr := ref.Parse(out)
	if perr != nil {
		sig := "canon:output-invalid-json:other"
		if f.keyNeedsEscape {
			sig = "canon:output-invalid-json:key-needs-escape"
		}
		c.Failf(sig, "CanonicalJSON(%q) = %q which is not valid JSON: %v", text, out, perr)
		return out
	}
	if !ref.Equal(pv, v) {
		sig := "canon:value-changed:other"
		if f.expMinusZero {
			sig = "canon:value-changed:exponent-minus-zero"
		} else if f.keyNeedsEscape {
			sig = "canon:value-changed:key-needs-escape"
		} else if f.negZeroPrefix {
			sig = "canon:value-changed:neg-zero-prefix"
		}
		c.Failf(sig, "CanonicalJSON(%q) = %q denotes a different value", text, out)
		return out
	}
	if re := ref.Canon(pv); !bytes.Equal(re, out) {
		c.Failf("canon:not-canonical-form", "CanonicalJSON(%q) = %q; canonical form of that value is %q", text, out, re)
		return out
	}
	if !f.nonPlainNumber || onlyNegZeroNonPlain(v) {
		if want := ref.Canon(v); !bytes.Equal(want, out) {
			c.Failf("canon:differs-from-reference", "CanonicalJSON(%q) = %q, reference %q", text, out, want)
		}
	}
	out2, err := gmsl.CanonicalJSON(out)
	if err != nil || !bytes.Equal(out2, out) {
		c.Failf("canon:not-idempotent", "CanonicalJSON(%q) = %q, err %v", out, out2, err)
	}
	gin2, intact2 := mon.Guarded(text)
	av := gmsl.CanonicalJSONAssumeValid(gin2)
	if d := intact2(); d != "" {
		c.Failf("canon:callers-buffer-written", "CanonicalJSONAssumeValid(%q): %s", text, d)
	}
	if !bytes.Equal(av, out) {
		c.Failf("canon:assume-valid-differs", "CanonicalJSONAssumeValid(%q) = %q, CanonicalJSON = %q", text, av, out)
	}
	c.Retain("canon", "the result of CanonicalJSONAssumeValid", av)
	if f.keyNeedsEscape {
		c.Count("with_key_needing_escape")
	}
	if f.negZeroPrefix {
		c.Count("with_neg_zero_prefixed_number")
	}
	return out
}

func onlyNegZeroNonPlain(v *ref.Value) bool {
	ok := true
	ref.Walk(v, func(x *ref.Value) {
		if x.K == ref.Num && !ref.PlainInt(x.N) {
			ok = false
		}
	})
	return ok
}

func checkEnforced(c *mon.Ctx, _ *ref.Value, text []byte, versions []gmsl.RoomVersion) {
	// the rule is about the literals of the text ("-0" is not a canonical
	// integer literal although it denotes 0), so judge the parsed text
	v := ref.MustParse(text)
	plain, perr := gmsl.CanonicalJSON(text)
	for _, ver := range versions {
		tr := ref.Traits(string(ver))
		if tr == nil {
			continue
		}
		want := !tr.EnforceCanon || ref.EnforcedOK(v)
		out, err := gmsl.EnforcedCanonicalJSON(text, ver)
		c.Count("enforced_calls")
		if want && err != nil {
			c.Failf("enforced:rejects-valid:v"+string(ver), "EnforcedCanonicalJSON(%q, %s) = error %v", text, ver, err)
			continue
		}
		if !want && err == nil {
			// name the class of literal that is accepted on its own
			classes := []string{}
			ref.Walk(v, func(x *ref.Value) {
				if x.K != ref.Num || numClassOf(x.N) == "integer" {
					return
				}
				if _, err := gmsl.EnforcedCanonicalJSON([]byte("["+x.N+"]"), ver); err == nil {
					classes = append(classes, numClassOf(x.N))
				}
			})
			sort.Strings(classes)
			cl := "combination"
			if len(classes) > 0 {
				cl = classes[0]
			}
			c.Failf("enforced:accepts:"+cl, "EnforcedCanonicalJSON(%q, %s) accepted a text with a number that is not an integer literal within ±(2^53-1)", text, ver)
			continue
		}
		if want {
			c.Count("enforced_accept")
			c.Retain("canon", "the result of EnforcedCanonicalJSON", out)
			if perr == nil && !bytes.Equal(out, plain) {
				c.Failf("enforced:output-differs", "EnforcedCanonicalJSON(%q, %s) = %q, CanonicalJSON = %q", text, ver, out, plain)
			}
		} else {
			c.Count("enforced_reject")
		}
	}
}

func runC01(c *mon.Ctx) {
	versions := sortedVersions()
	sc := gen.Scramble(c.Rand("scramble"))
	nontriv := func(v *ref.Value, text []byte) {
		f := featuresOf(v)
		if f.bigObject || f.keyNeedsEscape || f.strNeedsEscape || f.nonPlainNumber {
			c.NontrivialBytes(text)
		}
	}
	one := func(name string, v *ref.Value, npres int, enforced bool) {
		var first []byte
		for p := 0; p < npres; p++ {
			var text []byte
			if p == 0 {
				text = gen.Plain().Bytes(v)
			} else {
				text = sc.Bytes(v)
			}
			c.Case(name, map[string]any{"text": string(text)}, func() {
				// the harness's own rendering must parse to the same value
				rv, info, err := ref.Parse(text)
				if err != nil || info.DupKeys || info.IllFormed || !ref.Equal(rv, v) {
					panic(fmt.Sprintf("harness bug: rendering %q of %s: %v %+v", text, gen.Describe(v), err, info))
				}
				nontriv(v, text)
				out := checkCanon(c, v, text)
				if out != nil {
					if first == nil {
						first = out
					} else if !bytes.Equal(first, out) && c.Violations() == 0 {
						c.Failf("canon:presentations-differ", "two presentations of %s canonicalise to %q and %q", gen.Describe(v), first, out)
					}
				}
				if enforced {
					checkEnforced(c, v, text, versions)
				}
				if c.WantSample() && len(text) > 20 && len(text) < 200 {
					c.Sample(map[string]any{"kind": name, "text": string(text), "canonical": string(out)})
				}
			})
		}
	}

	// (a) bounded-exhaustive enumeration
	atoms14 := []*ref.Value{ref.NullV(), ref.B(true), ref.B(false), ref.NumLit("0"), ref.NumLit("-0"), ref.NumLit("1"), ref.NumLit("-1"),
		ref.NumLit("-0.5"), ref.NumLit("1.5"), ref.NumLit("1E2"), ref.S(""), ref.S("a\"b"), ref.S("\né"), ref.S("\U00010000￿")}
	keys6 := []string{"a", "a\"b", "a\\b", "\n", "é", "\U00010000"}
	i := 0
	n1 := gen.EnumValues(1, 2, atoms14, keys6, func(v *ref.Value) {
		if c.Mine(i) {
			one("enum-d1", v, 3, i%7 == 0)
		}
		i++
	})
	atoms4 := []*ref.Value{ref.NumLit("1"), ref.S("a\"b"), ref.NumLit("-0"), ref.NullV()}
	keys3 := []string{"b", "a\"", "￿"}
	n2 := gen.EnumValues(2, 2, atoms4, keys3, func(v *ref.Value) {
		if c.Mine(i) {
			one("enum-d2", v, 2, false)
		}
		i++
	})
	c.Note("bounded-exhaustive: %d values of depth<=1 (14 atoms, 6 keys) and %d of depth<=2 (4 atoms, 3 keys), each in 2-3 presentations", n1, n2)
	c.SetExhaustive()

	// (a2) key order, directed: every pair (and random larger sets) of keys from a pool in which the orders by code
	// point, by UTF-16 code unit, by folded case and by length disagree
	keyPool := []string{"", "a", "aa", "a\x00", "Z", "z", "\x7f", "\u0080", "\u07ff", "\u0800", "\ud7ff", "\ue000", "\ufb01", "\uff01", "\uffff", "\U00010000", "\U0001f408", "\U0010ffff",
		"a\uffff", "a\U00010000", "a\ue000b", "a\U0001f600b", "\uffff\U00010000", "\U00010000\uffff", "é", "e\u0301", "É"}
	kr := c.Rand("key-order")
	nk := 0
	for i1 := range keyPool {
		for i2 := i1 + 1; i2 < len(keyPool); i2++ {
			if nk++; !c.Mine(nk) {
				continue
			}
			o := ref.O(keyPool[i2], ref.I(2), keyPool[i1], ref.I(1))
			if kr.Chance(0.3) {
				o = ref.O("outer", ref.A(o), keyPool[i1], ref.NullV())
			}
			one("key-order-pair", o, 2, false)
		}
	}
	for k := 0; k < c.Scale(200, 20000); k++ {
		o := ref.O()
		for _, idx := range kr.Perm(len(keyPool))[:kr.Range(3, 8)] {
			o.Set(keyPool[idx], ref.I(int64(idx)))
		}
		one("key-order-set", o, 2, false)
	}

	// (b) random deep values
	r := c.Rand("values")
	nRand := c.Scale(5000, 2000000)
	for k := 0; k < nRand; k++ {
		v := gen.RandValue(r, gen.JSONOpts{Depth: r.Range(1, 5), Width: r.Range(1, 5)})
		one("random", v, 4, k%4 == 0)
	}

	// (c) invalid texts
	nBad := c.Scale(3000, 500000)
	for k := 0; k < nBad; k++ {
		v := gen.RandValue(r, gen.JSONOpts{Depth: r.Range(0, 3), Width: 3})
		base := sc.Bytes(v)
		text, kind := gen.BreakJSON(r, base)
		c.Case("invalid:"+kind, map[string]any{"text": string(text)}, func() {
			_, info, err := ref.Parse(text)
			if err == nil {
				c.Count("break_left_text_valid")
				if info.DupKeys || info.IllFormed {
					return
				}
				return
			}
			if info.IllFormed {
				// an edit inside an escape can also create ill-formed Unicode; the text is still invalid, keep it
			}
			c.NontrivialBytes(text)
			c.Count("invalid_texts")
			if out, err := gmsl.CanonicalJSON(text); err == nil {
				c.Failf("canon:accepts-invalid:"+kind, "CanonicalJSON(%q) = %q, but the text is not valid JSON (%v)", text, out, perrString(text))
			}
			for _, ver := range []gmsl.RoomVersion{"1", "6", "10", "12"} {
				if out, err := gmsl.EnforcedCanonicalJSON(text, ver); err == nil {
					c.Failf("enforced:accepts-invalid:"+kind, "EnforcedCanonicalJSON(%q, %s) = %q, but the text is not valid JSON", text, ver, out)
				}
			}
		})
	}

	// (d) number boundaries x every registered version, in four positions
	if c.Shard == 0 {
		for _, lit := range gen.NumberAtoms {
			n := ref.NumLit(lit)
			for pi, v := range []*ref.Value{n, ref.A(ref.I(1), n), ref.O("k", n), ref.O("content", ref.O("users", ref.O("@a:b", n)), "depth", ref.I(3))} {
				name := fmt.Sprintf("number:%s:pos%d", lit, pi)
				text := gen.Plain().Bytes(v)
				c.Case(name, map[string]any{"text": string(text)}, func() {
					c.NontrivialBytes(text)
					checkCanon(c, v, text)
					checkEnforced(c, v, text, versions)
				})
			}
		}
	}
	// (e) the same questions from several goroutines at once: canonicalisation and the number check are functions of
	// their arguments, whoever else is calling
	if c.Shard == 0 {
		type q struct {
			text []byte
			ver  gmsl.RoomVersion
		}
		var qs []q
		for i, lit := range gen.NumberAtoms {
			text := gen.Plain().Bytes(ref.O("b", ref.A(ref.I(1), ref.NumLit(lit)), "a", ref.S("x\u00e9")))
			qs = append(qs, q{text, versions[i%len(versions)]}, q{text, versions[(i+7)%len(versions)]})
		}
		c.Case("concurrent-calls", map[string]any{"questions": len(qs)}, func() {
			c.Nontrivial("concurrent-calls")
			c.ConcurrentReplay("canon", len(qs), func(i int) string {
				out, err := gmsl.EnforcedCanonicalJSON(qs[i].text, qs[i].ver)
				out2, err2 := gmsl.CanonicalJSON(qs[i].text)
				return fmt.Sprintf("%s %v | %s %v", out, err != nil, out2, err2 != nil)
			})
		})
		// (f) a history: one buffer of the caller's holds a text that passes the number check, is rewritten in place with a
		// text of the same length that does not, and is asked about again - and then the same text from a fresh buffer
		for _, pair := range [][2]string{{`{"a":100}`, `{"a":1.5}`}, {`{"a":100}`, `{"a":1e5}`}, {`{"a":[10]}`, `{"a":[-0]}`}, {`[9007199254740991]`, `[9007199254740992]`}, {`{"a":1000,"b":2}`, `{"a":1E+2,"b":2}`}} {
			for _, ver := range versions {
				tr := ref.Traits(string(ver))
				if tr == nil || !tr.EnforceCanon {
					continue
				}
				name := "enforced:buffer-rewritten-in-place:" + pair[1]
				c.Case(name, map[string]any{"first": pair[0], "then": pair[1], "version": ver}, func() {
					c.Nontrivial(name + string(ver))
					c.Count("enforced_buffer_rewritten_in_place")
					buf := []byte(pair[0])
					if _, err := gmsl.EnforcedCanonicalJSON(buf, ver); err != nil {
						c.Failf("enforced:rejects-valid:v"+string(ver), "EnforcedCanonicalJSON(%q, %s) = error %v", pair[0], ver, err)
						return
					}
					impl := gmsl.MustGetRoomVersion(ver)
					_ = impl.CheckCanonicalJSON(buf)
					copy(buf, pair[1])
					if _, err := gmsl.EnforcedCanonicalJSON(buf, ver); err == nil {
						c.Failf("enforced:accepts:after-the-buffer-held-a-valid-text", "EnforcedCanonicalJSON(%q, %s) accepts the text when the caller's buffer held %q at the call before", pair[1], ver, pair[0])
					}
					if err := impl.CheckCanonicalJSON(buf); err == nil {
						c.Failf("enforced:accepts:after-the-buffer-held-a-valid-text", "CheckCanonicalJSON(%q) (v%s) accepts the text when the caller's buffer held %q at the call before", pair[1], ver, pair[0])
					}
					if _, err := gmsl.EnforcedCanonicalJSON([]byte(pair[1]), ver); err == nil {
						c.Failf("enforced:accepts:after-the-buffer-held-a-valid-text", "EnforcedCanonicalJSON(%q, %s) accepts the text from a fresh buffer after the history above", pair[1], ver)
					}
					// and back: the valid text is valid again
					copy(buf, pair[0])
					if _, err := gmsl.EnforcedCanonicalJSON(buf, ver); err != nil {
						c.Failf("enforced:rejects-valid:after-the-buffer-held-an-invalid-text", "EnforcedCanonicalJSON(%q, %s) = error %v after the buffer held %q", pair[0], ver, err, pair[1])
					}
				})
			}
		}
	}
	c.Floor("canonicalised", 100)
	c.Floor("invalid_texts", 50)
	c.Floor("with_key_needing_escape", 20)
}

func perrString(text []byte) string {
	_, _, err := ref.Parse(text)
	if err != nil {
		return err.Error()
	}
	return ""
}
