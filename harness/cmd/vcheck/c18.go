package main

import (
	"bufio"
	"bytes"
	"context"
	"encoding/json"
	"fmt"
	"io"
	"net/http"
	"strings"
	"time"

	gmsl "github.com/matrix-org/gomatrixserverlib"
	"github.com/matrix-org/gomatrixserverlib/fclient"
	"github.com/matrix-org/gomatrixserverlib/spec"
	"github.com/matrix-org/gomatrixserverlib/tokens"

	"verif/gen"
	"verif/mon"
	"verif/ref"
)

func init() {
	register(&propDef{
		ID:    "C18",
		Level: "exploration",
		Rule: "inputs: (a) systematic field enumeration - a valid built event per registered version (7 event types) with each of 16 top-level fields and each member of the special contents replaced in turn by each of ~45 hostile JSON values (missing, null, wrong types, empty, '!:', '!x', '@', ':', no colon, 300 characters, huge / negative / fractional / exponent numbers, 200-deep nesting, signature maps holding nulls ...); (b) seeded byte mutations (bit flips, splices, truncations, token swaps, duplicated chunks) of valid events, key responses, signed objects, federation response bodies, Authorization headers, identifiers and tokens; (c) random bytes. Every input is driven through parse (untrusted / trusted / headered / with event ID) and, when parsing accepts it, through every accessor, Redact, SetUnsigned(Field), Sign, ToHeaderedJSON, sticky helpers, VerifyEventSignatures, StateNeededForAuth, Allowed (as event and as auth state), RedactEventJSON, all state-resolution entry points and orderings, CheckStateResponse / CheckSendJoinResponse / LoadAndVerify, the JSON / signing / key / HTTP-auth / identifier / token entry points and every fclient response type's decoder. The oracle is 'returned normally'. " +
			"distinct = distinct input bytes per workload; non-trivial = inputs that at least one parser accepted (so that the accessor / auth / resolution stages actually ran) or that reached a decoder beyond JSON syntax",
		Assumptions: []string{"a recovered panic or a process-fatal runtime error anywhere below a public entry point is the refuting event", "deliberate programmer-error panics (nil querier, fewer than 2 state sets, Must*/OrPanic helpers, RoomID.Domain on a domainless ID) are not driven"},
		LogCases:    true,
		Run:         runC18,
	})
}

type c18 struct {
	c     *mon.Ctx
	entry string
	cited int
}

// step runs one entry point under a panic monitor.
func (x *c18) step(entry string, f func()) bool {
	site, msg, pan := mon.Guard(f)
	x.c.Count("entry_point_calls")
	if pan {
		x.c.Failf("panic:"+entry+":"+site+":"+panicKind(msg), "%s panics: %s (innermost library frame: %s)", entry, msg, site)
		return false
	}
	return true
}

func panicKind(msg string) string {
	switch {
	case strings.Contains(msg, "nil map"):
		return "nil-map"
	case strings.Contains(msg, "nil pointer"):
		return "nil-deref"
	case strings.Contains(msg, "index out of range"):
		return "index"
	case strings.Contains(msg, "slice bounds"):
		return "slice-bounds"
	case strings.Contains(msg, "interface conversion"):
		return "type-assert"
	}
	w := strings.Fields(msg)
	if len(w) > 3 {
		w = w[:3]
	}
	return "explicit:" + strings.Join(w, "-")
}

var c18db = func() *memKeyDB {
	db := newMemKeyDB()
	for _, s := range []string{"origin.example", "other.example", "third.example", "a.example"} {
		id := serverIdentity(s)
		db.set(s, id.KeyID, id.Pub, farFuture, 0)
	}
	return db
}()

// exercise applies everything the library offers to an event that some parser accepted.
// citedTypes are the event types the auth rules and the resolvers read from an event's auth events.
var citedTypes = map[string]bool{"m.room.power_levels": true, "m.room.join_rules": true, "m.room.create": true, "m.room.member": true, "m.room.third_party_invite": true}

// citeThisOne thins the cited-as-auth-event step out (four events are built and signed for it): every
// power-levels event in the quick tier's first thousand, afterwards and for the other types one in eight.
func (x *c18) citeThisOne(p gmsl.PDU) bool {
	x.cited++
	if p.Type() == "m.room.power_levels" && x.cited < 1000 {
		return true
	}
	return x.cited%8 == 0
}

func (x *c18) exercise(p gmsl.PDU, w *world, tag string) {
	if p == nil {
		return
	}
	x.step(tag+":accessors", func() {
		_ = p.EventID()
		_ = p.StateKey()
		_ = p.StateKeyEquals("")
		_ = p.Type()
		_ = p.Content()
		_, _ = p.JoinRule()
		_, _ = p.HistoryVisibility()
		_, _ = p.Membership()
		_, _ = p.PowerLevels()
		_ = p.Version()
		_ = p.Redacts()
		_ = p.Redacted()
		_ = p.PrevEventIDs()
		_ = p.OriginServerTS()
		_ = p.SenderID()
		_ = p.Unsigned()
		_ = p.Depth()
		_ = p.JSON()
		_ = p.AuthEventIDs()
		_ = p.IsSticky(time.Now(), time.Now())
		_ = p.StickyEndTime(time.Now())
	})
	x.step(tag+":RoomID", func() { _ = p.RoomID() })
	x.step(tag+":ToHeaderedJSON", func() {
		if h, err := p.ToHeaderedJSON(); err == nil {
			if q, err := gmsl.NewEventFromHeaderedJSON(h, false); err == nil {
				_ = q.EventID()
			}
		}
	})
	x.step(tag+":CheckFields", func() { _ = gmsl.CheckFields(p) })
	x.step(tag+":SetUnsigned", func() {
		if q, err := p.SetUnsigned(map[string]any{"age": 1}); err == nil && q != nil {
			_ = q.JSON()
		}
	})
	x.step(tag+":VerifyEventSignatures", func() {
		_ = gmsl.VerifyEventSignatures(context.Background(), p, &gmsl.KeyRing{KeyDatabase: c18db}, userIDForSender)
	})
	x.step(tag+":StateNeededForAuth", func() { _ = gmsl.StateNeededForAuth([]gmsl.PDU{p}).Tuples() })
	x.step(tag+":RedactEventJSON", func() {
		if impl, err := gmsl.GetRoomVersion(p.Version()); err == nil {
			_, _ = impl.RedactEventJSON(p.JSON())
		}
	})
	// redacted in place (on a copy: the event itself goes on into the auth checks below), then asked again - the room
	// ID first, which room version 12 derives from the event ID (ninth seeding round, C18-R: the redacted event had
	// lost the cached ID)
	x.step(tag+":Redact", func() {
		impl, err := gmsl.GetRoomVersion(p.Version())
		if err != nil {
			return
		}
		q, err := impl.NewEventFromUntrustedJSON(p.JSON())
		if q == nil || (err != nil && !isPersistable(err)) {
			return
		}
		q.Redact()
		_ = q.RoomID()
		_ = q.EventID()
		_ = q.JSON()
		_ = q.Content()
		_ = q.AuthEventIDs()
		q.Redact()
		_ = q.RoomID()
		_, _ = q.Membership()
		_, _ = q.PowerLevels()
	})
	// as the event under an auth check, against a standard room state and against nothing
	std := []gmsl.PDU{w.create, w.pls[0], w.jrs["public"], w.jrs["restricted"], w.tpi}
	for _, u := range authUsers {
		std = append(std, w.members[[2]string{u, "join"}])
	}
	x.step(tag+":Allowed(event)", func() {
		if prov, err := gmsl.NewAuthEvents(std[:3]); err == nil {
			_ = gmsl.Allowed(p, prov, userIDForSender)
		}
		if prov, err := gmsl.NewAuthEvents(append(std[:2:2], std[3:]...)); err == nil {
			_ = gmsl.Allowed(p, prov, userIDForSender)
		}
		if prov, err := gmsl.NewAuthEvents(nil); err == nil {
			_ = gmsl.Allowed(p, prov, userIDForSender)
		}
		// a sender lookup that answers "no such user" with (nil, nil), as the library's own code expects in places
		lenient := func(roomID spec.RoomID, senderID spec.SenderID) (*spec.UserID, error) {
			u, err := spec.NewUserID(string(senderID), true)
			if err != nil {
				return nil, nil
			}
			return u, nil
		}
		if prov, err := gmsl.NewAuthEvents(std[:3]); err == nil {
			_ = gmsl.Allowed(p, prov, lenient)
		}
		if prov, err := gmsl.NewAuthEvents(nil); err == nil {
			_ = gmsl.Allowed(p, prov, lenient)
		}
	})
	// as part of the auth state of ordinary events
	if p.StateKey() != nil {
		x.step(tag+":Allowed(state)", func() {
			prov, err := gmsl.NewAuthEvents(std)
			if err != nil {
				return
			}
			if err := prov.AddEvent(p); err != nil {
				return
			}
			for _, ev := range []gmsl.PDU{w.members[[2]string{authUsers[2], "join"}], w.members[[2]string{authUsers[1], "ban"}], w.pls[0], w.jrs["public"], w.tpi} {
				_ = gmsl.Allowed(ev, prov, userIDForSender)
			}
		})
		x.step(tag+":state-resolution", func() {
			setA := append([]gmsl.PDU{}, std[:3]...)
			setA = append(setA, w.members[[2]string{authUsers[1], "join"}])
			setB := append(append([]gmsl.PDU{}, setA...), p)
			setC := append([]gmsl.PDU{w.create, w.pls[len(w.pls)-1], w.jrs["invite"], p}, w.members[[2]string{authUsers[1], "ban"}])
			auth := append(append([]gmsl.PDU{}, std...), p)
			noRej := func(string) bool { return false }
			_, _ = gmsl.ResolveConflictsNew(p.Version(), [][]gmsl.PDU{setA, setB, setC}, auth, userIDForSender, noRej)
			_, _ = gmsl.ResolveConflicts(p.Version(), append(append(append([]gmsl.PDU{}, setA...), setB...), setC...), auth, userIDForSender, noRej)
		})
	}
	if p.StateKey() != nil && citedTypes[p.Type()] && x.citeThisOne(p) {
		// cited as an auth event by several conflicted events of the room (whoever sends events chooses what they
		// cite): the resolver looks things up in it once per citing event
		x.step(tag+":state-resolution(cited-as-auth-event)", func() {
			mk := func(typ, sk, sender string, content string, ts int) gmsl.PDU {
				w.seq++
				ps := protoSpec{Type: typ, StateKey: &sk, Sender: sender, RoomID: w.roomID, Content: []byte(content), Prev: []string{w.create.EventID()}, Depth: w.seq + 1,
					Auth: []string{p.EventID(), w.members[[2]string{sender, "join"}].EventID()}}
				if !w.t.Domainless {
					ps.Auth = append([]string{w.create.EventID()}, ps.Auth...)
				}
				ev, err := buildEvent(w.ver, ps, serverIdentity(serverOf(sender)), baseTime.Add(time.Duration(ts)*time.Second))
				if err != nil {
					return nil
				}
				return ev
			}
			a, b := authUsers[1], authUsers[2]
			evs := []gmsl.PDU{
				mk("m.room.join_rules", "", a, `{"join_rule":"invite"}`, 1), mk("m.room.join_rules", "", b, `{"join_rule":"public"}`, 2),
				mk("m.room.power_levels", "", a, `{"users":{}}`, 3), mk("m.room.power_levels", "", b, `{"users_default":1}`, 4),
				mk("m.room.member", authUsers[3], a, `{"membership":"ban"}`, 5), mk("m.room.topic", "", b, `{"topic":"t"}`, 6),
			}
			for _, e := range evs {
				if e == nil {
					return
				}
			}
			base := []gmsl.PDU{w.create, w.members[[2]string{a, "join"}], w.members[[2]string{b, "join"}]}
			setA := append(append([]gmsl.PDU{}, base...), evs[0], evs[2], evs[4])
			setB := append(append([]gmsl.PDU{}, base...), evs[1], evs[3], evs[5])
			auth := append(append(append([]gmsl.PDU{}, std...), p), evs...)
			noRej := func(string) bool { return false }
			_, _ = gmsl.ResolveConflictsNew(p.Version(), [][]gmsl.PDU{setA, setB}, auth, userIDForSender, noRej)
			_, _ = gmsl.ResolveConflicts(p.Version(), append(append([]gmsl.PDU{}, setA...), setB...), auth, userIDForSender, noRej)
			_ = gmsl.ReverseTopologicalOrdering(append([]gmsl.PDU{p}, evs...), gmsl.TopologicalOrderByAuthEvents)
		})
	}
	if p.StateKey() == nil {
		// a non-state event can still be cited as an auth event by whoever sends the auth chain
		x.step(tag+":state-resolution(as-auth-event)", func() {
			setA := append([]gmsl.PDU{}, std[:3]...)
			setA = append(setA, w.members[[2]string{authUsers[1], "join"}])
			setC := append([]gmsl.PDU{w.create, w.pls[len(w.pls)-1], w.jrs["invite"]}, w.members[[2]string{authUsers[1], "ban"}])
			auth := append([]gmsl.PDU{p}, std...)
			noRej := func(string) bool { return false }
			_, _ = gmsl.ResolveConflictsNew(p.Version(), [][]gmsl.PDU{setA, setC}, auth, userIDForSender, noRej)
			_, _ = gmsl.ResolveConflicts(p.Version(), append(append([]gmsl.PDU{}, setA...), setC...), auth, userIDForSender, noRej)
			_, _ = gmsl.ResolveConflictsNew(p.Version(), [][]gmsl.PDU{setA, setC}, append(append([]gmsl.PDU{}, std...), p), userIDForSender, noRej)
		})
	}
	x.step(tag+":orderings", func() {
		in := []gmsl.PDU{w.create, p, w.pls[0], w.members[[2]string{authUsers[1], "join"}]}
		_ = gmsl.ReverseTopologicalOrdering(in, gmsl.TopologicalOrderByAuthEvents)
		_ = gmsl.ReverseTopologicalOrdering(in, gmsl.TopologicalOrderByPrevEvents)
		_ = gmsl.ReverseTopologicalOrdering([]gmsl.PDU{p}, gmsl.TopologicalOrderByAuthEvents)
		_ = gmsl.HeaderedReverseTopologicalOrdering(in, gmsl.TopologicalOrderByPrevEvents)
	})
	x.step(tag+":Sign", func() {
		id := serverIdentity("origin.example")
		q := p.Sign(id.Server, gmsl.KeyID(id.KeyID), id.Priv)
		if q != nil {
			_ = q.JSON()
		}
	})
	x.step(tag+":SetUnsignedField", func() { _ = p.SetUnsignedField("transaction_id", "t") })
	x.step(tag+":Redact", func() {
		p.Redact()
		_ = p.JSON()
		_ = p.EventID()
	})
}

// parseAll feeds bytes to every parser of a version and exercises what they accept. Returns whether any accepted.
func (x *c18) parseAll(ver gmsl.RoomVersion, w *world, data []byte) bool {
	impl, err := gmsl.GetRoomVersion(ver)
	if err != nil {
		return false
	}
	accepted := false
	var evs []gmsl.PDU
	x.step("NewEventFromUntrustedJSON", func() {
		p, err := impl.NewEventFromUntrustedJSON(data)
		if p != nil && (err == nil || isPersistable(err)) {
			evs = append(evs, p)
		}
	})
	if len(evs) > 0 {
		x.exercise(evs[0], w, "untrusted")
		accepted = true
	}
	evs = nil
	x.step("NewEventFromTrustedJSON", func() {
		if p, err := impl.NewEventFromTrustedJSON(data, false); err == nil {
			evs = append(evs, p)
		}
	})
	// events from the trusted parsers come from the caller's own store, not from the
	// network: only the parse itself is driven, what it accepts is not exercised further
	evs = nil
	x.step("NewEventFromTrustedJSONWithEventID", func() {
		if p, err := impl.NewEventFromTrustedJSONWithEventID("$given:origin.example", data, true); err == nil {
			evs = append(evs, p)
		}
	})
	_ = evs
	x.step("NewEventFromHeaderedJSON", func() {
		if p, err := gmsl.NewEventFromHeaderedJSON(data, false); err == nil && p != nil {
			_ = p.EventID()
		}
	})
	x.step("EventJSONs", func() {
		for _, p := range (gmsl.EventJSONs{data}).UntrustedEvents(ver) {
			_ = p.EventID()
			_ = p.Type()
		}
		for _, p := range (gmsl.EventJSONs{data}).TrustedEvents(ver, false) {
			_ = p.Type()
		}
	})
	return accepted
}

func isPersistable(err error) bool {
	ve, ok := err.(gmsl.EventValidationError)
	return ok && ve.Persistable
}

// hostile JSON values for field replacement; nil means "delete the member".
func hostileValues() map[string]*ref.Value {
	deep := ref.I(1)
	for i := 0; i < 200; i++ {
		deep = ref.A(deep)
	}
	deepObj := ref.I(1)
	for i := 0; i < 200; i++ {
		deepObj = ref.O("a", deepObj)
	}
	long := strings.Repeat("x", 300)
	return map[string]*ref.Value{
		"missing": nil, "null": ref.NullV(), "true": ref.B(true), "zero": ref.I(0), "one": ref.I(1), "negative": ref.I(-1), "huge": ref.NumLit("9007199254740993"), "int64max": ref.NumLit("9223372036854775807"),
		"beyond-int64": ref.NumLit("18446744073709551616"), "fraction": ref.NumLit("1.5"), "exponent": ref.NumLit("1e3"), "big-exponent": ref.NumLit("1e400"), "negative-zero": ref.NumLit("-0"),
		"empty-string": ref.S(""), "string": ref.S("x"), "long-string": ref.S(long), "bang-colon": ref.S("!:"), "bang-x": ref.S("!x"), "bang-a-colon": ref.S("!abc:"), "room-with-space": ref.S("!a:b c"),
		"at": ref.S("@"), "colon": ref.S(":"), "at-colon": ref.S("@:"), "no-colon": ref.S("@nocolon"), "dollar": ref.S("$"), "user-long": ref.S("@" + long + ":x"), "nul-char": ref.S("a\x00b"), "unicode": ref.S("é\U0001F600￿"),
		"ipv6-user": ref.S("@a:[::1]:80"), "open-bracket-user": ref.S("@a:["), "open-bracket-room": ref.S("!a:["), "open-bracket-port-room": ref.S("!a:[:8448"), "half-bracket-user": ref.S("@a:[::1"), "domainless-room": ref.S("!" + strings.Repeat("A", 43)), "event-id-v1": ref.S("$abc:origin.example"), "event-id-v3": ref.S("$" + strings.Repeat("A", 43)),
		"empty-array": ref.A(), "array-of-null": ref.A(ref.NullV()), "array-of-int": ref.A(ref.I(5)), "array-of-empty-array": ref.A(ref.A()), "array-int-obj": ref.A(ref.I(5), ref.O()), "array-of-empty-string": ref.A(ref.S("")),
		"array-ref-bad-hash": ref.A(ref.A(ref.S("$x:y"), ref.O("sha256", ref.I(1)))), "array-ref-short": ref.A(ref.A(ref.S("$x:y"))), "array-of-strings": ref.A(ref.S("$a"), ref.S("")),
		"empty-object": ref.O(), "object-null-member": ref.O("origin.example", ref.NullV()), "object-nested-null": ref.O("origin.example", ref.O("ed25519:a", ref.NullV())), "object-wrong-types": ref.O("sha256", ref.I(5), "origin.example", ref.S("x")),
		"deep-array": deep, "deep-object": deepObj,
	}
}

var specialContents = map[string][]string{
	"m.room.member":       {"membership", "third_party_invite", "join_authorised_via_users_server", "mxid_mapping", "displayname", "is_direct"},
	"m.room.power_levels": {"users", "events", "notifications", "ban", "users_default", "invite"},
	"m.room.join_rules":   {"join_rule", "allow"},
	"m.room.create":       {"creator", "room_version", "m.federate", "additional_creators", "predecessor"},
	"m.room.third_party_invite": {"public_keys", "public_key"},
	"m.room.history_visibility": {"history_visibility"},
}

func (x *c18) fieldEnumeration(r *gen.Rand, versions []gmsl.RoomVersion, worlds map[gmsl.RoomVersion]*world) {
	c := x.c
	hv := hostileValues()
	names := make([]string, 0, len(hv))
	for n := range hv {
		names = append(names, n)
	}
	sortStrings(names)
	topFields := []string{"room_id", "sender", "type", "state_key", "content", "depth", "origin_server_ts", "prev_events", "auth_events", "hashes", "signatures", "unsigned", "redacts", "event_id", "origin", "msc4354_sticky", "sticky", "prev_state"}
	n := 0
	presentR := r.Fork("presentation")
	for _, ver := range versions {
		w := worlds[ver]
		if w == nil {
			continue
		}
		bases := map[string]gmsl.PDU{
			"m.room.member": w.members[[2]string{authUsers[2], "join"}], "m.room.power_levels": w.pls[0], "m.room.join_rules": w.jrs["restricted"], "m.room.create": w.create,
			"m.room.third_party_invite": w.tpi,
		}
		if ev, err := w.build("m.room.message", nil, authUsers[1], ref.O("body", ref.S("hi")), nil, ""); err == nil {
			bases["m.room.message"] = ev
		}
		if ev, err := w.build("m.room.aliases", strp("origin.example"), authUsers[1], ref.O("aliases", ref.A()), nil, ""); err == nil {
			bases["m.room.aliases"] = ev
		}
		if ev, err := w.build("m.room.redaction", nil, authUsers[1], ref.O("reason", ref.S("x")), nil, "$victim:origin.example"); err == nil {
			bases["m.room.redaction"] = ev
		}
		if ev, err := w.build("m.room.member", strp(authUsers[3]), authUsers[0], ref.O("membership", ref.S("invite"), "third_party_invite", w.signedTPI(authUsers[3], "tok1", true)), nil, ""); err == nil {
			bases["m.room.member#tpi"] = ev
		}
		if ev, err := w.build("m.room.history_visibility", strp(""), authUsers[0], ref.O("history_visibility", ref.S("shared")), nil, ""); err == nil {
			bases["m.room.history_visibility"] = ev
		}
		typeNames := make([]string, 0, len(bases))
		for t := range bases {
			typeNames = append(typeNames, t)
		}
		sortStrings(typeNames)
		for _, typ := range typeNames {
			base := ref.MustParse(bases[typ].JSON())
			try := func(where, vname string, mutated *ref.Value) {
				n++
				if !c.Mine(n) {
					return
				}
				for _, rehash := range []bool{false, true} {
					mv := mutated
					name := fmt.Sprintf("field:%s:%s:%s=%s", ver, typ, where, vname)
					if rehash {
						if where == "hashes" || where == "signatures" {
							continue
						}
						// what a hostile server does: make the content hash match and sign the result
						mv = rehashAndSign(mutated, w.t)
						name += ":rehashed"
					}
					texts := map[string][]byte{name: gen.Plain().Bytes(mv)}
					if n%3 == 0 {
						// the same value in another spelling: random legal escapes (\u0020, \/, surrogate pairs), whitespace, key order
						texts[name+":respelled"] = gen.ScrambleStrict(presentR).Bytes(mv)
					}
					for name, text := range texts {
						c.Case(name, map[string]any{"version": ver, "base_type": typ, "field": where, "value": vname, "rehashed": rehash, "event": string(text)}, func() {
							x.entry = name
							if x.parseAll(ver, w, text) {
								c.NontrivialBytes(append([]byte(string(ver)+"|"), text...))
								c.Count("field_cases_accepted_by_a_parser")
							}
							c.Count("field_cases")
						})
					}
				}
			}
			for _, f := range topFields {
				for _, vn := range names {
					m := base.Clone()
					if hv[vn] == nil {
						m.Del(f)
					} else {
						m.Set(f, hv[vn])
					}
					try(f, vn, m)
				}
			}
			for _, ck := range specialContents[strings.SplitN(typ, "#", 2)[0]] {
				for _, vn := range names {
					m := base.Clone()
					cv := m.Get("content")
					if cv == nil || cv.K != ref.Obj {
						continue
					}
					if hv[vn] == nil {
						cv.Del(ck)
					} else {
						cv.Set(ck, hv[vn])
					}
					try("content."+ck, vn, m)
				}
			}
			// nested members of the third-party invite and of mxid_mapping
			if typ == "m.room.member#tpi" {
				for _, path := range [][]string{{"third_party_invite", "signed"}, {"third_party_invite", "signed", "signatures"}, {"third_party_invite", "signed", "token"}, {"third_party_invite", "signed", "mxid"}} {
					for _, vn := range names {
						m := base.Clone()
						cur := m.Get("content")
						for _, k := range path[:len(path)-1] {
							cur = cur.Get(k)
						}
						if cur == nil || cur.K != ref.Obj {
							continue
						}
						if hv[vn] == nil {
							cur.Del(path[len(path)-1])
						} else {
							cur.Set(path[len(path)-1], hv[vn])
						}
						try("content."+strings.Join(path, "."), vn, m)
					}
				}
			}
		}
	}
}

// rehashAndSign recomputes hashes.sha256 and adds valid signatures of the known
// servers over the reference redaction, as a hostile but protocol-literate server would.
func rehashAndSign(ev *ref.Value, t *ref.VersionTraits) *ref.Value {
	m := ev.Clone()
	recv := m.Clone()
	for _, k := range strippedOnReceipt {
		recv.Del(k)
	}
	if t.EventFormat == 2 {
		recv.Del("event_id")
	}
	h := ref.ContentHash(recv)
	m.Set("hashes", ref.O("sha256", ref.S(spec.Base64Bytes(h[:]).Encode())))
	red := ref.Redact(t.Redaction, m)
	red.Del("signatures")
	red.Del("unsigned")
	payload := ref.Canon(red)
	sigs := ref.O()
	for _, s := range []string{"origin.example", "other.example", "third.example"} {
		id := serverIdentity(s)
		sigs.Set(s, ref.O(id.KeyID, ref.S(spec.Base64Bytes(edSign(id, payload)).Encode())))
	}
	m.Set("signatures", sigs)
	return m
}

func sortStrings(s []string) {
	for i := 1; i < len(s); i++ {
		for j := i; j > 0 && s[j] < s[j-1]; j-- {
			s[j], s[j-1] = s[j-1], s[j]
		}
	}
}

var jsonTokens = []string{"null", "true", "0", "-1", "1.5", "1e400", `""`, `"@a:b"`, `"!a:b"`, "[]", "{}", "[[]]", `{"a":null}`, `[null]`, "9223372036854775808", `"\ud800"`, `[5,{}]`}

// mutateBytes applies 1-3 seeded byte-level edits.
func mutateBytes(r *gen.Rand, in []byte) []byte {
	b := append([]byte{}, in...)
	for k := r.Range(1, 3); k > 0; k-- {
		if len(b) == 0 {
			b = []byte(gen.Pick(r, jsonTokens))
			continue
		}
		switch r.Intn(9) {
		case 0:
			b[r.Intn(len(b))] ^= 1 << uint(r.Intn(8))
		case 1:
			i := r.Intn(len(b))
			b = append(b[:i], b[i+r.Intn(min(len(b)-i, 8)+1):]...)
		case 2:
			b = b[:r.Intn(len(b))]
		case 3: // token swap: replace a JSON scalar-looking region by another token
			i := r.Intn(len(b))
			j := i
			for j < len(b) && j-i < 24 && !strings.ContainsRune(",}]", rune(b[j])) {
				j++
			}
			b = append(append(append([]byte{}, b[:i]...), gen.Pick(r, jsonTokens)...), b[j:]...)
		case 4:
			i, j := r.Intn(len(b)), r.Intn(len(b))
			if i > j {
				i, j = j, i
			}
			if j-i > 64 {
				j = i + 64
			}
			b = append(append(append([]byte{}, b[:j]...), b[i:j]...), b[j:]...)
		case 5:
			i := r.Intn(len(b))
			b = append(append(append([]byte{}, b[:i]...), gen.Pick(r, []string{"\"", "\\", "{", "}", "[", "]", ":", ",", "\x00", "\xff", "\\u0000", "\\ud800", "-", "e", ".", " "})...), b[i:]...)
		case 6:
			i := r.Intn(len(b))
			b[i] = "{}[]\":,0-e.\\ntf@!$:"[r.Intn(19)]
		case 7:
			b = append(b, b[len(b)/2:]...)
		default:
			i := r.Intn(len(b))
			b = append(b[:i:i], b[i+1:]...)
		}
	}
	return b
}

func (x *c18) byteMutation(r *gen.Rand, versions []gmsl.RoomVersion, worlds map[gmsl.RoomVersion]*world, nEv, nOther int) {
	c := x.c
	// events
	for k := 0; k < nEv; k++ {
		ver := gen.Pick(r, versions)
		w := worlds[ver]
		if w == nil {
			continue
		}
		var base gmsl.PDU
		switch r.Intn(6) {
		case 0:
			base = w.create
		case 1:
			base = gen.Pick(r, w.pls)
		case 2:
			base = w.jrs[gen.Pick(r, []string{"public", "restricted"})]
		case 3:
			base = w.tpi
		default:
			base = w.members[[2]string{gen.Pick(r, authUsers), gen.Pick(r, []string{"join", "invite", "ban"})}]
		}
		data := mutateBytes(r, base.JSON())
		if r.Chance(0.05) {
			data = r.Bytes(r.Range(0, 64))
		}
		c.Case("bytes:event:"+string(ver), map[string]any{"version": ver, "hex": fmt.Sprintf("%x", data)}, func() {
			if x.parseAll(ver, w, data) {
				c.NontrivialBytes(append([]byte(string(ver)+"|"), data...))
				c.Count("byte_cases_accepted_by_a_parser")
			}
			c.Count("byte_cases")
		})
	}
	// everything else that takes bytes from the network
	id := serverIdentity("origin.example")
	signed, _ := gmsl.SignJSON(id.Server, gmsl.KeyID(id.KeyID), id.Priv, []byte(`{"a":1,"b":{"c":[1,2,"x"]},"unsigned":{"x":1}}`))
	kw := newKeyWorld(gen.NewRand(5, "c18keys"))
	keyResp := kw.keyResponse(gen.NewRand(6, "c18"), "a.example", farFuture, "two-keys", nil, "").json
	w10 := worlds["10"]
	if w10 == nil {
		for _, w := range worlds {
			w10 = w
			break
		}
	}
	stateBody := func() []byte {
		var st, au []json.RawMessage
		for _, u := range authUsers[:3] {
			st = append(st, json.RawMessage(w10.members[[2]string{u, "join"}].JSON()))
		}
		st = append(st, json.RawMessage(w10.pls[0].JSON()), json.RawMessage(w10.jrs["public"].JSON()), json.RawMessage(w10.create.JSON()))
		au = append(au, json.RawMessage(w10.create.JSON()), json.RawMessage(w10.pls[0].JSON()))
		b, _ := json.Marshal(map[string]any{"pdus": st, "state": st, "auth_chain": au, "auth_events": au, "origin": "origin.example", "event": json.RawMessage(w10.members[[2]string{authUsers[2], "join"}].JSON()),
			"room_version": "10", "members_omitted": false, "servers_in_room": []string{"a"}})
		return b
	}()
	tok, _ := tokens.GenerateLoginToken(tokens.TokenOptions{ServerPrivateKey: []byte("k"), ServerName: "s", UserID: "@u:s"})
	seeds := map[string][]byte{"signed-json": signed, "key-response": keyResp, "state-body": stateBody,
		"auth-header": []byte(`X-Matrix origin="origin.example",key="ed25519:a",sig="c2ln",destination="a.example"`),
		"identifier":  []byte("@alice:origin.example:8448"), "token": []byte(tok), "pl-content": w10.pls[0].Content(), "member-content": []byte(`{"membership":"join","third_party_invite":{"signed":{"mxid":"@a:b","token":"t","signatures":{"x":{"ed25519:0":"AAAA"}}}},"join_authorised_via_users_server":"@a:b"}`),
		"device-list": []byte(`{"user_id":"@a:b","stream_id":5,"devices":[{"device_id":"D","keys":{"user_id":"@a:b","device_id":"D","algorithms":["a"],"keys":{"ed25519:D":"x"},"signatures":{}}}],"master_key":{"user_id":"@a:b","usage":["master"],"keys":{"ed25519:x":"eA"}},"self_signing_key":null}`),
		"invite-v2":   []byte(`{"room_version":"10","invite_room_state":[{"type":"m.room.name","sender":"@a:b","state_key":"","content":{}}],"event":` + string(w10.members[[2]string{authUsers[2], "invite"}].JSON()) + `}`),
	}
	kinds := make([]string, 0, len(seeds))
	for k := range seeds {
		kinds = append(kinds, k)
	}
	sortStrings(kinds)
	for k := 0; k < nOther; k++ {
		kind := kinds[k%len(kinds)]
		data := mutateBytes(r, seeds[kind])
		if r.Chance(0.05) {
			data = r.Bytes(r.Range(0, 48))
		}
		c.Case("bytes:"+kind, map[string]any{"kind": kind, "hex": fmt.Sprintf("%x", data)}, func() {
			c.Count("byte_cases_other")
			x.otherEntryPoints(kind, data, w10)
		})
	}
}

type nilProvider struct{}

func (nilProvider) EventProvider(roomVer gmsl.RoomVersion, eventIDs []string) ([]gmsl.PDU, error) {
	return nil, nil
}

// otherEntryPoints drives the non-event decoders with one byte string.
func (x *c18) otherEntryPoints(kind string, data []byte, w *world) {
	c := x.c
	id := serverIdentity("origin.example")
	s := string(data)
	x.step("CanonicalJSON", func() {
		if out, err := gmsl.CanonicalJSON(data); err == nil {
			c.NontrivialBytes(append([]byte(kind+"|"), data...))
			_, _ = gmsl.CanonicalJSON(out)
		}
	})
	x.step("EnforcedCanonicalJSON", func() {
		_, _ = gmsl.EnforcedCanonicalJSON(data, "10")
		_, _ = gmsl.EnforcedCanonicalJSON(data, "1")
	})
	x.step("CompactJSON+SortJSON", func() {
		if json.Valid(data) {
			_ = gmsl.SortJSON(gmsl.CompactJSON(data, nil), nil)
		}
	})
	x.step("VerifyJSON", func() { _ = gmsl.VerifyJSON(id.Server, gmsl.KeyID(id.KeyID), id.Pub, data) })
	x.step("ListKeyIDs", func() { _, _ = gmsl.ListKeyIDs(id.Server, data) })
	x.step("SignJSON", func() {
		if out, err := gmsl.SignJSON(id.Server, gmsl.KeyID(id.KeyID), id.Priv, data); err == nil {
			_ = gmsl.VerifyJSON(id.Server, gmsl.KeyID(id.KeyID), id.Pub, out)
		}
	})
	x.step("KeyRing.VerifyJSONs", func() {
		_, _ = (&gmsl.KeyRing{KeyDatabase: c18db}).VerifyJSONs(context.Background(), []gmsl.VerifyJSONRequest{{ServerName: "origin.example", AtTS: 5, Message: data, ValidityCheckingFunc: gmsl.StrictValiditySignatureCheck}})
	})
	x.step("ServerKeys+CheckKeys", func() {
		var sk gmsl.ServerKeys
		if err := json.Unmarshal(data, &sk); err == nil {
			_, _ = gmsl.CheckKeys("a.example", time.Now(), sk)
			_ = sk.PublicKey("ed25519:k1", 5)
			_, _ = json.Marshal(sk)
		}
	})
	x.step("ParseAuthorization", func() { _, _, _, _, _ = fclient.ParseAuthorization(s) })
	x.step("VerifyHTTPRequest", func() {
		raw := "PUT /_matrix/federation/v1/send/1 HTTP/1.1\r\nHost: a.example\r\nAuthorization: " + strings.Map(func(r rune) rune {
			if r == '\r' || r == '\n' {
				return ' '
			}
			return r
		}, s) + "\r\nContent-Type: application/json\r\nContent-Length: 2\r\n\r\n{}"
		if req, err := http.ReadRequest(bufio.NewReader(strings.NewReader(raw))); err == nil {
			_, _ = fclient.VerifyHTTPRequest(req, time.Now(), "a.example", nil, &gmsl.KeyRing{KeyDatabase: c18db})
		}
		// the same header twice, the second time with the letters of the origin in the other case
		oneLine := strings.Map(func(r rune) rune {
			if r == '\r' || r == '\n' {
				return ' '
			}
			return r
		}, s)
		if i := strings.Index(oneLine, "origin="); i >= 0 {
			j := strings.IndexByte(oneLine[i:], ',')
			if j < 0 {
				j = len(oneLine) - i
			}
			swapped := oneLine[:i+7] + strings.Map(func(r rune) rune {
				switch {
				case r >= 'a' && r <= 'z':
					return r - 32
				case r >= 'A' && r <= 'Z':
					return r + 32
				}
				return r
			}, oneLine[i+7:i+j]) + strings.Replace(oneLine[i+j:], "key=\"", "key=\"x", 1)
			raw3 := "PUT /x HTTP/1.1\r\nHost: a.example\r\nAuthorization: " + oneLine + "\r\nAuthorization: " + swapped + "\r\nContent-Length: 0\r\n\r\n"
			if req, err := http.ReadRequest(bufio.NewReader(strings.NewReader(raw3))); err == nil {
				_, _ = fclient.VerifyHTTPRequest(req, time.Now(), "a.example", nil, &gmsl.KeyRing{KeyDatabase: c18db})
			}
		}
		raw2 := "PUT /x HTTP/1.1\r\nHost: a.example\r\nAuthorization: X-Matrix origin=\"origin.example\",key=\"ed25519:a\",sig=\"c2ln\"\r\nContent-Type: application/json\r\nContent-Length: " + fmt.Sprint(len(data)) + "\r\n\r\n"
		if req, err := http.ReadRequest(bufio.NewReader(io2(raw2, data))); err == nil {
			_, _ = fclient.VerifyHTTPRequest(req, time.Now(), "a.example", nil, &gmsl.KeyRing{KeyDatabase: c18db})
		}
	})
	x.step("identifiers", func() {
		_, _ = spec.NewUserID(s, true)
		_, _ = spec.NewUserID(s, false)
		if rid, err := spec.NewRoomID(s); err == nil {
			_ = rid.OpaqueID()
			_ = rid.String()
		}
		_, _, _ = spec.ParseAndValidateServerName(spec.ServerName(s))
		_, _, _ = gmsl.SplitID('@', s)
		var b spec.Base64Bytes
		_ = b.Decode(s)
		_ = b.UnmarshalJSON(data)
		var ts spec.Timestamp
		_ = json.Unmarshal(data, &ts)
	})
	x.step("SenderID", func() {
		sid := spec.SenderID(s)
		_ = sid.IsUserID()
		_ = sid.IsPseudoID()
		_ = sid.ToUserID()
		_ = sid.ToPseudoID()
		_, _ = sid.RawBytes()
	})
	x.step("tokens", func() {
		_, _ = tokens.GetUserFromToken(s)
		_ = tokens.ValidateToken(tokens.TokenOptions{ServerPrivateKey: []byte("k"), ServerName: "s", UserID: "@u:s"}, s)
	})
	x.step("content-decoders", func() {
		var pl gmsl.PowerLevelContent
		for _, v := range []gmsl.RoomVersion{"1", "10"} {
			_ = gmsl.MustGetRoomVersion(v).ParsePowerLevels(data, &pl)
			_, _ = gmsl.MustGetRoomVersion(v).RestrictedJoinServername(data)
			_, _ = gmsl.MustGetRoomVersion(v).RedactEventJSON(data)
		}
		var mc gmsl.MemberContent
		_ = json.Unmarshal(data, &mc)
		var cc gmsl.CreateContent
		_ = json.Unmarshal(data, &cc)
		var hv gmsl.HistoryVisibilityContent
		_ = json.Unmarshal(data, &hv)
		_, _ = gmsl.StateNeededForProtoEvent(&gmsl.ProtoEvent{Type: "m.room.member", SenderID: "@a:b", StateKey: strp("@a:b"), Content: data})
		var kr keyReq
		_ = kr.UnmarshalText(data)
	})
	x.step("fclient-decoders", func() {
		for _, v := range []any{&fclient.RespSend{}, &fclient.RespStateIDs{}, &fclient.RespState{}, &fclient.RespPeek{}, &fclient.RespMissingEvents{}, &fclient.RespPublicRooms{}, &fclient.RespEventAuth{},
			&fclient.RespUserDevices{}, &fclient.RespMakeJoin{}, &fclient.RespSendJoin{}, &fclient.RespSendKnock{}, &fclient.RespMakeKnock{}, &fclient.RespMakeLeave{}, &fclient.RespDirectory{}, &fclient.RespProfile{},
			&fclient.RespInvite{}, &fclient.RespInviteV2{}, &fclient.RespClaimKeys{}, &fclient.RespQueryKeys{}, &fclient.DeviceKeys{}, &fclient.Version{}, &fclient.MSC2836EventRelationshipsResponse{},
			&fclient.RoomHierarchyResponse{}, &fclient.RespGetRelayTransaction{}, &fclient.CrossSigningKey{}, &fclient.CrossSigningKeys{}, &fclient.CrossSigningForKeyOrDevice{}, &fclient.InviteV2Request{}, &fclient.MissingEvents{},
			&gmsl.Transaction{}, &gmsl.EDU{}, &gmsl.DeviceListUpdateEvent{}, &gmsl.InviteStrippedState{}} {
			if err := json.Unmarshal(data, v); err == nil {
				_, _ = json.Marshal(v)
				switch t := v.(type) {
				case *fclient.RespMakeJoin:
					_ = t.GetJoinEvent()
					_ = t.GetRoomVersion()
				case *fclient.InviteV2Request:
					if t.Event() != nil {
						_ = t.Event().EventID()
					}
					_ = t.RoomVersion()
				case *fclient.RespState:
					_ = t.GetStateEvents().UntrustedEvents("10")
				}
			}
		}
		_, _ = fclient.NewMSC2836EventRelationshipsRequest(bytes.NewReader(data))
	})
	x.step("CheckStateResponse", func() {
		var rs fclient.RespState
		if err := json.Unmarshal(data, &rs); err == nil {
			_, _, _ = gmsl.CheckStateResponse(context.Background(), &rs, "10", &gmsl.KeyRing{KeyDatabase: c18db}, nilProvider{}.EventProvider, userIDForSender)
			_ = gmsl.LineariseStateResponse("10", &rs)
		}
		var sj fclient.RespSendJoin
		if err := json.Unmarshal(data, &sj); err == nil {
			_, _ = gmsl.CheckSendJoinResponse(context.Background(), "10", &sj, &gmsl.KeyRing{KeyDatabase: c18db}, w.members[[2]string{authUsers[2], "join"}], nilProvider{}.EventProvider, userIDForSender)
		}
	})
	x.step("LoadAndVerify", func() {
		var arr []json.RawMessage
		if err := json.Unmarshal(data, &arr); err != nil {
			arr = []json.RawMessage{data}
		}
		l := gmsl.NewEventsLoader("10", &gmsl.KeyRing{KeyDatabase: c18db}, nil, nilProvider{}.EventProvider, false)
		_, _ = l.LoadAndVerify(context.Background(), arr, gmsl.TopologicalOrderByPrevEvents, userIDForSender)
	})
}

func io2(head string, body []byte) *bytes.Reader {
	return bytes.NewReader(append([]byte(head), body...))
}

// keyLengthCases drives the verification paths with public keys of the wrong
// length, as a remote server can publish them (old_verify_keys, third-party
// invite public_keys, pseudo-ID senders).
func (x *c18) keyLengthCases(worlds map[gmsl.RoomVersion]*world) {
	c := x.c
	if c.Shard != 0 {
		return
	}
	id := serverIdentity("origin.example")
	signed, _ := gmsl.SignJSON(id.Server, gmsl.KeyID(id.KeyID), id.Priv, []byte(`{"a":1}`))
	for _, n := range []int{0, 1, 31, 33, 64} {
		key := make([]byte, n)
		name := fmt.Sprintf("key-length:%d", n)
		c.Case(name, map[string]any{"public_key_bytes": n}, func() {
			c.Nontrivial(name)
			x.step("VerifyJSON(short-key)", func() { _ = gmsl.VerifyJSON(id.Server, gmsl.KeyID(id.KeyID), key, signed) })
			x.step("KeyRing(short-key-record)", func() {
				db := newMemKeyDB()
				db.set(id.Server, id.KeyID, key, farFuture, 0)
				_, _ = (&gmsl.KeyRing{KeyDatabase: db}).VerifyJSONs(context.Background(), []gmsl.VerifyJSONRequest{{ServerName: spec.ServerName(id.Server), AtTS: 5, Message: signed, ValidityCheckingFunc: gmsl.NoStrictValidityCheck}})
			})
			x.step("DirectKeyFetcher(short-old-key)", func() {
				kw := newKeyWorld(gen.NewRand(9, "kl"))
				kr := kw.keyResponse(gen.NewRand(9, "kl2"), "a.example", farFuture, "", nil, "")
				v := ref.MustParse(kr.json)
				v.Get("old_verify_keys").Set("ed25519:old", ref.O("key", ref.S(spec.Base64Bytes(key).Encode()), "expired_ts", ref.I(farFuture)))
				// re-sign so that the response is accepted
				v.Del("signatures")
				aid := kw.keys[[2]string{"a.example", "ed25519:k1"}]
				resigned, _ := gmsl.SignJSON("a.example", "ed25519:k1", aid.Priv, gen.Plain().Bytes(v))
				var sk gmsl.ServerKeys
				if err := json.Unmarshal(resigned, &sk); err != nil {
					return
				}
				client := &scriptedKeyClient{direct: map[string]func() (gmsl.ServerKeys, error){"a.example": func() (gmsl.ServerKeys, error) { return sk, nil }}}
				ring := &gmsl.KeyRing{KeyDatabase: newMemKeyDB(), KeyFetchers: []gmsl.KeyFetcher{&gmsl.DirectKeyFetcher{Client: client, IsLocalServerName: func(spec.ServerName) bool { return false }}}}
				msg, _ := gmsl.SignJSON("a.example", "ed25519:old", aid.Priv, []byte(`{"b":2}`))
				_, _ = ring.VerifyJSONs(context.Background(), []gmsl.VerifyJSONRequest{{ServerName: "a.example", AtTS: 5, Message: msg, ValidityCheckingFunc: gmsl.NoStrictValidityCheck}})
			})
			for ver, w := range worlds {
				ver, w := ver, w
				x.step("Allowed(third-party-invite,short-key)", func() {
					pub := spec.Base64Bytes(key).Encode()
					tpi, err := w.build("m.room.third_party_invite", strp("tokX"), authUsers[0], ref.O("display_name", ref.S("x"), "public_keys", ref.A(ref.O("public_key", ref.S(pub)))), nil, "")
					if err != nil {
						return
					}
					inv, err := w.build("m.room.member", strp(authUsers[3]), authUsers[0], ref.O("membership", ref.S("invite"), "third_party_invite", w.signedTPI(authUsers[3], "tokX", true)), nil, "")
					if err != nil {
						return
					}
					state := []gmsl.PDU{w.create, w.pls[0], w.members[[2]string{authUsers[0], "join"}], tpi}
					if prov, err := gmsl.NewAuthEvents(state); err == nil {
						_ = gmsl.Allowed(inv, prov, userIDForSender)
					}
				})
				_ = ver
			}
			x.step("VerifyEventSignatures(pseudo-id-sender,short-key)", func() {
				w := worlds[gmsl.RoomVersionPseudoIDs]
				if w == nil {
					return
				}
				base := ref.MustParse(w.members[[2]string{authUsers[2], "join"}].JSON())
				sender := spec.Base64Bytes(key).Encode()
				if sender == "" {
					sender = "AAAA"
				}
				base.Set("sender", ref.S(sender))
				base.Set("type", ref.S("m.room.message"))
				base.Del("state_key")
				base.Set("signatures", ref.O(sender, ref.O("ed25519:1", ref.S(spec.Base64Bytes(make([]byte, 64)).Encode()))))
				m := rehashAndSign(base, w.t)
				m.Get("signatures").Set(sender, ref.O("ed25519:1", ref.S(spec.Base64Bytes(make([]byte, 64)).Encode())))
				if p, err := gmsl.MustGetRoomVersion(gmsl.RoomVersionPseudoIDs).NewEventFromUntrustedJSON(gen.Plain().Bytes(m)); err == nil || isPersistable(err) {
					if p != nil {
						_ = gmsl.VerifyEventSignatures(context.Background(), p, &gmsl.KeyRing{KeyDatabase: c18db}, userIDForSender)
					}
				}
			})
		})
	}
}

// cyclicReferences: in room versions 1 and 2 the event ID is chosen by the sender and travels in the event, so an event
// can name itself, or two events each other, as auth / prev events. Nothing that walks those links may recurse forever.
func (x *c18) cyclicReferences(worlds map[gmsl.RoomVersion]*world) {
	c := x.c
	for _, ver := range []gmsl.RoomVersion{gmsl.RoomVersionV1, gmsl.RoomVersionV2} {
		w := worlds[ver]
		if w == nil {
			continue
		}
		impl := gmsl.MustGetRoomVersion(ver)
		refTo := func(id string) *ref.Value { return ref.A(ref.S(id), ref.O("sha256", ref.S("aGFzaA"))) }
		mk := func(id string, typ string, sk *string, sender string, content *ref.Value, auth, prev []string) gmsl.PDU {
			ev := ref.O("event_id", ref.S(id), "type", ref.S(typ), "sender", ref.S(sender), "room_id", ref.S(w.roomID), "content", content, "depth", ref.I(5), "origin_server_ts", ref.I(1700000000000), "origin", ref.S("origin.example"))
			if sk != nil {
				ev.Set("state_key", ref.S(*sk))
			}
			a, pr := ref.A(refTo(w.create.EventID())), ref.A()
			for _, id := range auth {
				a.A = append(a.A, refTo(id))
			}
			for _, id := range prev {
				pr.A = append(pr.A, refTo(id))
			}
			ev.Set("auth_events", a)
			ev.Set("prev_events", pr)
			p, err := impl.NewEventFromUntrustedJSON(gen.Plain().Bytes(rehashAndSign(ev, w.t)))
			if err != nil {
				return nil
			}
			return p
		}
		creator := authUsers[0]
		plc := func(n int64) *ref.Value { return ref.O("users", ref.O(creator, ref.I(100), authUsers[1], ref.I(n))) }
		shapes := map[string][]gmsl.PDU{
			"power-levels-citing-itself":      {mk("$selfpl:origin.example", "m.room.power_levels", strp(""), creator, plc(50), []string{"$selfpl:origin.example"}, nil)},
			"power-levels-citing-each-other":  {mk("$pla:origin.example", "m.room.power_levels", strp(""), creator, plc(50), []string{"$plb:origin.example"}, nil), mk("$plb:origin.example", "m.room.power_levels", strp(""), creator, plc(25), []string{"$pla:origin.example"}, nil)},
			"member-citing-itself":            {mk("$selfm:origin.example", "m.room.member", strp(authUsers[1]), creator, ref.O("membership", ref.S("ban")), []string{"$selfm:origin.example"}, []string{"$selfm:origin.example"})},
			"join-rules-three-cycle":          {mk("$j1:origin.example", "m.room.join_rules", strp(""), creator, ref.O("join_rule", ref.S("public")), []string{"$j2:origin.example"}, nil), mk("$j2:origin.example", "m.room.join_rules", strp(""), creator, ref.O("join_rule", ref.S("invite")), []string{"$j3:origin.example"}, nil), mk("$j3:origin.example", "m.room.join_rules", strp(""), creator, ref.O("join_rule", ref.S("knock")), []string{"$j1:origin.example"}, nil)},
			"topic-and-power-levels-in-a-loop": {mk("$t1:origin.example", "m.room.topic", strp(""), creator, ref.O("topic", ref.S("x")), []string{"$pl1:origin.example"}, []string{"$pl1:origin.example"}), mk("$pl1:origin.example", "m.room.power_levels", strp(""), creator, plc(10), []string{"$t1:origin.example"}, []string{"$t1:origin.example"})},
		}
		names := make([]string, 0, len(shapes))
		for n := range shapes {
			names = append(names, n)
		}
		sortStrings(names)
		for i, name := range names {
			evs := shapes[name]
			if !c.Mine(i) {
				continue
			}
			ok := true
			for _, e := range evs {
				if e == nil {
					ok = false
				}
			}
			if !ok {
				c.Count("cyclic_shapes_refused_by_the_parser")
				continue
			}
			c.Case("cyclic-references:"+string(ver)+":"+name, map[string]any{"version": ver, "shape": name}, func() {
				c.Nontrivial("cyclic|" + string(ver) + "|" + name)
				x.entry = "cyclic-references:" + name
				std := []gmsl.PDU{w.create, w.pls[0], w.jrs["public"], w.members[[2]string{creator, "join"}], w.members[[2]string{authUsers[1], "join"}]}
				noRej := func(string) bool { return false }
				x.step("cyclic:state-resolution", func() {
					setA := append(append([]gmsl.PDU{}, std...), evs[0])
					setB := append(append([]gmsl.PDU{}, std...), evs[len(evs)-1])
					auth := append(append([]gmsl.PDU{}, std...), evs...)
					_, _ = gmsl.ResolveConflictsNew(ver, [][]gmsl.PDU{setA, setB}, auth, userIDForSender, noRej)
					_, _ = gmsl.ResolveConflicts(ver, append(append([]gmsl.PDU{}, setA...), setB...), auth, userIDForSender, noRej)
				})
				x.step("cyclic:orderings", func() {
					in := append(append([]gmsl.PDU{}, std...), evs...)
					_ = gmsl.ReverseTopologicalOrdering(in, gmsl.TopologicalOrderByAuthEvents)
					_ = gmsl.ReverseTopologicalOrdering(in, gmsl.TopologicalOrderByPrevEvents)
				})
				x.step("cyclic:VerifyEventAuthChain", func() {
					pool := map[string]gmsl.PDU{}
					for _, e := range append(append([]gmsl.PDU{}, std...), evs...) {
						pool[e.EventID()] = e
					}
					prov := func(roomVer gmsl.RoomVersion, ids []string) ([]gmsl.PDU, error) {
						var out []gmsl.PDU
						for _, id := range ids {
							if e, ok := pool[id]; ok {
								out = append(out, e)
							}
						}
						return out, nil
					}
					for _, e := range evs {
						_ = gmsl.VerifyEventAuthChain(context.Background(), e, prov, userIDForSender)
					}
				})
				c.Count("cyclic_shapes_exercised")
			})
		}
	}
}

// eventAsJSONString: request bodies in which the member that should be an event object is a JSON string whose text
// is the hostile part. The body itself is valid JSON of depth one, so nothing the enclosing decode does limits what is
// inside the string; a reader that unescapes the string and parses the text as an event meets it unprotected.
func (x *c18) eventAsJSONString(worlds map[gmsl.RoomVersion]*world) {
	if x.c.Shard != 0 {
		return
	}
	w := worlds["10"]
	if w == nil {
		return
	}
	texts := map[string]string{
		"valid-event-text":   string(w.members[[2]string{authUsers[2], "invite"}].JSON()),
		"nested-60000-deep":  strings.Repeat(`{"a":`, 60000) + "1" + strings.Repeat("}", 60000),
		"arrays-200000-deep": strings.Repeat("[", 200000) + strings.Repeat("]", 200000),
		"not-json":           `{"type","type":"m.room.member"`,
	}
	for name, text := range texts {
		quoted, _ := json.Marshal(text)
		body := []byte(`{"room_version":"10","invite_room_state":[],"event":` + string(quoted) + `}`)
		x.c.Case("event-as-json-string:invite-v2:"+name, map[string]any{"event_member": "a JSON string", "text_bytes": len(text), "kind": name}, func() {
			x.c.Nontrivial("event-as-string|" + name)
			x.step("InviteV2Request("+name+")", func() {
				var req fclient.InviteV2Request
				if err := json.Unmarshal(body, &req); err == nil && req.Event() != nil {
					x.exercise(req.Event(), w, "invite-v2-event-as-string")
				}
			})
		})
	}
}

type c18Transport func(*http.Request) (*http.Response, error)

func (f c18Transport) RoundTrip(r *http.Request) (*http.Response, error) { return f(r) }

// wellKnownReplies: what a remote server answers to the /.well-known/matrix/server request - status, body and the
// Cache-Control / Expires header lines the cache lifetime is read from - is remote data too. A directed list of
// malformed header values and bodies, then byte mutations of well-formed ones, through LookupWellKnown with the
// process's default transport scripted.
func (x *c18) wellKnownReplies(r *gen.Rand, n int) {
	c := x.c
	type reply struct {
		cc      []string
		expires string
		body    []byte
		status  int
	}
	var cur reply
	old := http.DefaultTransport
	http.DefaultTransport = c18Transport(func(req *http.Request) (*http.Response, error) {
		h := http.Header{}
		for _, v := range cur.cc {
			h.Add("Cache-Control", v)
		}
		if cur.expires != "" {
			h.Set("Expires", cur.expires)
		}
		return &http.Response{StatusCode: cur.status, Header: h, Body: http.NoBody, Request: req, ContentLength: -1}, nil
	})
	defer func() { http.DefaultTransport = old }()
	goodBody := []byte(`{"m.server":"delegated.example:8448"}`)
	ccDirected := []string{`max-age="`, `max-age=`, `max-age`, `=`, `"`, `""`, `max-age=""`, `max-age="\`, `max-age="\"`, `,`, `,,,`, `max-age=-1`, `max-age=1e3`, "max-age=\x00", `"max-age=5`, `max-age="5`, `max-age=5"`,
		`max-age=" "`, `max-age= "5"`, `max-age="5" `, `\`, `a="\`, `a="b\",max-age="`, `MAX-AGE="`, ` max-age="`, "max-age=\"\t", `max-age=99999999999999999999999999`, `max-age=-99999999999999999999999999`, `max-age=+5`,
		"public, max-age=\"3600\", community=\"a\\\"b\"", strings.Repeat(`a="`, 5000), strings.Repeat(",", 20000)}
	expDirected := []string{"", "0", "-1", "Mon", "Mon, 02 Jan 2006 15:04:05 GMT", "Mon, 02 Jan 2006 15:04:05", "Monday, 02-Jan-06 15:04:05 GMT", "Mon Jan  2 15:04:05 2006", "Mon, 99 Jan 2006 15:04:05 GMT", "Mon, 02 Jan 99999 15:04:05 GMT", strings.Repeat("9", 400)}
	bodyDirected := [][]byte{goodBody, []byte(`{"m.server":null}`), []byte(`{"m.server":5}`), []byte(`{"m.server":{}}`), []byte(`[]`), []byte(`null`), nil, []byte(`{"m.server":""}`), []byte(`{"m.server":":"}`), []byte(`{"m.server":"[::1"}`),
		[]byte(strings.Repeat("[", 20000)), []byte(`{"M.SERVER":"x.example"}`), []byte("{\"m.server\":\"a\xff\"}")}
	run := func(name string, rep reply) {
		c.Case("well-known-reply:"+name, map[string]any{"cache_control": rep.cc, "expires": rep.expires, "body_hex": fmt.Sprintf("%x", truncateBytes(rep.body, 200)), "status": rep.status}, func() {
			cur = rep
			c.NontrivialBytes([]byte(fmt.Sprintf("wk|%q|%q|%x|%d", rep.cc, rep.expires, truncateBytes(rep.body, 64), rep.status)))
			c.Count("well_known_replies")
			x.step("LookupWellKnown", func() {
				// (the body is handed over by a fresh reader per request)
				tr := http.DefaultTransport
				http.DefaultTransport = c18Transport(func(req *http.Request) (*http.Response, error) {
					resp, err := tr.RoundTrip(req)
					if resp != nil {
						resp.Body = io.NopCloser(bytes.NewReader(rep.body))
					}
					return resp, err
				})
				defer func() { http.DefaultTransport = tr }()
				ctx, cancel := context.WithTimeout(context.Background(), 5*time.Second)
				defer cancel()
				_, _ = fclient.LookupWellKnown(ctx, "wk-hostile.example")
			})
		})
	}
	if c.Shard == 0 {
		for _, cc := range ccDirected {
			run("directed-cache-control", reply{cc: []string{cc}, body: goodBody, status: 200})
			run("directed-cache-control-second-line", reply{cc: []string{"public", cc}, body: goodBody, status: 200})
		}
		for _, e := range expDirected {
			run("directed-expires", reply{expires: e, body: goodBody, status: 200})
		}
		for _, b := range bodyDirected {
			run("directed-body", reply{cc: []string{"max-age=60"}, body: b, status: 200})
		}
	}
	for k := 0; k < n; k++ {
		rep := reply{cc: []string{string(mutateBytes(r, []byte(gen.Pick(r, []string{`max-age=3600`, `public, max-age="3600", community="a\"b"`, `max-age="`, `no-cache`}))))},
			expires: string(mutateBytes(r, []byte("Mon, 02 Jan 2026 15:04:05 GMT"))), body: mutateBytes(r, goodBody), status: gen.Pick(r, []int{200, 200, 200, 200, 404, 0, 999})}
		if r.Chance(0.3) {
			rep.cc = append(rep.cc, string(mutateBytes(r, []byte(`max-age="10"`))))
		}
		// (a header value never holds CR / LF: the transport would not deliver such a line)
		clean := func(v string) string { return strings.NewReplacer("\r", " ", "\n", " ").Replace(v) }
		for i := range rep.cc {
			rep.cc[i] = clean(rep.cc[i])
		}
		rep.expires = clean(rep.expires)
		run("mutated", rep)
	}
}

// remoteReplies: what a remote server answers to the federation client's own requests is remote data. The client is
// driven through a scripted transport: the first request of a call is answered 404 (which sends send_join / send_leave
// to the older endpoint) or 200, every later one 200, with a directed list of bodies - among them every short array
// the "[200, body]" form of the v1 endpoints can be cut down to - and byte mutations of well-formed ones (ninth
// seeding round, C18-S: "[200]" from the v1 send_join fallback).
func (x *c18) remoteReplies(r *gen.Rand, w *world, n int) {
	c := x.c
	type script struct {
		first404 bool
		body     []byte
	}
	var cur script
	var calls int
	rt := c18Transport(func(req *http.Request) (*http.Response, error) {
		calls++
		status, body := 200, cur.body
		if calls == 1 && cur.first404 {
			status, body = 404, []byte(`{"errcode":"M_UNRECOGNIZED","error":"unknown endpoint"}`)
		}
		return &http.Response{StatusCode: status, Header: http.Header{"Content-Type": []string{"application/json"}}, Body: io.NopCloser(bytes.NewReader(body)), Request: req}, nil
	})
	id := serverIdentity("origin.example")
	fc := fclient.NewFederationClient([]*fclient.SigningIdentity{{ServerName: "origin.example", KeyID: gmsl.KeyID(id.KeyID), PrivateKey: id.Priv}}, fclient.WithTransport(rt), fclient.WithTimeout(5*time.Second))
	join := w.members[[2]string{authUsers[2], "join"}]
	good := []byte(`{"state":[` + string(w.create.JSON()) + `],"auth_chain":[` + string(w.create.JSON()) + `],"origin":"remote.example","event":` + string(join.JSON()) + `}`)
	directed := [][]byte{[]byte(`[200]`), []byte(`[]`), []byte(`[200,{}]`), []byte(`[200,null]`), []byte(`[404]`), []byte(`[200,` + string(good) + `]`), []byte(`[200,` + string(good) + `,3]`), []byte(`["200"]`), []byte(`[null]`), []byte(`[[]]`),
		[]byte(`{}`), []byte(`null`), []byte(`"x"`), []byte(`5`), nil, []byte(`[200,{"state":5}]`), []byte(`{"state":null,"auth_chain":null,"event":null}`), []byte(`{"event":"` + `{}` + `"}`), []byte(`{"pdus":[null]}`), []byte(`{"pdus":5}`),
		[]byte(`{"events":[null,5,"x"]}`), []byte(`{"room_version":5,"event":null}`), []byte(`{"room_version":"10","event":[]}`), good, []byte(strings.Repeat("[", 5000))}
	// make_join templates whose reference lists have every odd shape (tenth seeding round, C18-T: an empty pair)
	for _, refs := range []string{`[["$a:b",{"sha256":"x"}],[]]`, `[[]]`, `[[5,{}]]`, `[null]`, `[""]`, `[[""]]`, `[["$a:b"]]`, `["$a:b",[]]`, `[[[]]]`, `[{}]`, `"x"`, `5`, `null`, `[[null,null]]`, `[["$a:b",5]]`} {
		for _, member := range []string{"prev_events", "auth_events"} {
			directed = append(directed, []byte(`{"room_version":"1","event":{"type":"m.room.member","state_key":"`+authUsers[2]+`","sender":"`+authUsers[2]+`","room_id":"`+w.roomID+`","content":{"membership":"join"},"depth":5,"`+member+`":`+refs+`}}`))
		}
	}
	run := func(name string, sc script) {
		c.Case("remote-reply:"+name, map[string]any{"first_request_answered_404": sc.first404, "body_hex": fmt.Sprintf("%x", truncateBytes(sc.body, 200))}, func() {
			c.NontrivialBytes([]byte(fmt.Sprintf("remote-reply|%v|%x", sc.first404, truncateBytes(sc.body, 96))))
			c.Count("remote_replies")
			do := func(entry string, f func(ctx context.Context)) {
				cur, calls = sc, 0
				x.step("FederationClient."+entry, func() {
					ctx, cancel := context.WithTimeout(context.Background(), 5*time.Second)
					defer cancel()
					f(ctx)
				})
			}
			do("SendJoin", func(ctx context.Context) { _, _ = fc.SendJoin(ctx, "origin.example", "remote.example", join) })
			do("SendJoinPartialState", func(ctx context.Context) { _, _ = fc.SendJoinPartialState(ctx, "origin.example", "remote.example", join) })
			do("SendLeave", func(ctx context.Context) { _ = fc.SendLeave(ctx, "origin.example", "remote.example", join) })
			do("SendKnock", func(ctx context.Context) { _, _ = fc.SendKnock(ctx, "origin.example", "remote.example", join) })
			do("MakeJoin", func(ctx context.Context) {
				if res, err := fc.MakeJoin(ctx, "origin.example", "remote.example", w.roomID, authUsers[2]); err == nil {
					_ = res.GetRoomVersion()
					// the template is what the joining server builds its join event from (PerformJoin does): in the old
					// event format the references are pairs, in the new one IDs - whatever the remote put there
					proto := res.GetJoinEvent()
					for _, bv := range []gmsl.RoomVersion{"1", "2", "10", "12"} {
						p2 := proto
						if impl, err := gmsl.GetRoomVersion(bv); err == nil {
							_, _ = impl.NewEventBuilderFromProtoEvent(&p2).Build(baseTime, "origin.example", gmsl.KeyID(id.KeyID), id.Priv)
						}
					}
				}
			})
			do("MakeLeave", func(ctx context.Context) { _, _ = fc.MakeLeave(ctx, "origin.example", "remote.example", w.roomID, authUsers[2]) })
			do("GetEvent", func(ctx context.Context) { _, _ = fc.GetEvent(ctx, "origin.example", "remote.example", join.EventID()) })
			do("GetEventAuth", func(ctx context.Context) { _, _ = fc.GetEventAuth(ctx, "origin.example", "remote.example", w.ver, w.roomID, join.EventID()) })
			do("LookupState", func(ctx context.Context) {
				if res, err := fc.LookupState(ctx, "origin.example", "remote.example", w.roomID, join.EventID(), w.ver); err == nil {
					_ = res.GetStateEvents().UntrustedEvents(w.ver)
					_ = res.GetAuthEvents().UntrustedEvents(w.ver)
				}
			})
			do("LookupStateIDs", func(ctx context.Context) { _, _ = fc.LookupStateIDs(ctx, "origin.example", "remote.example", w.roomID, join.EventID()) })
			do("LookupMissingEvents", func(ctx context.Context) {
				_, _ = fc.LookupMissingEvents(ctx, "origin.example", "remote.example", w.roomID, fclient.MissingEvents{Limit: 5, EarliestEvents: []string{w.create.EventID()}, LatestEvents: []string{join.EventID()}}, w.ver)
			})
			do("Backfill", func(ctx context.Context) { _, _ = fc.Backfill(ctx, "origin.example", "remote.example", w.roomID, 5, []string{join.EventID()}) })
			do("GetServerKeys", func(ctx context.Context) { _, _ = fc.GetServerKeys(ctx, "remote.example") })
			do("LookupServerKeys", func(ctx context.Context) {
				_, _ = fc.LookupServerKeys(ctx, "remote.example", map[keyReq]spec.Timestamp{{ServerName: "remote.example", KeyID: "ed25519:1"}: 0})
			})
			do("LookupProfile", func(ctx context.Context) { _, _ = fc.LookupProfile(ctx, "origin.example", "remote.example", authUsers[2], "") })
			do("GetUserDevices", func(ctx context.Context) { _, _ = fc.GetUserDevices(ctx, "origin.example", "remote.example", authUsers[2]) })
		})
	}
	for i, b := range directed {
		if !c.Mine(i) {
			continue
		}
		run("directed", script{first404: true, body: b})
		run("directed", script{first404: false, body: b})
	}
	for k := 0; k < n; k++ {
		base := gen.Pick(r, [][]byte{good, []byte(`[200,` + string(good) + `]`), []byte(`[200,{}]`), []byte(`{"pdus":[` + string(join.JSON()) + `],"origin":"remote.example","origin_server_ts":5}`), []byte(`{"room_version":"10","event":` + string(join.JSON()) + `}`)})
		run("mutated", script{first404: r.Chance(0.5), body: mutateBytes(r, base)})
	}
	c.Floor("remote_replies", 2)
}

func truncateBytes(b []byte, n int) []byte {
	if len(b) > n {
		return b[:n]
	}
	return b
}

func runC18(c *mon.Ctx) {
	versions := sortedVersions()
	r := c.Rand("inputs")
	worlds := map[gmsl.RoomVersion]*world{}
	for _, ver := range versions {
		if ref.Traits(string(ver)) == nil {
			continue
		}
		worlds[ver] = newWorld(c.RandShared("world"+string(ver)), ver, "plain", 3)
	}
	x := &c18{c: c}
	x.keyLengthCases(worlds)
	x.cyclicReferences(worlds)
	x.eventAsJSONString(worlds)
	x.wellKnownReplies(c.Rand("well-known"), c.Scale(800, 80000))
	x.remoteReplies(c.Rand("remote-replies"), worlds["10"], c.Scale(400, 40000))
	x.fieldEnumeration(r, versions, worlds)
	x.byteMutation(r, versions, worlds, c.Scale(16000, 1600000), c.Scale(16000, 1600000))
	c.Floor("field_cases_accepted_by_a_parser", 1000)
	c.Floor("byte_cases_accepted_by_a_parser", 200)
	c.Floor("entry_point_calls", 100000)
	if c.Shard == 0 {
		c.Sample(map[string]any{"kind": "field enumeration", "example": "version 10, m.room.member, field room_id replaced by \"!:\"; then every parser and, on acceptance, every accessor / auth / resolution entry point"})
		c.Sample(map[string]any{"kind": "byte mutation", "example": "1-3 edits (bit flip, splice, truncate, token swap, duplicate chunk, stray structural byte) of a valid event, key response, signed object, /state body, Authorization header, identifier, token"})
	}
}
