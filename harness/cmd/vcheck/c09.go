package main

import (
	"errors"
	"strings"
	"fmt"

	gmsl "github.com/matrix-org/gomatrixserverlib"
	"github.com/matrix-org/gomatrixserverlib/spec"

	"verif/gen"
	"verif/mon"
	"verif/ref"
)

func init() {
	register(&propDef{
		ID:    "C09",
		Level: "exploration",
		Rule: "cases come from the C07 generator (version, create variant, composed auth state, event of 16 kinds). Per case the fresh verdict Allowed(event, NewAuthEvents(state)) is compared with: a repeat; 3 shuffled insertion orders; the state restricted to StateNeededForAuth(event).Tuples(); the state plus unrelated events; the event rebuilt with EventBuilder.AddAuthEvents and judged against only the auth events it lists. Reuse: sequences of 2-40 (state, event) evaluations from one room (and, in a minority, two rooms of one version) are run through ONE checker driven like state resolution (one provider cleared and refilled, update, allowed - hook VerifAllower) and each verdict compared with the fresh one. " +
			"distinct = distinct (version, state IDs, event); non-trivial = sequences containing a restricted-join evaluation or a provider change of create / power-levels / join-rules event, and single cases whose state has events the event does not need",
		Assumptions: []string{"the fresh-provider verdict of Allowed is the reference point (Allowed itself is decided by C07)", "hook VerifAllower (build tag verif) wraps the unexported reusable checker without changing it",
			"abstains on auth states whose power-levels / join-rules content does not parse"},
		Run: runC09,
	})
}

func verdictStr(err error) string {
	if err == nil {
		return "allow"
	}
	return "reject"
}

func freshVerdict(state []gmsl.PDU, ev gmsl.PDU) (v string, panicked string) {
	site, msg, pan := mon.Guard(func() {
		prov, err := gmsl.NewAuthEvents(state)
		if err != nil {
			panic("harness: " + err.Error())
		}
		v = verdictStr(gmsl.Allowed(ev, prov, userIDForSender))
	})
	if pan {
		return "", site + ": " + msg
	}
	return v, ""
}

func sameRoom(state []gmsl.PDU) bool {
	rooms := map[string]bool{}
	for _, p := range state {
		mon.Guard(func() { rooms[p.RoomID().String()] = true })
	}
	return len(rooms) <= 1
}

func stateParses(w *world, state []gmsl.PDU) bool {
	for _, p := range state {
		switch p.Type() {
		case "m.room.power_levels":
			if _, err := p.PowerLevels(); err != nil {
				return false
			}
		case "m.room.join_rules":
			if _, err := p.JoinRule(); err != nil {
				return false
			}
		}
	}
	return true
}

func runC09(c *mon.Ctx) {
	versions := sortedVersions()
	r := c.Rand("cases")
	nPL := 8
	perWorld := c.Scale(9600, 320000) / (len(versions) * len(worldVariants))
	if perWorld < 6 {
		perWorld = 6
	}
	nSeq := c.Scale(1300, 40000) / len(versions)
	for _, ver := range versions {
		t := ref.Traits(string(ver))
		if t == nil || ver == gmsl.RoomVersionPseudoIDs {
			continue
		}
		impl := gmsl.MustGetRoomVersion(ver)
		var worlds []*world
		for _, variant := range worldVariants {
			worlds = append(worlds, newWorld(r, ver, variant, nPL))
		}
		// (0) directed: a join under a public join rule whose content has, behind the real members, members that only look
		// like membership / join_authorised_via_users_server (U+017F for 's'; "Membership"): the rules read the real ones,
		// and so does whoever works out which state the event needs - the verdict on exactly that state is the verdict
		c09LookalikeJoin(c, worlds[0])
		// (1) single-evaluation metamorphic relations
		for _, w := range worlds {
			for k := 0; k < perWorld; k++ {
				ac, err := genAuthCase(r, w)
				if err != nil {
					continue
				}
				mr := r.Fork("meta")
				c.Case("meta:"+string(ver)+":"+ac.kind, map[string]any{"version": ver, "kind": ac.kind, "event": string(ac.ev.JSON()), "state": describeState(ac.state)}, func() {
					base, pan := freshVerdict(ac.state, ac.ev)
					if pan != "" {
						c.Failf("auth:panic", "Allowed panics: %s", pan)
						return
					}
					c.Count("single_cases")
					cmp := func(kind string, st []gmsl.PDU, ev gmsl.PDU) {
						v, pan := freshVerdict(st, ev)
						if pan != "" {
							c.Failf("auth:panic", "Allowed panics (%s): %s", kind, pan)
							return
						}
						c.Count("relation|" + kind)
						if v != base {
							c.Failf("verdict-depends-on:"+kind, "v%s %s event: %s against the original state, %s under %s\nevent: %s\nstate: %v\nvariant state: %v", ver, ac.kind, base, v, kind, ev.JSON(), describeState(ac.state), describeState(st))
						}
					}
					cmp("repeat", ac.state, ac.ev)
					{
						// the caller reads the power levels of the state's events, and the library's defaults, and edits what
						// it got back (a room preset, a draft in a settings dialogue): what it got is its own copy - the
						// events and the defaults judge as before
						sender := string(ac.ev.SenderID())
						for _, p := range ac.state {
							if p.Type() != "m.room.power_levels" {
								continue
							}
							if pl, err := p.PowerLevels(); err == nil && pl != nil {
								if pl.Users != nil {
									pl.Users[sender] = 1 << 40
								}
								if pl.Events != nil {
									pl.Events["m.room.name"], pl.Events[ac.ev.Type()] = 0, 0
								}
								if pl.Notifications != nil {
									pl.Notifications["room"] = 0
								}
								pl.StateDefault, pl.EventsDefault, pl.Ban, pl.Kick, pl.Invite = 0, 0, 0, 0, 0
							}
						}
						var d0, d gmsl.PowerLevelContent
						d0.Defaults()
						defaultsBefore := fmt.Sprintf("%+v", d0)
						d.Defaults()
						defer func() {
							var d2 gmsl.PowerLevelContent
							d2.Defaults()
							if after := fmt.Sprintf("%+v", d2); after != defaultsBefore {
								c.Failf("defaults-changed-by-the-callers-edit-of-an-earlier-result", "PowerLevelContent.Defaults() gives %s after the caller edited what an earlier call had given it; before: %s", after, defaultsBefore)
							}
						}()
						if d.Notifications != nil {
							d.Notifications["room"] = 0
						}
						if d.Users != nil {
							d.Users[sender] = 1 << 40
						}
						if d.Events != nil {
							d.Events[ac.ev.Type()] = 0
						}
						cmp("caller-edits-what-the-accessors-returned", ac.state, ac.ev)
					}
					for i := 0; i < 3; i++ {
						cmp("insertion-order", gen.Shuffled(mr, ac.state), ac.ev)
					}
					if sameRoom(ac.state) && ac.kind != "create" && len(worlds) > 1 {
						// an event of ANOTHER room for a slot the state already fills, supplied after (it replaces the
						// room's own event in the provider) or before it (it is replaced): auth events of two rooms never
						// authorise anything, in whichever order they arrive
						ow := worlds[(mr.Intn(len(worlds)-1)+1+indexOfWorld(worlds, w))%len(worlds)]
						var foreign gmsl.PDU
						for _, p := range gen.Shuffled(mr, ac.state) {
							switch p.Type() {
							case "m.room.power_levels":
								foreign = gen.Pick(mr, ow.pls)
							case "m.room.join_rules":
								foreign = ow.jrs[gen.Pick(mr, []string{"public", "invite", "restricted"})]
							case "m.room.member":
								foreign = ow.members[[2]string{*p.StateKey(), gen.Pick(mr, []string{"join", "invite"})}]
							}
							if foreign != nil {
								break
							}
						}
						if foreign != nil && foreign.RoomID().String() != w.roomID {
							for name, st := range map[string][]gmsl.PDU{
								"replacing-the-room's-own": append(append([]gmsl.PDU{}, ac.state...), foreign),
								"replaced-by-the-room's-own": append([]gmsl.PDU{foreign}, ac.state...),
							} {
								v, pan := freshVerdict(st, ac.ev)
								c.Count("relation|foreign-room-event-in-filled-slot")
								if pan == "" && v != "reject" {
									c.Failf("foreign-room-auth-event:accepted:"+name, "v%s %s event is allowed although the provider was given %s (%s %q) of room %s, %s\nevent: %s\nstate as supplied: %v", ver, ac.kind, foreign.EventID(), foreign.Type(), *foreign.StateKey(), foreign.RoomID().String(), name, ac.ev.JSON(), describeState(st))
								}
							}
							// a provider that once held the foreign event in a slot which the room's own event then took over, cleared
							// and filled with the room's state again, is a provider holding the room's state: the verdict of a fresh
							// one (tenth seeding round, C09-T: Clear forgot only the rooms of the events it still held)
							base, bpan := freshVerdict(ac.state, ac.ev)
							if bpan == "" {
								var hv string
								_, _, hpan := mon.Guard(func() {
									prov, err := gmsl.NewAuthEvents(nil)
									if err != nil {
										panic("harness: " + err.Error())
									}
									_ = prov.AddEvent(foreign)
									for _, p := range ac.state {
										_ = prov.AddEvent(p)
									}
									prov.Clear()
									for _, p := range ac.state {
										_ = prov.AddEvent(p)
									}
									hv = verdictStr(gmsl.Allowed(ac.ev, prov, userIDForSender))
								})
								c.Count("relation|provider-cleared-after-a-foreign-event-was-overwritten")
								if !hpan && hv != base {
									c.Failf("provider-history:cleared-provider-remembers-a-foreign-room", "v%s %s event: a fresh provider with the room's state says %s; a provider that held an event of room %s in a slot the room's own event then took over, was cleared and refilled says %s", ver, ac.kind, base, foreign.RoomID().String(), hv)
								}
							}
						}
					}
					if sameRoom(ac.state) {
						needed := map[gmsl.StateKeyTuple]bool{}
						for _, tup := range gmsl.StateNeededForAuth([]gmsl.PDU{ac.ev}).Tuples() {
							needed[tup] = true
						}
						var only []gmsl.PDU
						dropped := 0
						for _, p := range ac.state {
							if needed[gmsl.StateKeyTuple{EventType: p.Type(), StateKey: *p.StateKey()}] {
								only = append(only, p)
							} else {
								dropped++
							}
						}
						cmp("needed-state-only", only, ac.ev)
						if dropped > 0 {
							ids := ""
							for _, p := range ac.state {
								ids += p.EventID()
							}
							c.Nontrivial(string(ver) + "|" + ids + "|" + ac.ev.EventID())
						}
						// unrelated additions
						extra := append([]gmsl.PDU{}, ac.state...)
						for _, u := range authUsers {
							if !needed[gmsl.StateKeyTuple{EventType: "m.room.member", StateKey: u}] {
								extra = append(extra, w.members[[2]string{u, gen.Pick(mr, []string{"join", "ban", "leave"})}])
							}
						}
						if !needed[gmsl.StateKeyTuple{EventType: "m.room.join_rules", StateKey: ""}] {
							extra = append(extra, w.jrs[gen.Pick(mr, []string{"public", "restricted"})])
						}
						if !needed[gmsl.StateKeyTuple{EventType: "m.room.third_party_invite", StateKey: "tok1"}] {
							extra = append(extra, w.tpi)
						}
						cmp("unrelated-state-added", extra, ac.ev)
					}
					// AddAuthEvents sufficiency
					provStates := [][]gmsl.PDU{ac.state}
					if t.Domainless {
						// the same with a provider that does not hold the create event (in these versions it is never listed
						// among the auth events, and a caller may well leave it out of what it loads)
						var noCreate []gmsl.PDU
						for _, p := range ac.state {
							if p.Type() != "m.room.create" {
								noCreate = append(noCreate, p)
							}
						}
						provStates = append(provStates, noCreate)
					}
					for pi, provState := range provStates {
						if !(sameRoom(ac.state) && ac.kind != "create") {
							break
						}
						prov, err := gmsl.NewAuthEvents(provState)
						if err != nil {
							return
						}
						sk := ac.ev.StateKey()
						eb := impl.NewEventBuilderFromProtoEvent(&gmsl.ProtoEvent{SenderID: string(ac.ev.SenderID()), RoomID: w.roomID, Type: ac.ev.Type(), StateKey: sk,
							PrevEvents: ac.ev.PrevEventIDs(), Depth: ac.ev.Depth(), Content: ac.ev.Content(), Redacts: ac.ev.Redacts()})
						if err := eb.AddAuthEvents(prov); err != nil {
							c.Count("add_auth_events_refused")
							return
						}
						id := serverIdentity(serverOf(string(ac.ev.SenderID())))
						built, err := eb.Build(baseTime, spec.ServerName(id.Server), gmsl.KeyID(id.KeyID), id.Priv)
						if err != nil {
							c.Count("add_auth_events_build_refused")
							return
						}
						byID := map[string]gmsl.PDU{}
						for _, p := range ac.state {
							byID[p.EventID()] = p
						}
						var sel []gmsl.PDU
						for _, aid := range built.AuthEventIDs() {
							if p, ok := byID[aid]; ok {
								sel = append(sel, p)
							}
						}
						full, pan := freshVerdict(ac.state, built)
						if pan != "" {
							return
						}
						own, pan := freshVerdict(sel, built)
						if pan != "" {
							return
						}
						c.Count("relation|add-auth-events")
						if full != own {
							how := "AddAuthEvents"
							if pi == 1 {
								how = "AddAuthEvents from a provider without the create event"
							}
							c.Failf("verdict-depends-on:auth-events-selected-by-AddAuthEvents", "v%s %s event built with %s: %s against the full state, %s against the auth events it lists\nevent: %s\nstate: %v\nselected: %v", ver, ac.kind, how, full, own, built.JSON(), describeState(ac.state), describeState(sel))
						}
					}
				})
			}
		}
		// (2) reuse through one checker
		for s := 0; s < nSeq; s++ {
			sr := r.Fork("seq")
			w := gen.Pick(sr, worlds)
			mixRooms := sr.Chance(0.15)
			n := sr.Range(2, 40)
			type step struct {
				state []gmsl.PDU
				ev    gmsl.PDU
				kind  string
				w     *world
			}
			var steps []step
			interesting := false
			var lastPL, lastJR, lastCreate string
			for i := 0; i < n; i++ {
				cw := w
				if mixRooms && sr.Chance(0.3) {
					cw = gen.Pick(sr, worlds)
				}
				ac, err := genAuthCase(sr, cw)
				if err != nil {
					continue
				}
				if mixRooms && sr.Chance(0.2) && len(ac.state) > 0 {
					// an auth event of another room among the state (a power-levels or member event that would authorise
					// the sender there): refused on its own, so refused through the reused checker
					ow := gen.Pick(sr, worlds)
					if ow != cw && len(ow.pls) > 0 {
						ac.state = append(ac.state, gen.Pick(sr, ow.pls))
						ac.kind += "+auth-event-of-another-room"
						interesting = true
					}
				} else if !sameRoom(ac.state) {
					continue
				}
				if sr.Chance(0.12) {
					// join rules / power levels that are legitimate state but that the content decoders refuse: whatever the
					// fresh check makes of them, the reused checker must make the same of them (and not keep the previous ones)
					typ, content := "m.room.join_rules", gen.Pick(sr, []*ref.Value{ref.O("join_rule", ref.S("invite"), "allow", ref.S("x")), ref.O("join_rule", ref.I(5)), ref.O("join_rule", ref.S("public"), "allow", ref.I(1))})
					if sr.Chance(0.5) {
						typ, content = "m.room.power_levels", gen.Pick(sr, []*ref.Value{ref.O("ban", ref.S("50"), "users", ref.O(authUsers[0], ref.I(100))), ref.O("users", ref.A()), ref.O("events", ref.S("x")), ref.O("kick", ref.O())})
					}
					if odd, e := cw.build(typ, strp(""), authUsers[0], content, nil, ""); e == nil {
						out := ac.state[:0:0]
						for _, q := range ac.state {
							if !(q.Type() == typ && q.StateKeyEquals("")) {
								out = append(out, q)
							}
						}
						ac.state = append(out, odd)
						ac.kind += "+undecodable-" + typ[7:]
						interesting = true
					}
				}
				steps = append(steps, step{ac.state, ac.ev, ac.kind, cw})
				if mixRooms && sr.Chance(0.15) && sameRoom(ac.state) {
					// the same event against the same state plus a MEMBER event of another room, straight after: create, power
					// levels and join rules are the very events the checker has just loaded, only the extra event is foreign
					// (tenth seeding round, C10-T: "all of one room" remembered from the last time those three were loaded)
					ow := gen.Pick(sr, worlds)
					if fm := ow.members[[2]string{gen.Pick(sr, authUsers), "join"}]; ow != cw && fm != nil {
						steps = append(steps, step{append(append([]gmsl.PDU{}, ac.state...), fm), ac.ev, ac.kind + "+member-event-of-another-room-after-the-same-state", cw})
						interesting = true
					}
				}
				if sr.Chance(0.08) && len(cw.pls) > 0 {
					// two power-levels events judged against the SAME power-levels event one after the other: one from the
					// creator, one from the most powerful other user (what the first looks at must not leak into the second)
					x := gen.Pick(sr, cw.pls)
					cur := ref.MustParse(x.Content())
					st := []gmsl.PDU{cw.create, x}
					for _, u := range authUsers {
						st = append(st, cw.members[[2]string{u, "join"}])
					}
					creators := []string{authUsers[0]}
					if cw.variant == "federated-explicit" && cw.t.PrivCreators {
						creators = append(creators, authUsers[1])
					}
					eff := parseEff(cur)
					admin, best := "", int64(-1<<62)
					for _, u := range authUsers[len(creators):] {
						if l := eff.user(u); l > best {
							admin, best = u, l
						}
					}
					for _, sender := range []string{gen.Pick(sr, creators), admin} {
						content := cur.Clone()
						if sr.Chance(0.5) {
							content = proposePL(sr, cw.t, cur, creators)
						}
						if ev, e := cw.build("m.room.power_levels", strp(""), sender, content, nil, ""); e == nil {
							steps = append(steps, step{st, ev, "power-levels", cw})
						}
					}
					interesting = true
				}
				if ac.kind == "restricted-join" {
					interesting = true
				}
				pl, jr, cr := "", "", ""
				for _, p := range ac.state {
					switch p.Type() {
					case "m.room.power_levels":
						pl = p.EventID()
					case "m.room.join_rules":
						jr = p.EventID()
					case "m.room.create":
						cr = p.EventID()
					}
				}
				if i > 0 && (pl != lastPL || jr != lastJR || cr != lastCreate) {
					interesting = true
				}
				lastPL, lastJR, lastCreate = pl, jr, cr
			}
			if len(steps) < 2 {
				continue
			}
			kinds := []string{}
			for _, st := range steps {
				kinds = append(kinds, st.kind)
			}
			flakyAt := 0
			if r.Chance(0.5) {
				flakyAt = r.Range(1, 8) // the sender lookup of the reused checker fails once, at this call of it
			}
			c.Case("reuse:"+string(ver), map[string]any{"version": ver, "steps": kinds, "mix_rooms": mixRooms, "sender_lookup_fails_once_at_call": flakyAt}, func() {
				prov, _ := gmsl.NewAuthEvents(nil)
				lookups, faultedNow := 0, false
				flaky := func(roomID spec.RoomID, senderID spec.SenderID) (*spec.UserID, error) {
					lookups++
					if lookups == flakyAt {
						faultedNow = true
						return nil, errors.New("scripted fault (once)")
					}
					return userIDForSender(roomID, senderID)
				}
				var chk *gmsl.VerifAllower
				c.Count("reuse_sequences")
				if interesting {
					c.Nontrivial(fmt.Sprintf("seq|%s|%d|%v", ver, s, kinds))
				}
				hist := []string{}
				for i, st := range steps {
					fresh, pan := freshVerdict(st.state, st.ev)
					if pan != "" {
						c.Failf("auth:panic", "Allowed panics: %s", pan)
						return
					}
					var reused string
					site, msg, panicked := mon.Guard(func() {
						prov.Clear()
						for _, p := range st.state {
							_ = prov.AddEvent(p)
						}
						faultedNow = false
						if chk == nil {
							chk = gmsl.NewVerifAllower(prov, flaky, st.ev.RoomID())
						} else {
							chk.Update(prov)
						}
						reused = verdictStr(chk.Allowed(st.ev))
					})
					hist = append(hist, fmt.Sprintf("%d:%s fresh=%s reused=%s", i, st.kind, fresh, reused))
					if panicked {
						if fresh == "reject" {
							// a crash where the fresh path cleanly rejects is a different outcome
							c.Failf("reuse:panic:"+site, "reused checker panics (%s) at step %d of %v where a fresh Allowed rejects\nevent: %s\nstate: %v", msg, i, hist, st.ev.JSON(), describeState(st.state))
						} else {
							c.Failf("reuse:panic:"+site, "reused checker panics (%s) at step %d of %v", msg, i, hist)
						}
						return
					}
					c.Count("reuse_evaluations")
					// the cleared and refilled provider itself, handed to the public entry point
					if viaProvider, pan := func() (string, string) {
						var v string
						site, msg, p := mon.Guard(func() { v = verdictStr(gmsl.Allowed(st.ev, prov, userIDForSender)) })
						if p {
							return "", site + ": " + msg
						}
						return v, ""
					}(); pan == "" && viaProvider != fresh {
						c.Failf("reuse:cleared-provider-verdict-differs:"+fresh+"-on-a-fresh-provider", "v%s: step %d (%s) is %s with a fresh provider but %s with a provider that was cleared and refilled\nsequence: %v\nevent: %s\nstate: %v", ver, i, st.kind, fresh, viaProvider, hist, st.ev.JSON(), describeState(st.state))
						return
					}
					if faultedNow {
						// the lookup failed during this very evaluation: whatever it answered, it is the later ones that count
						c.Count("reuse_evaluations_hit_by_the_single_lookup_fault")
						continue
					}
					if reused != fresh && flakyAt > 0 && lookups >= flakyAt {
						c.Failf("reuse:verdict-differs:after-a-sender-lookup-that-failed-once:"+fresh+"-on-its-own", "v%s: step %d (%s) is %s on its own but %s through the reused checker, whose sender lookup had failed once at an earlier step (call %d)\nsequence: %v\nevent: %s", ver, i, st.kind, fresh, reused, flakyAt, hist, st.ev.JSON())
						return
					}
					if reused != fresh {
						prevKind := ""
						if i > 0 {
							prevKind = steps[i-1].kind
						}
						c.Failf(reuseSig(st.kind, prevKind, fresh, st.state), "v%s: step %d (%s) is %s on its own but %s through the reused checker\nsequence: %v\nevent: %s\nstate: %v", ver, i, st.kind, fresh, reused, hist, st.ev.JSON(), describeState(st.state))
						return
					}
				}
				if c.WantSample() && interesting && len(steps) < 12 {
					c.Sample(map[string]any{"version": ver, "sequence": hist})
				}
			})
		}
	}
	c.Floor("single_cases", 500)
	c.Floor("relation|needed-state-only", 300)
	c.Floor("relation|add-auth-events", 200)
	c.Floor("reuse_evaluations", 2000)
}

func indexOfWorld(ws []*world, w *world) int {
	for i, x := range ws {
		if x == w {
			return i
		}
	}
	return 0
}

// reuseSig names the shape of a reuse divergence.
func reuseSig(kind, prevKind, fresh string, state []gmsl.PDU) string {
	if strings.Contains(kind, "+auth-event-of-another-room") {
		return "reuse:verdict-differs:with-auth-event-of-another-room:" + fresh + "-on-its-own"
	}
	if i := strings.Index(kind, "+undecodable-"); i >= 0 {
		return "reuse:verdict-differs:with-" + kind[i+1:] + ":" + fresh + "-on-its-own"
	}
	hasCreate := false
	for _, p := range state {
		if p.Type() == "m.room.create" {
			hasCreate = true
		}
	}
	switch {
	case !hasCreate:
		return "reuse:stale-create:" + fresh + "-on-its-own"
	case kind == "restricted-join" || kind == "member-self" || kind == "knock" || kind == "first-join":
		return "reuse:self-membership-verdict-differs:" + fresh + "-on-its-own"
	}
	return "reuse:verdict-differs:" + kind + ":" + fresh + "-on-its-own"
}

func c09LookalikeJoin(c *mon.Ctx, w *world) {
	if c.Shard != 0 {
		return
	}
	for _, u := range authUsers[1:3] {
		for _, look := range []*ref.Value{
			ref.O("membership", ref.S("join"), "member\u017fhip", ref.S("leave")),
			ref.O("membership", ref.S("join"), "Membership", ref.S("leave")),
			ref.O("membership", ref.S("join"), "member\u017fhip", ref.S("leave"), "join_authori\u017fed_via_users_server", ref.S(authUsers[0])),
			ref.O("membership", ref.S("leave"), "member\u017fhip", ref.S("join")),
		} {
			ev, err := w.build("m.room.member", strp(u), u, look, nil, "")
			if err != nil {
				continue
			}
			full := []gmsl.PDU{w.create, w.pls[0], w.jrs["public"], w.members[[2]string{authUsers[0], "join"}], w.members[[2]string{u, "leave"}]}
			name := fmt.Sprintf("meta:%s:lookalike-join:%s", w.ver, gen.Describe(look))
			c.Case(name, map[string]any{"version": w.ver, "event": string(ev.JSON()), "state": describeState(full)}, func() {
				c.Nontrivial(name)
				needed := map[gmsl.StateKeyTuple]bool{}
				for _, tup := range gmsl.StateNeededForAuth([]gmsl.PDU{ev}).Tuples() {
					needed[tup] = true
				}
				var only []gmsl.PDU
				for _, p := range full {
					if needed[gmsl.StateKeyTuple{EventType: p.Type(), StateKey: *p.StateKey()}] {
						only = append(only, p)
					}
				}
				a, pa := freshVerdict(full, ev)
				b, pb := freshVerdict(only, ev)
				c.Count("relation|lookalike-join:needed-state-only")
				if pa == "" && pb == "" && a != b {
					c.Failf("verdict-depends-on:needed-state-only:lookalike-members", "v%s: a member event with content %s is judged %s on the room's state and %s on exactly the state StateNeededForAuth names (%d of %d events)", w.ver, gen.Describe(look), a, b, len(only), len(full))
				}
			})
		}
	}
}
