package main

import (
	"fmt"
	"sort"
	"time"

	gmsl "github.com/matrix-org/gomatrixserverlib"
	"github.com/matrix-org/gomatrixserverlib/spec"

	"verif/gen"
	"verif/ref"
)

// A room simulator: builds a real event DAG (create, joins, power levels,
// join rules, then forked branches of actions), each event built by the real
// EventBuilder with auth events chosen by AddAuthEvents over its branch state
// and kept only if Allowed accepts it there (a fraction of refused events is
// kept on the side).

type stKey struct{ Type, Key string }

type simBranch struct {
	state map[stKey]gmsl.PDU
	tip   string
	depth int64
	ts    int64
}

func (b *simBranch) clone() *simBranch {
	nb := &simBranch{state: map[stKey]gmsl.PDU{}, tip: b.tip, depth: b.depth, ts: b.ts}
	for k, v := range b.state {
		nb.state[k] = v
	}
	return nb
}

func (b *simBranch) list() []gmsl.PDU {
	keys := make([]stKey, 0, len(b.state))
	for k := range b.state {
		keys = append(keys, k)
	}
	sort.Slice(keys, func(i, j int) bool {
		if keys[i].Type != keys[j].Type {
			return keys[i].Type < keys[j].Type
		}
		return keys[i].Key < keys[j].Key
	})
	out := make([]gmsl.PDU, 0, len(keys))
	for _, k := range keys {
		out = append(out, b.state[k])
	}
	return out
}

type sim struct {
	ver      gmsl.RoomVersion
	t        *ref.VersionTraits
	impl     gmsl.IRoomVersion
	r        *gen.Rand
	roomID   string
	create   gmsl.PDU
	all      map[string]gmsl.PDU // every state event ever accepted (or kept although refused)
	order    []gmsl.PDU
	refused  []gmsl.PDU // events Allowed refused at their position (for rejected-event oracles)
	users    []string
	equalTS  bool
	trace    []string
}

var simUsers = []string{"@creator:origin.example", "@alice:origin.example", "@bob:other.example", "@carol:third.example", "@dave:origin.example", "@erin:other.example"}

func (s *sim) provider(b *simBranch) *gmsl.AuthEvents {
	p, err := gmsl.NewAuthEvents(b.list())
	if err != nil {
		panic(err)
	}
	return p
}

// propose builds an event on a branch; it is appended when allowed.
func (s *sim) propose(b *simBranch, typ string, sk *string, sender string, content *ref.Value, keepRefused bool) (gmsl.PDU, bool) {
	b.depth++
	if !s.equalTS || s.r.Chance(0.5) {
		b.ts += int64(s.r.Range(1, 4000))
	}
	prev := []string{}
	if b.tip != "" {
		prev = []string{b.tip}
	}
	eb := s.impl.NewEventBuilderFromProtoEvent(&gmsl.ProtoEvent{SenderID: sender, RoomID: s.roomID, Type: typ, StateKey: sk, PrevEvents: prev, Depth: b.depth,
		Content: gen.Plain().Bytes(content)})
	prov := s.provider(b)
	if err := eb.AddAuthEvents(prov); err != nil {
		return nil, false
	}
	id := serverIdentity(serverOf(sender))
	ev, err := eb.Build(time.UnixMilli(b.ts), spec.ServerName(id.Server), gmsl.KeyID(id.KeyID), id.Priv)
	if err != nil {
		return nil, false
	}
	// the protocol also wants the invitee's server (invites) and the authorising
	// user's server (restricted joins) to sign
	if typ == "m.room.member" && sk != nil {
		m, _ := content.Get("membership").Str()
		if m == "invite" && serverOf(*sk) != serverOf(sender) {
			oid := serverIdentity(serverOf(*sk))
			ev = ev.Sign(oid.Server, gmsl.KeyID(oid.KeyID), oid.Priv)
		}
		if via, ok := content.Get("join_authorised_via_users_server").Str(); ok && m == "join" && serverOf(via) != serverOf(sender) {
			oid := serverIdentity(serverOf(via))
			ev = ev.Sign(oid.Server, gmsl.KeyID(oid.KeyID), oid.Priv)
		}
	}
	if err := gmsl.Allowed(ev, prov, userIDForSender); err != nil {
		if keepRefused && sk != nil {
			s.refused = append(s.refused, ev)
			s.all[ev.EventID()] = ev
		}
		return ev, false
	}
	if sk != nil {
		b.state[stKey{typ, *sk}] = ev
		s.all[ev.EventID()] = ev
		s.order = append(s.order, ev)
	}
	b.tip = ev.EventID()
	s.trace = append(s.trace, fmt.Sprintf("%s %s[%v] by %s: %s", ev.EventID()[:8], typ, deref(sk), sender, gen.Plain().Bytes(content)))
	return ev, true
}

func deref(s *string) string {
	if s == nil {
		return "<nil>"
	}
	return *s
}

// newSim creates the trunk of a room.
// simCreateVersionOverride, when set, is written into the create event's
// content.room_version instead of the real version (only room versions whose
// create-event auth rule ignores that member accept such a room).
var simCreateVersionOverride string

// simExtraCreatorOverride, when set, is the second creator of every room of a version with privileged creators (instead
// of a random choice between none, a user of the origin server and a user of another one).
var simExtraCreatorOverride string

// simInitialPowerLevels, when set, supplies the content of the room's first power-levels event (the only one in which
// the creator can give anybody, themselves included, any level whatever).
var simInitialPowerLevels func(creator string) *ref.Value

func newSim(r *gen.Rand, ver gmsl.RoomVersion) (*sim, *simBranch) {
	t := ref.Traits(string(ver))
	s := &sim{ver: ver, t: t, impl: gmsl.MustGetRoomVersion(ver), r: r, all: map[string]gmsl.PDU{}, users: simUsers, equalTS: r.Chance(0.3)}
	creator := simUsers[0]
	cc := ref.O("creator", ref.S(creator), "room_version", ref.S(string(ver)))
	extraCreator := ""
	if t.PrivCreators && simExtraCreatorOverride != "" {
		extraCreator = simExtraCreatorOverride
		cc.Set("additional_creators", ref.A(ref.S(extraCreator)))
	} else if t.PrivCreators && r.Chance(0.5) {
		// a second creator: a user of the origin server or of another one
		extraCreator = simUsers[1]
		if r.Chance(0.5) {
			extraCreator = simUsers[2]
		}
		cc.Set("additional_creators", ref.A(ref.S(extraCreator)))
	}
	if simCreateVersionOverride == "<empty>" {
		cc.Set("room_version", ref.S("")) // present, but naming no version
	} else if simCreateVersionOverride != "" {
		cc.Set("room_version", ref.S(simCreateVersionOverride))
	}
	ps := protoSpec{Type: "m.room.create", StateKey: strp(""), Sender: creator, RoomID: fmt.Sprintf("!sim%d:origin.example", r.Intn(1<<30)), Content: gen.Plain().Bytes(cc), Depth: 1}
	if t.Domainless {
		ps.RoomID = ""
	}
	ts := baseTime.UnixMilli() + int64(r.Intn(1000000))
	ce, err := buildEvent(ver, ps, serverIdentity("origin.example"), time.UnixMilli(ts))
	if err != nil {
		panic(err)
	}
	s.create = ce
	s.roomID = ce.RoomID().String()
	s.all[ce.EventID()] = ce
	s.order = append(s.order, ce)
	b := &simBranch{state: map[stKey]gmsl.PDU{{"m.room.create", ""}: ce}, tip: ce.EventID(), depth: 1, ts: ts}
	must := func(typ string, sk *string, sender string, c *ref.Value) {
		if _, ok := s.propose(b, typ, sk, sender, c, false); !ok {
			panic(fmt.Sprintf("harness: trunk event %s by %s refused in v%s: %v", typ, sender, ver, s.trace))
		}
	}
	must("m.room.member", strp(creator), creator, ref.O("membership", ref.S("join")))
	// initial power levels
	users := ref.O()
	if !t.PrivCreators {
		users.Set(creator, ref.I(100))
	}
	for _, u := range simUsers[1:] {
		if u == extraCreator {
			continue
		}
		if r.Chance(0.6) {
			users.Set(u, ref.I(gen.Pick(r, []int64{100, 50, 50, 25, 0})))
		}
	}
	pl := ref.O("users", users, "state_default", ref.I(gen.Pick(r, []int64{50, 25, 0})), "events_default", ref.I(0), "ban", ref.I(50), "kick", ref.I(50), "invite", ref.I(gen.Pick(r, []int64{0, 50})),
		"users_default", ref.I(gen.Pick(r, []int64{0, 0, 25})))
	if r.Chance(0.5) {
		pl.Set("events", ref.O("m.room.topic", ref.I(gen.Pick(r, []int64{0, 25, 50})), "m.room.power_levels", ref.I(gen.Pick(r, []int64{50, 100}))))
	}
	if simInitialPowerLevels != nil {
		pl = simInitialPowerLevels(creator)
	}
	must("m.room.power_levels", strp(""), creator, pl)
	jr := gen.Pick(r, []string{"public", "public", "public", "invite"})
	if t.Restricted && r.Chance(0.2) {
		jr = "restricted"
	}
	must("m.room.join_rules", strp(""), creator, ref.O("join_rule", ref.S(jr)))
	for _, u := range simUsers[1:] {
		if r.Chance(0.75) {
			switch jr {
			case "public":
				must("m.room.member", strp(u), u, ref.O("membership", ref.S("join")))
			default:
				must("m.room.member", strp(u), creator, ref.O("membership", ref.S("invite")))
				if r.Chance(0.8) {
					must("m.room.member", strp(u), u, ref.O("membership", ref.S("join")))
				}
			}
		}
	}
	if r.Chance(0.6) {
		must("m.room.topic", strp(""), creator, ref.O("topic", ref.S("trunk")))
	}
	return s, b
}

func (s *sim) membership(b *simBranch, u string) string {
	if ev, ok := b.state[stKey{"m.room.member", u}]; ok {
		m, _ := ev.Membership()
		return m
	}
	return ""
}

// act performs one random action on a branch.
func (s *sim) act(b *simBranch) {
	r := s.r
	joined := []string{}
	for _, u := range s.users {
		if s.membership(b, u) == "join" {
			joined = append(joined, u)
		}
	}
	if len(joined) == 0 {
		joined = []string{s.users[0]}
	}
	sender := gen.Pick(r, joined)
	target := gen.Pick(r, s.users)
	keep := r.Chance(0.15)
	kind := r.Intn(12)
	switch kind {
	case 0, 1: // power-level change
		var cur *ref.Value
		if ev, ok := b.state[stKey{"m.room.power_levels", ""}]; ok {
			cur = ref.MustParse(ev.Content())
		}
		creators := gmsl.CreatorsFromCreateEvent(s.create)
		c := cur.Clone()
		switch r.Intn(4) {
		case 0, 1:
			u := c.Get("users")
			if u == nil {
				u = ref.O()
				c.Set("users", u)
			}
			tu := target
			isCreator := false
			for _, cr := range creators {
				if cr == tu && s.t.PrivCreators {
					isCreator = true
				}
			}
			if !isCreator {
				u.Set(tu, ref.I(gen.Pick(r, []int64{0, 25, 50, 75, 100})))
			}
		case 2:
			c.Set(gen.Pick(r, []string{"ban", "kick", "invite", "state_default", "events_default", "users_default"}), ref.I(gen.Pick(r, []int64{0, 25, 50, 75})))
		default:
			e := c.Get("events")
			if e == nil {
				e = ref.O()
				c.Set("events", e)
			}
			e.Set(gen.Pick(r, []string{"m.room.topic", "m.room.name", "com.example.custom"}), ref.I(gen.Pick(r, []int64{0, 25, 50, 75})))
		}
		s.propose(b, "m.room.power_levels", strp(""), sender, c, keep)
	case 2: // join rules
		rules := []string{"public", "invite"}
		if s.t.Knock {
			rules = append(rules, "knock")
		}
		if s.t.Restricted {
			rules = append(rules, "restricted")
		}
		s.propose(b, "m.room.join_rules", strp(""), sender, ref.O("join_rule", ref.S(gen.Pick(r, rules))), keep)
	case 3, 4: // ban; kick / unban
		c := ref.O("membership", ref.S(map[int]string{3: "ban", 4: "leave"}[kind]))
		if r.Chance(0.2) {
			// optional fields of an unexpected type do not make it any less of a ban / kick
			c.Set(gen.Pick(r, []string{"reason", "displayname", "is_direct", "avatar_url"}), gen.Pick(r, []*ref.Value{ref.I(5), ref.A(), ref.O("x", ref.I(1)), ref.NullV()}))
		}
		s.propose(b, "m.room.member", strp(target), sender, c, keep)
	case 5: // invite
		s.propose(b, "m.room.member", strp(target), sender, ref.O("membership", ref.S("invite")), keep)
	case 6, 7: // somebody (re)joins or leaves
		who := gen.Pick(r, s.users)
		m := gen.Pick(r, []string{"join", "join", "leave"})
		c := ref.O("membership", ref.S(m))
		if m == "join" && s.t.Restricted && r.Chance(0.3) && len(joined) > 0 {
			c.Set("join_authorised_via_users_server", ref.S(gen.Pick(r, joined)))
		}
		if r.Chance(0.3) {
			c.Set("displayname", ref.S(fmt.Sprintf("name%d", r.Intn(100))))
		}
		s.propose(b, "m.room.member", strp(who), who, c, keep)
	case 8, 9: // topic / name
		typ := gen.Pick(r, []string{"m.room.topic", "m.room.name"})
		s.propose(b, typ, strp(""), sender, ref.O("topic", ref.S(fmt.Sprintf("t%d", r.Intn(1000))), "name", ref.S("n")), keep)
	case 10: // custom state with a state key
		s.propose(b, "com.example.custom", strp(gen.Pick(r, []string{"", "k1", sender})), sender, ref.O("v", ref.I(int64(r.Intn(100)))), keep)
	default: // a message (moves the tip, no state)
		s.propose(b, "m.room.message", nil, sender, ref.O("body", ref.S("hi")), false)
	}
}

// simScenario is one resolution input.
type simScenario struct {
	s         *sim
	trunk     *simBranch
	branches  []*simBranch
	stateSets [][]gmsl.PDU
	authAll   []gmsl.PDU
}

// genScenario runs the simulator: trunk, fork into k branches with actions, optional nested fork.
func genScenario(r *gen.Rand, ver gmsl.RoomVersion, maxActions int) *simScenario {
	s, trunk := newSim(r, ver)
	for i := r.Intn(4); i > 0; i-- {
		s.act(trunk)
	}
	k := r.Range(2, 4)
	sc := &simScenario{s: s, trunk: trunk}
	for i := 0; i < k; i++ {
		b := trunk.clone()
		n := r.Range(1, maxActions)
		for j := 0; j < n; j++ {
			s.act(b)
		}
		sc.branches = append(sc.branches, b)
		if r.Chance(0.4) && len(sc.branches) < 5 {
			nb := b.clone()
			for j := r.Range(1, maxActions); j > 0; j-- {
				s.act(nb)
			}
			for j := r.Range(0, 2); j > 0; j-- {
				s.act(b)
			}
			sc.branches = append(sc.branches, nb)
		}
	}
	// present the branches in random order: branches sharing ancestry beyond the
	// trunk (nested forks) must not always be neighbours
	sc.branches = gen.Shuffled(r, sc.branches)
	for _, b := range sc.branches {
		sc.stateSets = append(sc.stateSets, b.list())
	}
	ids := make([]string, 0, len(s.all))
	for id := range s.all {
		ids = append(ids, id)
	}
	sort.Strings(ids)
	for _, id := range ids {
		sc.authAll = append(sc.authAll, s.all[id])
	}
	return sc
}
