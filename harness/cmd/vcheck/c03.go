package main

import (
	"regexp"
	"unicode/utf8"
	"encoding/base64"
	"encoding/json"
	"fmt"
	"strings"

	gmsl "github.com/matrix-org/gomatrixserverlib"

	"verif/gen"
	"verif/mon"
	"verif/ref"
)

func init() {
	register(&propDef{
		ID:    "C03",
		Level: "exploration",
		Rule: "a case is one proto-event (type, state key, sender, room, content with escape-needing keys, prev/auth lists, depth, redacts, unsigned) built by EventBuilder.Build for one registered room version, then re-parsed three ways, edited in unsigned/signatures 6 ways, redacted, and paired with 9 single-field variants for ID sensitivity; " +
			"distinct = distinct (version, proto) ; non-trivial = state event or content with >=2 keys",
		Assumptions: []string{"reference event ID = sha256 over reference canonical JSON of the reference redaction (harness/ref)", "integer-only contents (v6+ refuses others at build time)"},
		Run:         runC03,
	})
}

type evTuple struct {
	ID, Type, Sender, Room string
	StateKey                *string
	Content                 string // canonical-normalised
	Depth                   int64
	TS                      int64
	Prev, Auth              []string
	Redacted                bool
}

func tupleOf(p gmsl.PDU) (t evTuple, panicSite string) {
	site, msg, pan := mon.Guard(func() {
		t.ID = p.EventID()
		t.Type = p.Type()
		t.Sender = string(p.SenderID())
		t.Room = p.RoomID().String()
		t.StateKey = p.StateKey()
		if cv, _, err := ref.Parse(p.Content()); err == nil {
			t.Content = string(ref.CanonNorm(cv))
		} else {
			t.Content = "unparsable:" + string(p.Content())
		}
		t.Depth = p.Depth()
		t.TS = int64(p.OriginServerTS())
		t.Prev = p.PrevEventIDs()
		t.Auth = p.AuthEventIDs()
		t.Redacted = p.Redacted()
	})
	if pan {
		return t, site + ": " + msg
	}
	return t, ""
}

func (a evTuple) diff(b evTuple) string {
	sk := func(s *string) string {
		if s == nil {
			return "<nil>"
		}
		return "=" + *s
	}
	switch {
	case a.ID != b.ID:
		return "event_id"
	case a.Type != b.Type:
		return "type"
	case a.Sender != b.Sender:
		return "sender"
	case a.Room != b.Room:
		return "room_id"
	case sk(a.StateKey) != sk(b.StateKey):
		return "state_key"
	case a.Content != b.Content:
		return "content"
	case a.Depth != b.Depth:
		return "depth"
	case a.TS != b.TS:
		return "origin_server_ts"
	case fmt.Sprint(a.Prev) != fmt.Sprint(b.Prev):
		return "prev_events"
	case fmt.Sprint(a.Auth) != fmt.Sprint(b.Auth):
		return "auth_events"
	case a.Redacted != b.Redacted:
		return "redacted-flag"
	}
	return ""
}

func fakeEventID(r *gen.Rand, t *ref.VersionTraits) string {
	switch t.EventIDFormat {
	case 1:
		return "$" + fmt.Sprintf("%x", r.Bytes(6)) + ":" + gen.Pick(r, []string{"a.example", "b.example:8448"})
	case 2:
		return "$" + base64.RawStdEncoding.EncodeToString(r.Bytes(32))
	default:
		return "$" + base64.RawURLEncoding.EncodeToString(r.Bytes(32))
	}
}

func genProto(r *gen.Rand, t *ref.VersionTraits) protoSpec {
	types := append(append([]string{}, gen.ProtectedTypes...), gen.OtherTypes...)
	typ := gen.Pick(r, types)
	ps := protoSpec{Type: typ, Sender: gen.Pick(r, []string{"@alice:a.example", "@bob:b.example:8448", "@c_d=e/f.g-h:a.example"}),
		RoomID: "!room:a.example", Depth: int64(gen.Pick(r, []int{0, 1, 2, 17, 1 << 40, 9007199254740991, 9007199254740990, 9007199254740992, 1 << 62}))}
	if t.Domainless {
		ps.RoomID = "!" + base64.RawURLEncoding.EncodeToString(r.Bytes(32))
	}
	content := gen.ContentFor(r, typ, gen.SafeNumbers)
	ps.Content = gen.Plain().Bytes(content)
	if r.Chance(0.75) || typ == "m.room.create" || typ == "m.room.member" || typ == "m.room.power_levels" {
		ps.StateKey = strp(gen.Pick(r, []string{"", "@bob:b.example", "@alice:a.example", "arbitrary key", "a\"b\\c", "é"}))
	}
	if typ == "m.room.redaction" || r.Chance(0.1) {
		ps.Redacts = fakeEventID(r, t)
	}
	for i := r.Intn(4); i > 0; i-- {
		ps.Prev = append(ps.Prev, fakeEventID(r, t))
	}
	for i := r.Intn(4); i > 0; i-- {
		ps.Auth = append(ps.Auth, fakeEventID(r, t))
	}
	if t.Domainless && ps.RoomID != "" && r.Chance(0.3) {
		// a caller that lists the create event among the auth events although the room ID implies it
		at := r.Intn(len(ps.Auth) + 1)
		ps.Auth = append(ps.Auth[:at:at], append([]string{"$" + ps.RoomID[1:]}, ps.Auth[at:]...)...)
	}
	if r.Chance(0.4) {
		ps.Unsigned = []byte(`{"age":77,"prev_content":{"a":[1,2,{"b":null}]}}`)
	}
	if t.Domainless && typ == "m.room.create" {
		// a v12 create event has no room ID; the builder offers no way to build
		// an m.room.create with another state key in these versions
		// (a non-state m.room.create inside an existing room is buildable)
		if r.Chance(0.7) {
			ps.StateKey = strp("")
			ps.RoomID = ""
		} else {
			ps.StateKey = nil
		}
	}
	return ps
}

// variants returns protos differing from ps in exactly one field.
func protoVariants(r *gen.Rand, t *ref.VersionTraits, ps protoSpec) map[string]protoSpec {
	out := map[string]protoSpec{}
	v := ps
	v.Type = ps.Type + "x"
	out["type"] = v
	v = ps
	if ps.StateKey == nil {
		v.StateKey = strp("")
	} else {
		v.StateKey = nil
	}
	if !(t.Domainless && ps.Type == "m.room.create") {
		out["state_key-presence"] = v
	}
	if ps.StateKey != nil {
		v = ps
		v.StateKey = strp(*ps.StateKey + "y")
		if !(t.Domainless && ps.Type == "m.room.create") {
			out["state_key-value"] = v
		}
	}
	v = ps
	v.Sender = "@mallory:a.example"
	out["sender"] = v
	if ps.RoomID != "" {
		v = ps
		if t.Domainless {
			v.RoomID = "!" + base64.RawURLEncoding.EncodeToString(r.Bytes(32))
		} else {
			v.RoomID = "!other:a.example"
		}
		out["room_id"] = v
	}
	v = ps
	cv := ref.MustParse(ps.Content).Clone()
	cv.Set("zz_extra_member", ref.I(1))
	v.Content = gen.Plain().Bytes(cv)
	out["content-member"] = v
	v = ps
	v.Depth = ps.Depth ^ 1
	out["depth"] = v
	v = ps
	v.Prev = append(append([]string{}, ps.Prev...), fakeEventID(r, t))
	out["prev_events"] = v
	v = ps
	v.Auth = append(append([]string{}, ps.Auth...), fakeEventID(r, t))
	out["auth_events"] = v
	v = ps
	v.Redacts = ps.Redacts + "$x"
	out["redacts"] = v
	return out
}

func runC03(c *mon.Ctx) {
	onProtoMutated = func(detail string) {
		c.Failf("build:proto-event-rewritten", "%s", detail)
	}
	defer func() { onProtoMutated = nil }()
	r := c.Rand("protos")
	id := gen.NewIdentity(c.RandShared("id"), "a.example", "ed25519:k1")
	id2 := gen.NewIdentity(c.RandShared("id2"), "b.example:8448", "ed25519:k2")
	versions := sortedVersions()
	n := c.Scale(64, 12000)
	for k := 0; k < n; k++ {
		// one proto-event built for one room version after the other (same signer, same instant): every version derives
		// the ID from ITS redaction of the event, whatever was built before in this process
		if t10 := ref.Traits("10"); t10 != nil {
			ps := genProto(r, t10)
			if ps.Depth > 9007199254740991 {
				ps.Depth = 7
			}
			c.Case("same-proto-across-versions", map[string]any{"proto": ps, "content": string(ps.Content)}, func() {
				for _, ver := range versions {
					t := ref.Traits(string(ver))
					if t == nil || t.Domainless || t.EventIDFormat < 2 || ver == gmsl.RoomVersionPseudoIDs {
						continue
					}
					ev, err := buildEvent(ver, ps, id, baseTime)
					if err != nil {
						continue
					}
					c.Count("built_same_proto_across_versions")
					if want := ref.EventID(t, ref.MustParse(ev.JSON())); want != ev.EventID() {
						c.Failf("id:not-reference-hash:same-proto-built-for-another-version-before", "v%s: EventID() = %s, reference = %s for a proto-event that was built for other room versions just before\n%s", ver, ev.EventID(), want, ev.JSON())
						return
					}
					if u, err := gmsl.MustGetRoomVersion(ver).NewEventFromUntrustedJSON(ev.JSON()); err == nil && u.EventID() != ev.EventID() {
						c.Failf("roundtrip:untrusted:event_id", "v%s: re-parse gives %s, built %s", ver, u.EventID(), ev.EventID())
						return
					}
				}
			})
		}
		for _, ver := range versions {
			t := ref.Traits(string(ver))
			if t == nil {
				continue
			}
			impl := gmsl.MustGetRoomVersion(ver)
			ps := genProto(r, t)
			vr := r.Fork("variants")
			c.Case("roundtrip:"+string(ver)+":"+ps.Type, map[string]any{"version": ver, "proto": ps, "content": string(ps.Content)}, func() {
				ev, err := buildEvent(ver, ps, id, baseTime)
				if err != nil && t.EnforceCanon && ps.Depth > 9007199254740991 {
					// versions 6+ cannot carry such a depth in canonical JSON: refusing is right, and the only other
					// outcome the checks below accept is an event that carries exactly this depth and round-trips
					c.Count("build_refused_depth_beyond_canonical_range")
					return
				}
				if err != nil {
					c.Failf("build:refuses-valid-proto", "Build(v%s): %v", ver, err)
					return
				}
				c.Count("built")
				if ps.StateKey != nil || len(ref.MustParse(ps.Content).O) >= 2 {
					key, _ := json.Marshal(ps)
					c.NontrivialBytes(append([]byte(string(ver)+"|"), key...))
				}
				j := append([]byte{}, ev.JSON()...)
				base, site := tupleOf(ev)
				if site != "" {
					c.Failf("roundtrip:accessor-panics", "accessor of a freshly built event panics (v%s): %s", ver, site)
					return
				}
				jv := ref.MustParse(j)
				// proto fields are what the event reports
				pv := ref.MustParse(ps.Content)
				if base.Type != ps.Type || base.Sender != ps.Sender || base.Depth != ps.Depth || base.Content != string(ref.CanonNorm(pv)) ||
					base.TS != baseTime.UnixMilli() || (ps.StateKey == nil) != (base.StateKey == nil) || (ps.StateKey != nil && *ps.StateKey != *base.StateKey) {
					c.Failf("build:field-not-as-requested", "built event reports other fields than the proto-event (v%s): %s", ver, j)
				}
				wantPrev := ps.Prev
				if wantPrev == nil {
					wantPrev = []string{}
				}
				if fmt.Sprint(base.Prev) != fmt.Sprint(wantPrev) {
					c.Failf("build:prev-events-differ", "PrevEventIDs %v, proto %v (v%s)", base.Prev, wantPrev, ver)
				}
				isCreate := ps.Type == "m.room.create" && ps.StateKey != nil && *ps.StateKey == ""
				if t.Domainless {
					if isCreate {
						if base.Room != "!"+base.ID[1:] {
							c.Failf("v12:create-room-id", "create event room ID %q is not its event ID %q with the sigil swapped", base.Room, base.ID)
						}
						if len(base.Auth) != 0 {
							c.Failf("v12:create-auth-events", "create event reports auth events %v", base.Auth)
						}
					} else {
						want := append([]string{"$" + ps.RoomID[1:]}, ps.Auth...)
						if fmt.Sprint(base.Auth) != fmt.Sprint(want) {
							c.Failf("v12:first-auth-event-not-create", "AuthEventIDs %v, want create event first: %v", base.Auth, want)
						}
						if base.Room != ps.RoomID {
							c.Failf("build:field-not-as-requested", "room ID %q != %q", base.Room, ps.RoomID)
						}
					}
				} else {
					wantAuth := ps.Auth
					if wantAuth == nil {
						wantAuth = []string{}
					}
					if fmt.Sprint(base.Auth) != fmt.Sprint(wantAuth) {
						c.Failf("build:auth-events-differ", "AuthEventIDs %v, proto %v (v%s)", base.Auth, wantAuth, ver)
					}
					if base.Room != ps.RoomID {
						c.Failf("build:field-not-as-requested", "room ID %q != %q", base.Room, ps.RoomID)
					}
				}
				// event format
				if pe := jv.Get("prev_events"); pe != nil && len(pe.A) > 0 {
					isRef := pe.A[0].K == ref.Arr
					if isRef != (t.EventFormat == 1) {
						c.Failf("build:wrong-event-format", "prev_events shape does not match event format %d (v%s): %s", t.EventFormat, ver, j)
					}
				}
				if (jv.Get("event_id") != nil) != (t.EventFormat == 1) {
					c.Failf("build:wrong-event-format", "event_id member presence does not match event format %d (v%s)", t.EventFormat, ver)
				}
				// reference ID
				if t.EventIDFormat >= 2 {
					if want := ref.EventID(t, jv); want != base.ID {
						c.Failf("id:not-reference-hash", "EventID() = %s, reference (format %d) = %s (v%s): %s", base.ID, t.EventIDFormat, want, ver, j)
					}
				} else if !strings.HasSuffix(base.ID, ":"+id.Server) || !strings.HasPrefix(base.ID, "$") {
					c.Failf("id:v1-format", "v1-format event ID %q is not $local:origin", base.ID)
				}
				// three re-parses
				check := func(kind string, p gmsl.PDU, err error) gmsl.PDU {
					if err != nil {
						c.Failf("roundtrip:"+kind+":error", "re-parse (%s, v%s) of a built event fails: %v\n%s", kind, ver, err, j)
						return nil
					}
					tp, site := tupleOf(p)
					if site != "" {
						c.Failf("roundtrip:accessor-panics", "accessor panics after %s re-parse (v%s): %s", kind, ver, site)
						return nil
					}
					if d := base.diff(tp); d != "" {
						c.Failf("roundtrip:"+kind+":"+d, "%s re-parse (v%s) differs in %s: %+v vs %+v\n%s", kind, ver, d, base, tp, j)
					}
					if err := gmsl.CheckFields(p); err != nil {
						c.Failf("roundtrip:"+kind+":checkfields", "CheckFields after %s re-parse (v%s): %v", kind, ver, err)
					}
					c.Count("reparsed")
					return p
				}
				u, err := impl.NewEventFromUntrustedJSON(j)
				check("untrusted", u, err)
				if vr.Chance(0.15) {
					// the proto-event's unsigned is caller-supplied raw JSON as well: with a repeated member name in it - or a
					// byte that is not UTF-8, there or in the content - Build refuses, or builds something that re-parses
					ps3 := ps
					contentShape := false
					switch vr.Intn(7) {
					case 5, 6:
						// ... and so is the content: a content that is no object is nothing the untrusted parser takes
						contentShape = true
						ps3.Content = []byte(gen.Pick(vr, []string{`null`, `null`, `[]`, `"text"`, `1`, `true`}))
					case 0:
						ps3.Unsigned = []byte("{\"transaction_id\":\"\xff\"}")
					case 1:
						ps3.Content = []byte("{\"body\":\"a\xffb\",\"bo\xc3dy\":1}")
						if vr.Chance(0.5) {
							// (the escape of half a surrogate pair is no character either: dropped from the canonical form)
							ps3.Content = []byte(gen.Pick(vr, []string{`{"body":"a\udead"}`, `{"bo\ud800dy":1}`, `{"body":["\udc00\ud800"]}`}))
							if vr.Chance(0.5) {
								ps3.Content, ps3.Unsigned = ps.Content, []byte(`{"transaction_id":"t\udfff"}`)
							}
						}
					default:
						ps3.Unsigned = []byte(gen.Pick(vr, []string{`{"age":1,"age":2}`, `{"a":{"b":1,"b":2}}`, `{"prev_content":{"x":1},"prev_content":{"x":2}}`}))
					}
					var ev3 gmsl.PDU
					var err3 error
					site, msg, pan := mon.Guard(func() { ev3, err3 = buildEvent(ver, ps3, id, baseTime) })
					c.Count("built_with_duplicates_in_unsigned")
					if pan {
						c.Failf("build:panic:"+site, "Build panics on a proto-event whose unsigned repeats a member: %s", msg)
					} else if err3 == nil {
						if u3, perr := impl.NewEventFromUntrustedJSON(ev3.JSON()); perr != nil {
							sig := "roundtrip:untrusted:error:proto-unsigned-repeats-a-member"
							if !utf8.Valid(ps3.Unsigned) || !utf8.Valid(ps3.Content) {
								sig = "roundtrip:untrusted:error:proto-not-utf8"
							}
							if contentShape {
								sig = "roundtrip:untrusted:error:proto-content-not-an-object"
							}
							c.Failf(sig, "Build(v%s) accepts a proto-event with unsigned %q / content %q, and the event it builds is refused as untrusted input: %v", ver, ps3.Unsigned, ps3.Content, perr)
						} else if u3.EventID() != ev3.EventID() {
							c.Failf("roundtrip:untrusted:event_id", "event built with unsigned %s re-parses under another ID", ps3.Unsigned)
						}
						if esc := regexp.MustCompile(`\\u[dD][89a-fA-F][0-9a-fA-F]{2}`); t.EventIDFormat >= 2 && esc.Match(ps3.Content) {
							// a content with such an escape and the content without it are two contents (every decoder reads
							// U+FFFD for the escape): built into events, they are two events
							ps4 := ps3
							ps4.Content = esc.ReplaceAll(ps3.Content, nil)
							if ev4, err4 := buildEvent(ver, ps4, id, baseTime); err4 == nil && ev4.EventID() == ev3.EventID() {
								c.Failf("id:insensitive-to:unpaired-surrogate-escape-in-content", "Build(v%s) makes the same event (%s) of the contents %s and %s", ver, ev3.EventID(), ps3.Content, ps4.Content)
							}
						}
					}
				}
				if vr.Chance(0.15) && t.EventIDFormat >= 2 {
					// a string field of the proto-event with a byte that is no UTF-8, and the same field with another such
					// byte: two proto-events. Build refuses them, or makes two events of them.
					pa, pb := ps, ps
					field := gen.Pick(vr, []string{"type", "state_key", "sender", "redacts", "prev_events", "auth_events"})
					switch field {
					case "prev_events":
						// (tenth seeding round, C03-T: the reference lists were judged after encoding/json had put U+FFFD for every such byte)
						pa.Prev, pb.Prev = append(append([]string{}, ps.Prev...), "$abc\xff"), append(append([]string{}, ps.Prev...), "$abc\xfe")
					case "auth_events":
						pa.Auth, pb.Auth = append(append([]string{}, ps.Auth...), "$abc\xff"), append(append([]string{}, ps.Auth...), "$abc\xfe")
						if t.Domainless && ps.Type == "m.room.create" {
							field = ""
						}
					case "type":
						pa.Type, pb.Type = ps.Type+"\xff", ps.Type+"\xfe"
					case "state_key":
						pa.StateKey, pb.StateKey = strp("k\xff"), strp("k\xc0")
						if t.Domainless && ps.Type == "m.room.create" {
							field = ""
						}
					case "sender":
						pa.Sender, pb.Sender = "@al\xffice:a.example", "@al\xfeice:a.example"
					case "redacts":
						pa.Redacts, pb.Redacts = "$x\xff", "$x\xfe"
					}
					if field != "" {
						ea, erra := buildEvent(ver, pa, id, baseTime)
						eb, errb := buildEvent(ver, pb, id, baseTime)
						c.Count("built_with_a_string_field_that_is_not_utf8")
						if erra == nil && errb == nil && ea.EventID() == eb.EventID() {
							c.Failf("id:insensitive-to:bytes-that-are-not-utf8:"+field, "Build(v%s) makes one and the same event (%s) of two proto-events whose %s differ in a byte that is not UTF-8", ver, ea.EventID(), field)
						}
					}
				}
				if vr.Chance(0.25) {
					// the proto-event brings a "signatures" member of its own (the make_join template of another server is
					// such a proto-event): whatever Build makes of it re-parses; refusing is an answer too, except for a
					// well-formed entry of another server
					sigs := gen.Pick(vr, []string{`{"other.example":{"ed25519:x":"AAAA"}}`, `{"other.example":"x"}`, `{"other.example":5}`, `{"other.example":["a"]}`, `{"other.example":{"ed25519:x":5}}`, `{"other.example":null}`, `"x"`, `[]`, `null`, `{}`})
					ps2 := ps
					ps2.Signatures = []byte(sigs)
					var ev2 gmsl.PDU
					var err2 error
					site, msg, pan := mon.Guard(func() { ev2, err2 = buildEvent(ver, ps2, id, baseTime) })
					c.Count("built_with_proto_signatures")
					switch {
					case pan:
						c.Failf("build:panic:"+site, "Build panics on a proto-event with signatures %s: %s", sigs, msg)
					case err2 != nil && (sigs == `{"other.example":{"ed25519:x":"AAAA"}}` || sigs == `{}`):
						c.Failf("build:refuses-valid-proto", "Build(v%s) refuses a proto-event with signatures %s: %v", ver, sigs, err2)
					case err2 == nil:
						u2, perr := impl.NewEventFromUntrustedJSON(ev2.JSON())
						if perr != nil {
							c.Failf("roundtrip:untrusted:error:proto-signatures", "Build(v%s) accepts a proto-event with signatures %s, and the event it builds is refused as untrusted input: %v\n%s", ver, sigs, perr, ev2.JSON())
						} else if u2.EventID() != ev2.EventID() || u2.Redacted() {
							c.Failf("roundtrip:untrusted:proto-signatures", "the event built from a proto-event with signatures %s re-parses as %s (redacted=%v), built %s", sigs, u2.EventID(), u2.Redacted(), ev2.EventID())
						}
					}
				}
				tr, err := impl.NewEventFromTrustedJSON(j, false)
				check("trusted", tr, err)
				hj, err := ev.ToHeaderedJSON()
				if err != nil {
					c.Failf("roundtrip:headered:error", "ToHeaderedJSON: %v", err)
				} else {
					h, err := gmsl.NewEventFromHeaderedJSON(hj, false)
					if p := check("headered", h, err); p != nil && p.Version() != ver {
						c.Failf("roundtrip:headered:version", "headered re-parse reports version %q, want %q", p.Version(), ver)
					}
					// the headered form without the (optional) _event_id, and the trusted parser given no ID: the ID is the
					// one the event has
					hv := ref.MustParse(hj)
					hv.Del("_event_id")
					h2, err := gmsl.NewEventFromHeaderedJSON(gen.Plain().Bytes(hv), false)
					check("headered-without-event-id", h2, err)
					t2, err := impl.NewEventFromTrustedJSONWithEventID("", j, false)
					check("trusted-with-empty-event-id", t2, err)
				}
				if t.EventIDFormat < 2 {
					return
				}
				// ID invariance under unsigned / signatures edits
				reID := func(kind string, js []byte) {
					p, err := impl.NewEventFromTrustedJSON(js, false)
					if err != nil {
						c.Failf("id:"+kind+":reparse-error", "%v", err)
						return
					}
					c.Count("id_invariance_checks")
					if p.EventID() != base.ID {
						c.Failf("id:changed-by:"+kind, "event ID %s became %s after %s (v%s)\n%s", base.ID, p.EventID(), kind, ver, js)
					}
					if want := ref.EventID(t, ref.MustParse(js)); want != base.ID {
						c.Failf("id:changed-by:"+kind, "reference ID of the edited JSON is %s, original %s: the edit touched hashed material (v%s)\n%s", want, base.ID, ver, js)
					}
				}
				fresh := func() gmsl.PDU { p, _ := impl.NewEventFromTrustedJSON(j, false); return p }
				if p, err := fresh().SetUnsigned(map[string]any{"age": 1234, "k\"q": []int{1, 2}}); err != nil {
					c.Failf("id:set-unsigned:error", "SetUnsigned: %v", err)
				} else {
					if p.EventID() != base.ID {
						c.Failf("id:changed-by:SetUnsigned", "ID changed by SetUnsigned (cached path)")
					}
					reID("SetUnsigned", p.JSON())
					if tp, site := tupleOf(p); site != "" {
						c.Failf("derived:SetUnsigned:accessor-panics", "accessor of the event returned by SetUnsigned panics (v%s): %s", ver, site)
					} else if d := base.diff(tp); d != "" {
						c.Failf("derived:SetUnsigned:"+d, "event returned by SetUnsigned differs in %s (v%s): %+v vs %+v", d, ver, base, tp)
					}
				}
				{
					// SetUnsigned returns a new event: the one it was called on - loaded from a buffer of the caller's, with an
					// unsigned of its own - reads afterwards as it did before, and so does the caller's buffer. The new
					// unsigned is shorter than, as long as, and longer than the old one.
					withU := jv.Clone()
					withU.Set("unsigned", ref.O("age", ref.I(1234567), "transaction_id", ref.S("txn-abcdef")))
					text := gen.Plain().Bytes(withU)
					for _, nu := range []map[string]any{{}, {"age": 7654321, "transaction_id": "txn-fedcba"}, {"age": 1, "transaction_id": "a-much-longer-transaction-id-than-before", "more": []int{1, 2, 3}}} {
						gin, intact := mon.Guarded(text)
						orig, err := impl.NewEventFromTrustedJSON(gin, false)
						if err != nil {
							break
						}
						before := string(orig.JSON())
						if _, err := orig.SetUnsigned(nu); err == nil {
							c.Count("set_unsigned_on_events_with_unsigned")
							if after := string(orig.JSON()); after != before {
								c.Failf("derived:SetUnsigned:original-event-rewritten", "v%s: the event SetUnsigned was called on reads %s afterwards, before %s", ver, after, before)
							}
							if d := intact(); d != "" {
								c.Failf("derived:SetUnsigned:callers-buffer-written", "v%s: SetUnsigned on an event loaded from the caller's buffer: %s", ver, d)
							}
						}
					}
				}
				f := fresh()
				if err := f.SetUnsignedField("transaction_id", "txn1"); err != nil {
					c.Failf("id:set-unsigned-field:error", "SetUnsignedField: %v", err)
				} else {
					reID("SetUnsignedField", f.JSON())
				}
				{
					// a fault: a value that cannot be written as JSON. The edit is refused and the event is what it was.
					g := fresh()
					before := string(g.JSON())
					site, msg, pan := mon.Guard(func() {
						if err := g.SetUnsignedField("bad", make(chan int)); err == nil {
							c.Failf("derived:SetUnsignedField:unwritable-value-accepted", "v%s: SetUnsignedField accepts a value that has no JSON form", ver)
						}
					})
					c.Count("set_unsigned_field_refused_edits")
					if pan {
						c.Failf("derived:SetUnsignedField:panic:"+site, "SetUnsignedField panics on a value that has no JSON form: %s", msg)
					} else if after := string(g.JSON()); after != before {
						c.Failf("derived:SetUnsignedField:event-lost-after-a-refused-edit", "v%s: after SetUnsignedField refused a value the event reads %q, before %s", ver, after, before)
					} else if err := g.SetUnsignedField("transaction_id", "txn2"); err != nil {
						c.Failf("id:set-unsigned-field:error", "SetUnsignedField after a refused edit: %v", err)
					} else {
						reID("SetUnsignedField-after-a-refused-edit", g.JSON())
					}
				}
				raw := jv.Clone()
				raw.Set("unsigned", ref.O("age_ts", ref.I(1), "x", ref.S("y")))
				reID("raw-unsigned-edit", gen.Plain().Bytes(raw))
				raw = jv.Clone()
				raw.Del("unsigned")
				reID("raw-unsigned-removed", gen.Plain().Bytes(raw))
				raw = jv.Clone()
				raw.Get("signatures").Set("evil.example", ref.O("ed25519:x", ref.S("AAAA")))
				reID("raw-signature-added", gen.Plain().Bytes(raw))
				raw = jv.Clone()
				raw.Del("signatures")
				reID("raw-signatures-removed", gen.Plain().Bytes(raw))
				// keys that merely resemble event_id / unsigned / signatures are unknown keys: redactable, hence without
				// influence on the ID, and never the ID itself
				for _, k := range []string{"event_id", "unsigned", "signatures"} {
					for _, v := range gen.FoldVariants(k) {
						raw = jv.Clone()
						if k == "event_id" {
							raw.Set(v, ref.S("$spoofed"))
						} else {
							raw.Set(v, ref.O("x", ref.O("ed25519:1", ref.S("AAAA"))))
						}
						reID("raw-lookalike-key-added:"+k, gen.Plain().Bytes(raw))
					}
				}
				s2 := fresh().Sign(id2.Server, gmsl.KeyID(id2.KeyID), id2.Priv)
				reID("Sign", s2.JSON())
				if tp, site := tupleOf(s2); site != "" {
					c.Failf("derived:Sign:accessor-panics", "accessor of the event returned by Sign panics (v%s): %s", ver, site)
				} else if d := base.diff(tp); d != "" {
					c.Failf("derived:Sign:"+d, "event returned by Sign differs in %s (v%s): %+v vs %+v", d, ver, base, tp)
				}
				rd := fresh()
				rd.Redact()
				if rd.EventID() != base.ID {
					c.Failf("id:changed-by:Redact", "ID changed by Redact (v%s)", ver)
				}
				rp, err := impl.NewEventFromTrustedJSON(rd.JSON(), true)
				if err == nil && rp.EventID() != base.ID {
					c.Failf("id:changed-by:Redact", "ID %s became %s after Redact + re-parse (v%s)", base.ID, rp.EventID(), ver)
				}
				// alphabet
				body := base.ID[1:]
				if t.EventIDFormat == 3 && strings.ContainsAny(body, "+/=") || t.EventIDFormat == 2 && strings.ContainsAny(body, "-_=") || len(body) != 43 {
					c.Failf("id:wrong-alphabet", "event ID %q does not use the base64 alphabet of format %d", base.ID, t.EventIDFormat)
				}
				// sensitivity
				for field, vp := range protoVariants(vr, t, ps) {
					e2, err := buildEvent(ver, vp, id, baseTime)
					if err != nil {
						c.Count("variant_build_refused")
						continue
					}
					c.Count("id_sensitivity_checks")
					if e2.EventID() == base.ID {
						c.Failf("id:insensitive-to:"+field, "two events differing in %s share the ID %s (v%s)\n%s\n%s", field, base.ID, ver, j, e2.JSON())
					}
				}
				if c.WantSample() && len(j) < 900 {
					c.Sample(map[string]any{"version": ver, "event": string(j), "event_id": base.ID})
				}
			})
		}
	}
	c03DuplicateMembers(c)
	c.Floor("built", 100)
	c.Floor("reparsed", 300)
	c.Floor("id_sensitivity_checks", 200)
}

// c03DuplicateMembers: a proto-event whose content repeats a member name. Build may refuse it; if it builds, the event
// has to re-parse as untrusted input like any other built event.
func c03DuplicateMembers(c *mon.Ctx) {
	if c.Shard != 0 {
		return
	}
	id := gen.NewIdentity(c.RandShared("id"), "a.example", "ed25519:k1")
	for _, ver := range sortedVersions() {
		t := ref.Traits(string(ver))
		if t == nil {
			continue
		}
		impl := gmsl.MustGetRoomVersion(ver)
		for _, content := range []string{`{"body":"x","body":"y"}`, `{"a":{"k":1,"k":2}}`, `{"list":[{"k":1,"k":1}]}`, `{"membership":"join","membership":"leave"}`} {
			ps := protoSpec{Type: "m.room.message", Sender: "@alice:a.example", RoomID: "!room:a.example", Depth: 3, Content: []byte(content), Prev: []string{fakeEventID(c.RandShared("dup"), t)}, Auth: []string{fakeEventID(c.RandShared("dup"), t)}}
			if t.Domainless {
				ps.RoomID = "!" + strings.Repeat("A", 43)
				ps.Auth = []string{}
			}
			c.Case("build:duplicate-member:"+string(ver), map[string]any{"version": ver, "content": content}, func() {
				c.Nontrivial("dup|" + string(ver) + "|" + content)
				ev, err := buildEvent(ver, ps, id, baseTime)
				if err != nil {
					c.Count("duplicate_member_protos_refused")
					return
				}
				c.Count("duplicate_member_protos_built")
				back, err := impl.NewEventFromUntrustedJSON(ev.JSON())
				if err != nil {
					c.Failf("roundtrip:untrusted:built-event-refused:duplicate-member", "Build(v%s) accepts the content %s but the event it returns does not re-parse: %v", ver, content, err)
					return
				}
				if back.EventID() != ev.EventID() || back.Redacted() {
					c.Failf("roundtrip:untrusted:event_id", "the built event re-parses with ID %s (redacted=%v), built %s", back.EventID(), back.Redacted(), ev.EventID())
				}
			})
		}
	}
}
