package main

import (
	"encoding/binary"
	"crypto/sha256"
	"bytes"
	"encoding/base64"
	"fmt"
	"strconv"
	"strings"
	"time"

	"github.com/matrix-org/gomatrixserverlib/tokens"
	macaroon "gopkg.in/macaroon.v2"

	"verif/gen"
	"verif/mon"
)

func init() {
	register(&propDef{
		ID:    "C20",
		Level: "exploration",
		Rule: "a case is one (secret, server name, user ID, duration) issue tuple: the genuine token is validated under the issuing and under other secrets / user IDs, then altered ~45 ways (bit flips over the whole binary token, truncation, extension; holder-side appended caveats; re-minted tokens lacking or duplicating caveats, with past / future expiry, under another key); expiry is additionally observed in real time by polling tokens of 1-3 s (quick) and of the 120 s default across minute boundaries (thorough); " +
			"distinct = distinct (tuple, alteration); non-trivial = every altered or cross-validated token (the untouched genuine token alone is trivial)",
		Assumptions: []string{"gopkg.in/macaroon.v2 (the library's own dependency) to build altered tokens", "wall clock for the real-time expiry monitor, one-sided regions only (valid if < d-1 s since before issue, invalid if >= d s since after issue)",
			"every alteration of the token string counts, also those after which it still decodes to the same identifier, caveats and signature (location, trailing bytes, line breaks, base64 slack bits, V1 re-encoding)"},
		Shards: func(string) int { return 4 },
		Watchdog: func(t string) time.Duration {
			return 20 * time.Minute
		},
		Run: runC20,
	})
}

func decodeMac(tok string) (*macaroon.Macaroon, []byte, error) {
	bin, err := base64.RawURLEncoding.DecodeString(tok)
	if err != nil {
		return nil, nil, err
	}
	var m macaroon.Macaroon
	if err := m.UnmarshalBinary(bin); err != nil {
		return nil, bin, err
	}
	return &m, bin, nil
}

func encodeMac(m *macaroon.Macaroon) string {
	bin, err := m.MarshalBinary()
	if err != nil {
		panic(err)
	}
	return base64.RawURLEncoding.EncodeToString(bin)
}

// mintKey is how the library turns (secret, server name) into the macaroon root key. The statement does not say; the
// harness needs it only to re-mint tokens with chosen caveats "under the right secret". Each candidate is probed once
// against the library (a token with exactly the three caveats and a far expiry must validate); if none fits, the
// re-minting cases report token:rejects-reminted-genuine.
var mintKeys = []func(secret []byte, server string) []byte{
	func(secret []byte, server string) []byte { return secret },
	func(secret []byte, server string) []byte {
		h := sha256.New()
		var n [8]byte
		binary.BigEndian.PutUint64(n[:], uint64(len(secret)))
		h.Write(n[:])
		h.Write(secret)
		h.Write([]byte(server))
		return h.Sum(nil)
	},
}
var mintKey func(secret []byte, server string) []byte

func probeMintKey() {
	secret, server, user := []byte("probe secret"), "probe.example", "@probe:probe.example"
	for _, k := range mintKeys {
		mintKey = k
		tok := mint(secret, server, user, tokens.Gen, tokens.UserPrefix+user, tokens.TimePrefix+"99999999999")
		if tokens.ValidateToken(tokens.TokenOptions{ServerPrivateKey: secret, ServerName: server, UserID: user}, tok) == nil {
			return
		}
	}
	mintKey = mintKeys[0]
}

func mint(secret []byte, server, id string, caveats ...string) string {
	if mintKey == nil {
		probeMintKey()
	}
	m, err := macaroon.New(mintKey(secret, server), []byte(id), server, macaroon.V2)
	if err != nil {
		panic(err)
	}
	for _, cv := range caveats {
		if err := m.AddFirstPartyCaveat([]byte(cv)); err != nil {
			panic(err)
		}
	}
	return encodeMac(m)
}

func appendCaveat(tok string, cv string) string {
	m, _, err := decodeMac(tok)
	if err != nil {
		panic(err)
	}
	if err := m.AddFirstPartyCaveat([]byte(cv)); err != nil {
		panic(err)
	}
	return encodeMac(m)
}

func runC20(c *mon.Ctx) {
	r := c.Rand("tuples")
	n := c.Scale(200, 8000)
	users := []string{"@alice:example.org", "@bob:example.org", "@a:b", "@alice:example.org ", "@ALICE:example.org", "@é:x.example", "user_id = @x:y"}
	// user IDs up to the 255 bytes an ID may have: the token text grows to several hundred characters (tenth seeding
	// round, C20-U: a decoder that refused texts over 512 characters)
	users = append(users, "@"+strings.Repeat("l", 140)+":example.org", "@"+strings.Repeat("u", 200)+":long.example", "@"+strings.Repeat("x", 240)+":example.org")
	servers := []string{"example.org", "a.example:8448", "localhost", "s"}
	otherEncoding := false
	for k := 0; k < n; k++ {
		secret := r.Bytes(r.Range(1, 48))
		if r.Chance(0.3) {
			secret = r.Bytes(gen.Pick(r, []int{32, 64, 64, 65, 96, 128})) // ed25519 seeds / private keys, which is what servers pass
		}
		other := r.Bytes(len(secret))
		if string(other) == string(secret) {
			other[0] ^= 0x55 // a different secret, always
		}
		server := gen.Pick(r, servers)
		user := gen.Pick(r, users)
		otherUser := gen.Pick(r, users)
		for otherUser == user {
			otherUser = gen.Pick(r, users)
		}
		dur := gen.Pick(r, []int{0, 30, 120, 3600, 86400, 59, 60, 61, 1 << 34, 1 << 40, 1 << 62, 1<<62 + 12345, 9223372036854775807, 9223372036854774807})
		ar := r.Fork("alter")
		desc := map[string]any{"secret_hex": fmt.Sprintf("%x", secret), "server": server, "user": user, "duration": dur}
		c.Case("token", desc, func() {
			// (the secret as a caller holding a larger buffer hands it over: a sub-slice with somebody else's bytes behind it)
			gsecret, secretIntact := mon.Guarded(secret)
			op := tokens.TokenOptions{ServerPrivateKey: gsecret, ServerName: server, UserID: user, Duration: dur}
			defer func() {
				if d := secretIntact(); d != "" {
					c.Failf("token:callers-key-buffer-written", "issuing / validating tokens: %s", d)
				}
			}()
			before := time.Now().Unix()
			tok, err := tokens.GenerateLoginToken(op)
			after := time.Now().Unix()
			if err != nil {
				c.Failf("token:issue-error", "GenerateLoginToken: %v", err)
				return
			}
			c.Count("issued")
			if err := tokens.ValidateToken(op, tok); err != nil {
				c.Failf("token:rejects-genuine", "a fresh token does not validate for its own secret and user (duration %d): %v", dur, err)
				return
			}
			if u, err := tokens.GetUserFromToken(tok); err != nil || u != user {
				c.Failf("token:wrong-user-revealed", "GetUserFromToken = %q, %v; issued for %q", u, err, user)
			}
			reject := func(kind string, o tokens.TokenOptions, t string) {
				c.Count("must_reject_checks")
				c.Eval()
				c.Nontrivial(fmt.Sprintf("%x|%s|%s|%d|%s", secret, server, user, dur, kind))
				if err := tokens.ValidateToken(o, t); err == nil {
					c.Failf("token:accepts:"+kind, "ValidateToken accepted a token it must refuse (%s); issued for %q duration %d, validated for %q", kind, user, dur, o.UserID)
				}
			}
			opOtherKey := op
			opOtherKey.ServerPrivateKey = other
			reject("other-secret", opOtherKey, tok)
			opOtherUser := op
			opOtherUser.UserID = otherUser
			reject("other-user", opOtherUser, tok)
			for kind, variant := range map[string]string{"user-case-upper": strings.ToUpper(user), "user-case-lower": strings.ToLower(user), "user-trailing-space": user + " ", "user-leading-space": " " + user} {
				if variant != user {
					o := op
					o.UserID = variant
					reject(kind, o, tok)
				}
			}
			opPrefix := op
			opPrefix.UserID = user[:len(user)-1]
			reject("user-prefix", opPrefix, tok)
			opKeyExt := op
			opKeyExt.ServerPrivateKey = append(append([]byte{}, secret...), 0)
			reject("secret-extended", opKeyExt, tok)
			// every byte of the secret matters: one flipped bit anywhere, and every proper prefix
			for _, pos := range []int{0, len(secret) / 2, len(secret) - 1, r.Intn(len(secret))} {
				o := op
				o.ServerPrivateKey = append([]byte{}, secret...)
				o.ServerPrivateKey[pos] ^= 1 << uint(r.Intn(8))
				reject("secret-one-bit-off", o, tok)
			}
			if len(secret) > 1 {
				o := op
				o.ServerPrivateKey = secret[:len(secret)-1]
				reject("secret-truncated", o, tok)
				o.ServerPrivateKey = secret[:(len(secret)+1)/2]
				reject("secret-first-half", o, tok)
			}

			m, bin, err := decodeMac(tok)
			if err != nil {
				c.Note("genuine token is not a url-safe-base64 v2 macaroon; alteration workload skipped")
				return
			}
			// byte-level alterations
			for i := 0; i < 24; i++ {
				b := append([]byte{}, bin...)
				pos := ar.Intn(len(b))
				b[pos] ^= 1 << uint(ar.Intn(8))
				alt := base64.RawURLEncoding.EncodeToString(b)
				if sameMacaroon(b, m) {
					// the flip hit encoding slack or the location, which the macaroon signature does not cover: altered all the same
					reject("bit-flip-outside-signed-material", op, alt)
					continue
				}
				reject("bit-flip", op, alt)
			}
			reject("truncated", op, base64.RawURLEncoding.EncodeToString(bin[:len(bin)-1-ar.Intn(len(bin)/2)]))
			reject("extended", op, base64.RawURLEncoding.EncodeToString(append(append([]byte{}, bin...), byte(ar.Intn(256)))))
			reject("extended-junk", op, base64.RawURLEncoding.EncodeToString(append(append([]byte{}, bin...), "\x00junk!"...)))
			// alterations of the token string that decode to the very same macaroon
			k := 1 + ar.Intn(len(tok)-1)
			reject("newline-inserted", op, tok[:k]+"\n"+tok[k:])
			reject("crlf-appended", op, tok+"\r\n")
			if last := tok[len(tok)-1]; len(tok)%4 != 0 {
				const alphabet = "ABCDEFGHIJKLMNOPQRSTUVWXYZabcdefghijklmnopqrstuvwxyz0123456789-_"
				for i := 0; i < len(alphabet); i++ {
					cand := tok[:len(tok)-1] + string(alphabet[i])
					if alphabet[i] == last {
						continue
					}
					if b, err := base64.RawURLEncoding.DecodeString(cand); err == nil && string(b) == string(bin) {
						reject("last-character-slack-bits", op, cand)
						break
					}
				}
			}
			{
				// the same macaroon in the older (V1 packet) binary format
				packet := func(field string, data []byte) []byte {
					n := 4 + len(field) + 1 + len(data) + 1
					return append(append([]byte(fmt.Sprintf("%04x%s ", n, field)), data...), '\n')
				}
				var v1 []byte
				v1 = append(v1, packet("location", []byte(m.Location()))...)
				v1 = append(v1, packet("identifier", m.Id())...)
				for _, cv := range m.Caveats() {
					v1 = append(v1, packet("cid", cv.Id)...)
				}
				v1 = append(v1, packet("signature", m.Signature())...)
				reject("re-encoded-as-v1", op, base64.RawURLEncoding.EncodeToString(v1))
			}
			if i := bytes.Index(bin, []byte(server)); i >= 0 && len(server) > 0 {
				// the issuing server's name as carried in the token
				b := append([]byte{}, bin...)
				b[i] ^= 0x01
				reject("server-name-in-token-changed", op, base64.RawURLEncoding.EncodeToString(b))
			}
			{
				// the holder rewrites or removes the server name the token carries (no key needed) and presents it to a
				// validator that goes by that name - same secret, as where one secret serves several names
				for _, newName := range []string{"other-" + server, ""} {
					m2, _, err := decodeMac(tok)
					if err != nil {
						break
					}
					m2.SetLocation(newName)
					o := op
					o.ServerName = newName
					reject("server-name-rewritten:validated-under-the-new-name", o, encodeMac(m2))
					reject("server-name-rewritten:validated-under-the-issuing-name", op, encodeMac(m2))
				}
				// and the unaltered token under another name
				o := op
				o.ServerName = "other-" + server
				reject("validated-under-another-server-name", o, tok)
			}
			reject("empty", op, "")
			reject("not-base64", op, tok+"*")
			// holder-side: appended caveats (no secret needed)
			reject("appended-user-caveat:as-other", opOtherUser, appendCaveat(tok, tokens.UserPrefix+otherUser))
			reject("appended-user-caveat:as-issued", op, appendCaveat(tok, tokens.UserPrefix+otherUser))
			reject("appended-same-user-caveat", op, appendCaveat(tok, tokens.UserPrefix+user))
			reject("appended-later-expiry", op, appendCaveat(tok, tokens.TimePrefix+strconv.FormatInt(after+10*365*86400, 10)))
			reject("appended-earlier-expiry", op, appendCaveat(tok, tokens.TimePrefix+strconv.FormatInt(after+1, 10)))
			reject("appended-gen", op, appendCaveat(tok, tokens.Gen))
			reject("appended-unknown-caveat", op, appendCaveat(tok, "admin = true"))
			reject("appended-empty-caveat", op, appendCaveat(tok, ""))
			// does the expiry caveat speak Unix seconds? (needed to re-mint tokens with a chosen expiry)
			var expiry int64 = -1
			for _, cv := range m.Caveats() {
				if s := string(cv.Id); strings.HasPrefix(s, tokens.TimePrefix) {
					if v, err := strconv.ParseInt(s[len(tokens.TimePrefix):], 10, 64); err == nil {
						expiry = v
					}
				}
			}
			d := int64(dur)
			if d == 0 {
				d = 120
			}
			absolute := expiry >= before+d-1 && expiry <= after+d+1
			if d > 1<<62 {
				// issue instant + duration is beyond the int64 range: any expiry that far away will do
				absolute = expiry > 1<<62
			}
			future := strconv.FormatInt(after+3600, 10)
			uc := tokens.UserPrefix + user
			if absolute {
				c.Count("expiry_caveat_absolute_unix_seconds")
				// re-minted under the right secret (what another, sloppier issuer could produce)
				if err := tokens.ValidateToken(op, mint(secret, server, user, tokens.Gen, uc, tokens.TimePrefix+future)); err != nil {
					c.Failf("token:rejects-reminted-genuine", "a token with exactly the three caveats and a future expiry is refused: %v", err)
				}
				reject("expired-10s-ago", op, mint(secret, server, user, tokens.Gen, uc, tokens.TimePrefix+strconv.FormatInt(before-10, 10)))
				reject("expired-1970", op, mint(secret, server, user, tokens.Gen, uc, tokens.TimePrefix+"59"))
				reject("expiry-now", op, mint(secret, server, user, tokens.Gen, uc, tokens.TimePrefix+strconv.FormatInt(before, 10)))
				reject("missing-gen", op, mint(secret, server, user, uc, tokens.TimePrefix+future))
				reject("missing-user", op, mint(secret, server, user, tokens.Gen, tokens.TimePrefix+future))
				reject("missing-time", op, mint(secret, server, user, tokens.Gen, uc))
				reject("no-caveats", op, mint(secret, server, user))
				reject("duplicate-gen", op, mint(secret, server, user, tokens.Gen, tokens.Gen, uc, tokens.TimePrefix+future))
				reject("two-users", opOtherUser, mint(secret, server, user, tokens.Gen, uc, tokens.UserPrefix+otherUser, tokens.TimePrefix+future))
				reject("expired-then-future", op, mint(secret, server, user, tokens.Gen, uc, tokens.TimePrefix+strconv.FormatInt(before-10, 10), tokens.TimePrefix+future))
				reject("unknown-caveat-first", op, mint(secret, server, user, "x = y", tokens.Gen, uc, tokens.TimePrefix+future))
				reject("non-numeric-expiry", op, mint(secret, server, user, tokens.Gen, uc, tokens.TimePrefix+"soon"))
				reject("minted-under-other-key", op, mint(other, server, user, tokens.Gen, uc, tokens.TimePrefix+future))
				reject("minted-under-other-key:id-for-other-user", opOtherUser, mint(other, server, otherUser, tokens.Gen, tokens.UserPrefix+otherUser, tokens.TimePrefix+future))
				// id names somebody else than the user caveat: GetUserFromToken would mislead
				alt := mint(secret, server, otherUser, tokens.Gen, uc, tokens.TimePrefix+future)
				if err := tokens.ValidateToken(op, alt); err == nil {
					if u, _ := tokens.GetUserFromToken(alt); u != user {
						c.Count("id-caveat-mismatch-accepted") // informational: the statement speaks of tokens the library issued
					}
				}
			} else {
				c.Count("expiry_caveat_other_encoding")
				otherEncoding = true
			}
			{
				// A history: the secret lives in one buffer of the caller's that is rewritten in place between calls
				// (a rotated key read into the same buffer, a key zeroed after use). What the library derived from the
				// buffer's earlier content must not outlive that content.
				buf := append([]byte{}, secret...)
				opBuf := op
				opBuf.ServerPrivateKey = buf
				oNew := op
				oNew.ServerPrivateKey = append([]byte{}, other...)
				oOld := op
				oOld.ServerPrivateKey = append([]byte{}, secret...)
				// (a call under another key first, so that whatever the library may remember of the last call is not about this key)
				_ = tokens.ValidateToken(oNew, tok)
				tokA, errA := tokens.GenerateLoginToken(opBuf)
				if errA == nil {
					c.Count("key_buffer_rewritten_in_place")
					copy(buf, other) // same length, another key
					reject("issued-under-the-key-the-buffer-held-before", opBuf, tokA)
					tokB, errB := tokens.GenerateLoginToken(opBuf)
					// and back again: the first key returns to the buffer
					copy(buf, secret)
					if errB == nil {
						reject("issued-under-the-other-key:buffer-restored", opBuf, tokB)
					}
					if err := tokens.ValidateToken(opBuf, tokA); err != nil {
						c.Failf("token:rejects-genuine:key-buffer-restored", "a token no longer validates once its key is back in the caller's buffer: %v", err)
					}
					if errB == nil {
						if err := tokens.ValidateToken(oNew, tokB); err != nil {
							c.Failf("token:rejects-genuine:key-buffer-rewritten", "a token issued after the caller's key buffer was rewritten in place does not validate under the key the buffer held then: %v", err)
						}
						reject("issued-after-the-buffer-was-rewritten:validated-under-the-earlier-key", oOld, tokB)
					}
					if err := tokens.ValidateToken(oOld, tokA); err != nil {
						c.Failf("token:rejects-genuine:key-buffer-rewritten", "a token issued from a buffer that was rewritten afterwards does not validate under a copy of its key: %v", err)
					}
				}
			}
			if c.WantSample() {
				c.Sample(map[string]any{"issue": desc, "token": tok, "caveats": caveatStrings(m)})
			}
		})
	}
	// several goroutines issuing and validating for different users and keys at once: every caller gets the answer it
	// would get alone
	if c.Shard == 0 {
		type q struct {
			op    tokens.TokenOptions
			other tokens.TokenOptions
		}
		var qs []q
		cr := c.Rand("concurrent")
		for i := 0; i < 40; i++ {
			key := cr.Bytes(32)
			u := fmt.Sprintf("@user%02d:example.org", i)
			op := tokens.TokenOptions{ServerPrivateKey: key, ServerName: "example.org", UserID: u, Duration: 3600}
			o2 := op
			o2.UserID = fmt.Sprintf("@user%02d:example.org", (i+1)%40)
			qs = append(qs, q{op, o2})
		}
		c.Case("concurrent-calls", map[string]any{"questions": len(qs)}, func() {
			c.Nontrivial("concurrent-calls")
			// the calls are short and what one of them could leave in another's way is there for a few instructions
			// only: the replay is repeated (about 60,000 concurrent calls in all)
			for rep := 0; rep < 24 && c.Violations() == 0; rep++ {
				c.ConcurrentReplay("token", len(qs), func(i int) string {
				tok, err := tokens.GenerateLoginToken(qs[i].op)
				if err != nil {
					return "issue error"
				}
				u, uerr := tokens.GetUserFromToken(tok)
				return fmt.Sprintf("validates=%v for-other-user=%v reveals-own-user=%v", tokens.ValidateToken(qs[i].op, tok) == nil, tokens.ValidateToken(qs[i].other, tok) == nil, uerr == nil && u == qs[i].op.UserID)
				})
			}
		})
	}
	c.Floor("issued", 20)
	c.Floor("key_buffer_rewritten_in_place", 10)
	c.Floor("must_reject_checks", 500)

	// real-time expiry monitor
	type live struct {
		op            tokens.TokenOptions
		tok           string
		before, after time.Time
		d             float64
		sawValid      int
		sawInvalid    int
	}
	var lives []*live
	durs := []int{1, 2, 3}
	pollFor := 5 * time.Second
	if c.Thorough() {
		durs = []int{1, 2, 3, 0, 61}
		pollFor = 130 * time.Second
	}
	if c.Shard != 0 {
		return
	}
	spread := c.Thorough()
	if otherEncoding && !c.Thorough() {
		// the expiry caveat is not "time < <unix seconds>", so no token with a chosen
		// expiry could be minted above: decide expiry black-box instead, with issue
		// instants spread over a full minute
		pollFor = 66 * time.Second
		spread = true
		c.Note("expiry caveat is not in absolute Unix seconds: real-time monitor extended to %v", pollFor)
	}
	if c.Shard == 0 {
		// durations that have already elapsed when the token is issued, small and astronomically large ones: whatever
		// the arithmetic behind the expiry does with them, such a token never validates
		for _, dur := range []int{-1, -60, -3600, -(1 << 31), -(1 << 34), -(1 << 40), -(1 << 62), -9223372036854775807} {
			c.Case("token:negative-duration", map[string]any{"duration": dur}, func() {
				c.Nontrivial(fmt.Sprintf("negative-duration|%d", dur))
				op := tokens.TokenOptions{ServerPrivateKey: []byte("negative-duration-secret"), ServerName: "example.org", UserID: "@alice:example.org", Duration: dur}
				tok, err := tokens.GenerateLoginToken(op)
				c.Count("issued_with_negative_duration")
				if err != nil {
					return
				}
				if err := tokens.ValidateToken(op, tok); err == nil {
					c.Failf("token:valid-after-expiry:negative-duration", "a token issued for %d seconds (elapsed before it was issued) validates", dur)
				}
			})
		}
	}
	c.Case("realtime-expiry", map[string]any{"durations": durs, "poll_seconds": pollFor.Seconds()}, func() {
		start := time.Now()
		issue := func(dur int) {
			op := tokens.TokenOptions{ServerPrivateKey: []byte("realtime-secret"), ServerName: "example.org", UserID: "@alice:example.org", Duration: dur}
			b := time.Now()
			tok, err := tokens.GenerateLoginToken(op)
			a := time.Now()
			if err != nil {
				c.Failf("token:issue-error", "%v", err)
				return
			}
			d := float64(dur)
			if dur == 0 {
				d = 120
			}
			lives = append(lives, &live{op: op, tok: tok, before: b, after: a, d: d})
		}
		for _, d := range durs {
			issue(d)
		}
		// issue instants aligned inside the second: late in it (a token whose issue instant were rounded to the
		// nearest second instead of cut would live up to half a second too long - seeded change C20-S) and early in it
		alignTo := func(frac float64) {
			now := time.Now()
			f := float64(now.Nanosecond()) / 1e9
			wait := frac - f
			if wait < 0 {
				wait += 1
			}
			time.Sleep(time.Duration(wait * float64(time.Second)))
		}
		for _, frac := range []float64{0.58, 0.05, 0.92} {
			alignTo(frac)
			f := float64(time.Now().Nanosecond()) / 1e9
			if f >= 0.5 {
				c.Count("realtime_issued_in_second_half_of_a_second")
			} else {
				c.Count("realtime_issued_in_first_half_of_a_second")
			}
			for _, d := range durs {
				if d != 0 && d < 10 {
					issue(d)
				}
			}
		}
		nextIssue := start.Add(7 * time.Second)
		for time.Since(start) < pollFor {
			now := time.Now()
			for _, l := range lives {
				err := tokens.ValidateToken(l.op, l.tok)
				t2 := time.Now()
				sinceBefore := t2.Sub(l.before).Seconds() // upper bound of the age at validation
				sinceAfter := now.Sub(l.after).Seconds()  // lower bound of the age at validation
				c.Count("realtime_validations")
				if err == nil {
					l.sawValid++
					if sinceAfter >= l.d {
						c.Failf("token:valid-after-expiry", "a token issued for %v s still validates %.2f s (at least) after issue", l.d, sinceAfter)
					}
				} else {
					l.sawInvalid++
					if sinceBefore < l.d-1 {
						c.Failf("token:invalid-before-expiry", "a token issued for %v s is refused %.2f s (at most) after issue: %v", l.d, sinceBefore, err)
					}
				}
			}
			// in the thorough tier keep issuing short tokens so that issue instants spread over the minute
			if spread && now.After(nextIssue) {
				issue(2)
				nextIssue = now.Add(5 * time.Second)
			}
			time.Sleep(40 * time.Millisecond)
		}
		expired := 0
		for _, l := range lives {
			if time.Since(l.after).Seconds() >= l.d && l.sawInvalid > 0 {
				expired++
			}
		}
		c.CountN("realtime_tokens_observed_expiring", int64(expired))
		c.CountN("realtime_tokens", int64(len(lives)))
		c.Nontrivial("realtime")
	})
	c.Floor("realtime_tokens_observed_expiring", 2)
}

// sameMacaroon reports whether altered bytes still decode to the same
// authenticated content (identifier, caveats, signature): such edits only touch
// encoding slack or the unauthenticated location hint, and the oracle abstains.
func sameMacaroon(b []byte, m *macaroon.Macaroon) bool {
	var am macaroon.Macaroon
	if err := am.UnmarshalBinary(b); err != nil {
		return false
	}
	return string(am.Id()) == string(m.Id()) && string(am.Signature()) == string(m.Signature()) && sameCaveats(&am, m)
}

func caveatStrings(m *macaroon.Macaroon) []string {
	out := []string{}
	for _, cv := range m.Caveats() {
		out = append(out, string(cv.Id))
	}
	return out
}

func sameCaveats(a, b *macaroon.Macaroon) bool {
	return fmt.Sprint(caveatStrings(a)) == fmt.Sprint(caveatStrings(b))
}
