package main

import (
	"context"
	"errors"
	"sync"

	gmsl "github.com/matrix-org/gomatrixserverlib"
	"github.com/matrix-org/gomatrixserverlib/spec"
)

type keyReq = gmsl.PublicKeyLookupRequest
type keyRes = gmsl.PublicKeyLookupResult

// memKeyDB is an in-memory, mutex-protected KeyDatabase that records traffic.
type memKeyDB struct {
	mu        sync.Mutex
	keys      map[keyReq]keyRes
	fetchLog  []map[keyReq]spec.Timestamp
	storeLog  []map[keyReq]keyRes
	failFetch bool
	failStore bool
}

func newMemKeyDB() *memKeyDB { return &memKeyDB{keys: map[keyReq]keyRes{}} }

func (d *memKeyDB) FetcherName() string { return "memKeyDB" }

func (d *memKeyDB) FetchKeys(ctx context.Context, reqs map[keyReq]spec.Timestamp) (map[keyReq]keyRes, error) {
	d.mu.Lock()
	defer d.mu.Unlock()
	cp := map[keyReq]spec.Timestamp{}
	for k, v := range reqs {
		cp[k] = v
	}
	d.fetchLog = append(d.fetchLog, cp)
	if d.failFetch {
		return nil, errors.New("scripted database failure")
	}
	out := map[keyReq]keyRes{}
	for k := range reqs {
		if r, ok := d.keys[k]; ok {
			out[k] = r
		}
	}
	return out, nil
}

func (d *memKeyDB) StoreKeys(ctx context.Context, results map[keyReq]keyRes) error {
	d.mu.Lock()
	defer d.mu.Unlock()
	cp := map[keyReq]keyRes{}
	for k, v := range results {
		cp[k] = v
	}
	d.storeLog = append(d.storeLog, cp)
	if d.failStore {
		return errors.New("scripted store failure")
	}
	for k, v := range results {
		d.keys[k] = v
	}
	return nil
}

func (d *memKeyDB) set(server, keyID string, pub []byte, validUntil, expired int64) {
	d.mu.Lock()
	defer d.mu.Unlock()
	d.keys[keyReq{ServerName: spec.ServerName(server), KeyID: gmsl.KeyID(keyID)}] = keyRes{
		VerifyKey:    gmsl.VerifyKey{Key: spec.Base64Bytes(pub)},
		ValidUntilTS: spec.Timestamp(validUntil),
		ExpiredTS:    spec.Timestamp(expired),
	}
}

// recVerifier records every request passed to the wrapped verifier.
type recVerifier struct {
	mu    sync.Mutex
	inner gmsl.JSONVerifier
	reqs  []gmsl.VerifyJSONRequest
}

func (v *recVerifier) VerifyJSONs(ctx context.Context, requests []gmsl.VerifyJSONRequest) ([]gmsl.VerifyJSONResult, error) {
	v.mu.Lock()
	v.reqs = append(v.reqs, requests...)
	v.mu.Unlock()
	return v.inner.VerifyJSONs(ctx, requests)
}

func userIDForSender(roomID spec.RoomID, senderID spec.SenderID) (*spec.UserID, error) {
	return spec.NewUserID(string(senderID), true)
}
