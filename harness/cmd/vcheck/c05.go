package main

import (
	"context"
	"fmt"
	"strings"

	gmsl "github.com/matrix-org/gomatrixserverlib"

	"verif/gen"
	"verif/mon"
	"verif/ref"
)

func init() {
	register(&propDef{
		ID:    "C05",
		Level: "exploration",
		Rule: "cases are (event JSON, room version): raw-assembled events of every protected type and 5 other types carrying every keep-list key of every version plus random extra top-level/content keys, and events built by EventBuilder.Build then redacted through PDU.Redact; every registered version; " +
			"distinct = distinct (version, event bytes); non-trivial = the event has at least one key the algorithm must remove and one it must keep in content",
		Assumptions: []string{"reference redaction tables in harness/ref/redact.go transcribed from the room-version specifications",
			"content numbers restricted to values exactly representable in float64 (the library passes content through float64)",
			"abstains on v11+ member third_party_invite.signed"},
		Run: runC05,
	})
}

func runC05(c *mon.Ctx) {
	r := c.Rand("events")
	versions := sortedVersions()
	types := append(append([]string{}, gen.ProtectedTypes...), gen.OtherTypes...)
	nums := append(append([]string{}, gen.SafeNumbers...), gen.SafeFractions...)
	nVariants := c.Scale(24, 3200)
	nth := 0
	for _, ver := range versions {
		t := ref.Traits(string(ver))
		if t == nil {
			continue
		}
		impl := gmsl.MustGetRoomVersion(ver)
		for _, typ := range types {
			for k := 0; k < nVariants; k++ {
				ev := gen.RawEvent(r, t, typ, nums)
				if t.Redaction >= 5 && typ == "m.room.member" {
					ev.Get("content").Del("third_party_invite")
				}
				var lookalikes []string
				if k%4 == 2 {
					lookalikes = gen.AddFoldVariantKeys(r, ev, typ)
				}
				nth++
				if nth%5 == 3 {
					// one protected top-level member with the value null: kept, with that value (tenth seeding round, C05-U:
					// a raw-JSON field type that took null for "absent" dropped it)
					var cand []string
					for _, key := range ref.TopLevelKeep(t.Redaction) {
						if key != "type" && key != "content" {
							cand = append(cand, key)
						}
					}
					if len(cand) > 0 {
						ev.Set(cand[(nth/5)%len(cand)], ref.NullV())
					}
				}
				text := gen.Plain().Bytes(ev)
				if k%3 == 1 {
					text = gen.Scramble(r).Bytes(ev)
				}
				c.Case("redact-raw:"+string(ver)+":"+typ, map[string]any{"version": ver, "event": string(text), "lookalike_keys": lookalikes}, func() {
					want := ref.Redact(t.Redaction, ev)
					if k%3 == 0 {
						// a history: the redaction before this one fails half-way (an event whose content is no object, with
						// every optional top-level member the algorithms keep). Nothing of it shows in the next one.
						if _, perr := impl.RedactEventJSON([]byte(`{"type":"` + typ + `","content":5,"state_key":"left-over","prev_state":["left-over"],"origin":"left.over","event_id":"$left-over","redacts":"$left-over","membership":"left-over","sender":"@left:over","room_id":"!left:over","depth":7,"origin_server_ts":7,"hashes":{"sha256":"x"},"signatures":{"left.over":{"ed25519:x":"y"}},"auth_events":["$left-over"],"prev_events":["$left-over"],"unsigned":{"left":"over"}}`)); perr == nil {
							c.Count("redactions_of_an_event_without_content_object_accepted")
						} else {
							c.Count("redactions_after_a_failed_redaction")
						}
					}
					gin, intact := mon.Guarded(text)
					out, err := impl.RedactEventJSON(gin)
					if d := intact(); d != "" {
						c.Failf("redact:callers-buffer-written", "RedactEventJSON(v%s): %s", ver, d)
					}
					if err == nil {
						c.Retain("redact", "the result of RedactEventJSON", out)
					}
					if err != nil {
						if len(lookalikes) > 0 {
							c.Failf("redact:lookalike-key:error", "RedactEventJSON(v%s) fails on an event with the extra key(s) %q: %v\n%s", ver, lookalikes, err, text)
							return
						}
						c.Failf("redact:error:"+typ, "RedactEventJSON(v%s, %q): %v", ver, text, err)
						return
					}
					if len(lookalikes) > 0 {
						c.Count("redactions_with_lookalike_keys")
						if got, _, perr := ref.Parse(out); perr == nil && !ref.Equal(got, want) {
							c.Failf("redact:lookalike-key:taken-for-protected-key", "RedactEventJSON(v%s) of an event with the extra key(s) %q (different keys from the protected ones they resemble)\n in   %s\n got  %s\n want %s", ver, lookalikes, text, ref.Canon(got), ref.Canon(want))
							return
						}
					}
					c.Count("redactions")
					got, _, perr := ref.Parse(out)
					if perr != nil {
						c.Failf("redact:output-invalid-json", "RedactEventJSON(v%s, %q) = %q: %v", ver, text, out, perr)
						return
					}
					if !ref.Equal(got, want) {
						c.Failf(redactSig(t, typ, got, want), "RedactEventJSON(v%s, %q)\n got  %s\n want %s", ver, text, ref.Canon(got), ref.Canon(want))
						return
					}
					out2, err := impl.RedactEventJSON(out)
					if err != nil {
						c.Failf("redact:second-pass-error", "RedactEventJSON on its own output %q: %v", out, err)
						return
					}
					if g2, _, e2 := ref.Parse(out2); e2 != nil || !ref.Equal(g2, got) {
						c.Failf("redact:not-idempotent:"+typ, "redact(redact(e)) = %q, redact(e) = %q (v%s)", out2, out, ver)
					}
					// non-trivial: something removed and some content kept
					removed := len(ev.O) > len(want.O) || len(ev.Get("content").O) > len(want.Get("content").O)
					if removed && len(want.Get("content").O) > 0 {
						c.NontrivialBytes(append([]byte(string(ver)+"|"), text...))
					}
					if c.WantSample() && len(text) < 700 && removed {
						c.Sample(map[string]any{"version": ver, "event": string(text), "redacted": string(out)})
					}
				})
			}
		}
	}

	// built events: PDU.Redact keeps identity and signatures
	id := gen.NewIdentity(c.RandShared("id"), "a.example", "ed25519:k1")
	id2 := gen.NewIdentity(c.RandShared("id2"), "b.example:8448", "ed25519:other")
	nBuilt := c.Scale(20, 2400)
	ringDB := newMemKeyDB()
	ringDB.set(id.Server, id.KeyID, id.Pub, farFuture, 0)
	ringDB.set(id2.Server, id2.KeyID, id2.Pub, farFuture, 0)
	ring := &gmsl.KeyRing{KeyDatabase: ringDB}
	for _, ver := range versions {
		t := ref.Traits(string(ver))
		if t == nil {
			continue
		}
		impl := gmsl.MustGetRoomVersion(ver)
		for _, typ := range types {
			for k := 0; k < nBuilt/4+1; k++ {
				content := gen.ContentFor(r, typ, gen.SafeNumbers)
				if t.Redaction >= 5 && typ == "m.room.member" {
					content.Del("third_party_invite")
				}
				ps := protoSpec{Type: typ, Sender: "@alice:a.example", RoomID: "!room:a.example", Content: gen.Plain().Bytes(content),
					Prev: []string{"$prev1:a.example"}, Auth: []string{"$create:a.example"}, Depth: int64(r.Range(1, 50))}
				if t.Domainless {
					ps.RoomID = "!aGVsbG9oZWxsb2hlbGxvaGVsbG9oZWxsb2hlbGxvaGV"
					ps.Auth = []string{}
					ps.Prev = []string{"$aGVsbG9oZWxsb2hlbGxvaGVsbG9oZWxsb2hlbGxvaGV"}
				}
				if typ != "m.room.message" && typ != "m.room.redaction" {
					ps.StateKey = strp(gen.Pick(r, []string{"", "@bob:b.example"}))
				}
				if typ == "m.room.create" {
					ps.StateKey = strp("")
					if t.Domainless {
						ps.RoomID = ""
						ps.Prev = []string{}
					}
				}
				if typ == "m.room.redaction" {
					ps.Redacts = "$victim:a.example"
				}
				if r.Chance(0.5) {
					ps.Unsigned = []byte(`{"age":3,"x":{"y":[1,2]}}`)
				}
				c.Case("redact-built:"+string(ver)+":"+typ, map[string]any{"version": ver, "proto": ps, "content": string(ps.Content)}, func() {
					ev, err := buildEvent(ver, ps, id, baseTime)
					if err != nil {
						c.Count("build_refused")
						return
					}
					ev = ev.Sign(id2.Server, gmsl.KeyID(id2.KeyID), id2.Priv)
					orig := append([]byte{}, ev.JSON()...)
					ov := ref.MustParse(orig)
					if !refEventSigValid(ov, t, id.Server, id.KeyID, id.Pub) || !refEventSigValid(ov, t, id2.Server, id2.KeyID, id2.Pub) {
						c.Failf("redact:built-event-signature-invalid", "signatures of a freshly built+signed event do not verify over the reference redaction (v%s): %s", ver, orig)
						return
					}
					gorig, origIntact := mon.Guarded(orig)
					p, err := impl.NewEventFromTrustedJSON(gorig, false)
					if err != nil {
						c.Failf("redact:reparse-failed", "trusted reparse of built event: %v", err)
						return
					}
					jsonBeforeRedact := append([]byte{}, p.JSON()...)
					heldBeforeRedact := p.JSON()
					defer func() {
						// what the caller held before Redact() - its own buffer, and the JSON() it had read - is as it was
						if d := origIntact(); d != "" {
							c.Failf("redact:callers-buffer-written", "Redact() (v%s) on an event loaded from the caller's buffer: %s", ver, d)
						}
						if string(heldBeforeRedact) != string(jsonBeforeRedact) {
							c.Failf("redact:earlier-json-rewritten", "the JSON() read before Redact() (v%s) reads differently afterwards", ver)
						}
					}()
					idBefore, typB, sndB, skB := p.EventID(), p.Type(), string(p.SenderID()), p.StateKey()
					roomB := ""
					if s, _, pan := mon.Guard(func() { roomB = p.RoomID().String() }); pan {
						c.Failf("redact:roomid-panics", "RoomID() panics before redaction: %s", s)
						return
					}
					verB := p.Version()
					libOK := gmsl.VerifyEventSignatures(context.Background(), p, ring, userIDForSender) == nil
					p.Redact()
					c.Count("pdu_redactions")
					if p.Version() != verB {
						c.Failf("redact:room-version-lost", "Version() = %q after Redact(), was %q", p.Version(), verB)
					}
					if libOK {
						c.Count("library_verified_before_and_after")
						if err := gmsl.VerifyEventSignatures(context.Background(), p, ring, userIDForSender); err != nil {
							c.Failf("redact:signature-invalidated:library", "VerifyEventSignatures passed on the event but fails on the same PDU after Redact() (v%s): %v", ver, err)
						}
					}
					if !p.Redacted() {
						c.Failf("redact:flag-not-set", "Redacted() false after Redact()")
					}
					rv, _, perr := ref.Parse(p.JSON())
					if perr != nil {
						c.Failf("redact:output-invalid-json", "Redact() JSON invalid: %v", perr)
						return
					}
					want := ref.Redact(t.Redaction, ov)
					if !ref.Equal(rv, want) {
						c.Failf(redactSig(t, typ, rv, want), "PDU.Redact (v%s) of %s\n got  %s\n want %s", ver, orig, ref.Canon(rv), ref.Canon(want))
						return
					}
					roomA := ""
					mon.Guard(func() { roomA = p.RoomID().String() })
					if p.Type() != typB || string(p.SenderID()) != sndB || roomA != roomB || (skB == nil) != (p.StateKey() == nil) || (skB != nil && *skB != *p.StateKey()) {
						c.Failf("redact:identity-field-changed", "type/sender/room/state_key changed by Redact (v%s): %s", ver, orig)
					}
					if t.EventIDFormat >= 2 {
						// re-parse so that a cached ID cannot mask a change
						q, err := impl.NewEventFromTrustedJSON(p.JSON(), true)
						if err != nil {
							c.Failf("redact:reparse-failed", "trusted reparse of redacted event: %v", err)
							return
						}
						if q.EventID() != idBefore || p.EventID() != idBefore {
							c.Failf("redact:event-id-changed", "event ID %s became %s after redaction (v%s): %s", idBefore, q.EventID(), ver, orig)
						}
						if want := ref.EventID(t, ov); want != idBefore {
							c.Failf("redact:event-id-not-reference-hash", "EventID() = %s, reference hash ID = %s (v%s): %s", idBefore, want, ver, orig)
						}
					} else if p.EventID() != idBefore {
						c.Failf("redact:event-id-changed", "event ID changed by redaction (v%s)", ver)
					}
					if !refEventSigValid(rv, t, id.Server, id.KeyID, id.Pub) || !refEventSigValid(rv, t, id2.Server, id2.KeyID, id2.Pub) {
						c.Failf("redact:signature-invalidated", "a signature valid on the event no longer verifies on the redacted event (v%s): %s", ver, p.JSON())
					}
					// library's own view: signatures verify on both forms
					for _, s := range []*gen.Identity{id, id2} {
						red, err := impl.RedactEventJSON(p.JSON())
						if err == nil {
							if err := gmsl.VerifyJSON(s.Server, gmsl.KeyID(s.KeyID), s.Pub, red); err != nil {
								c.Failf("redact:signature-invalidated", "VerifyJSON over the redacted event fails for %s (v%s): %v", s, ver, err)
							}
						}
					}
					if t.EventIDFormat >= 2 {
						// the same event as a caller's store may hand it back: the ID alongside, and the JSON still carrying an
						// "event_id" member that was never the ID (redaction keeps that key, it must not become the ID)
						sj := ref.MustParse(orig)
						sj.Set("event_id", ref.S("$stale-member"))
						if sp, err := impl.NewEventFromTrustedJSONWithEventID(idBefore, gen.Plain().Bytes(sj), false); err == nil {
							sp.Redact()
							c.Count("pdu_redactions_with_supplied_id")
							if sp.EventID() != idBefore {
								c.Failf("redact:event-id-changed:supplied-id", "an event loaded with its ID supplied reports %s after Redact(), before %s (v%s)", sp.EventID(), idBefore, ver)
							}
						}
					}
					{
						// the same event as a store may hand it back with extra top-level members whose names differ from the
						// protected ones by letter case or a case-folding letter only ("Sender", "state_\u212aey"): whichever
						// trusted loader reads it, the identity fields are the real members', before and after Redact()
						lj := ref.MustParse(orig)
						if added := gen.AddFoldVariantKeys(r, lj, typ); len(added) > 0 {
							ltext := gen.Plain().Bytes(lj)
							hj := lj.Clone()
							hj.Set("_room_version", ref.S(string(ver)))
							hj.Set("_event_id", ref.S(idBefore))
							loaders := map[string]func() (gmsl.PDU, error){
								"trusted":         func() (gmsl.PDU, error) { return impl.NewEventFromTrustedJSON(ltext, false) },
								"trusted-with-id": func() (gmsl.PDU, error) { return impl.NewEventFromTrustedJSONWithEventID(idBefore, ltext, false) },
								"headered":        func() (gmsl.PDU, error) { return gmsl.NewEventFromHeaderedJSON(gen.Plain().Bytes(hj), false) },
							}
							for lname, load := range loaders {
								lp, err := load()
								if err != nil {
									c.Count("lookalike_loads_refused")
									continue
								}
								c.Count("lookalike_loads")
								tuple := func() string {
									room := ""
									mon.Guard(func() { room = lp.RoomID().String() })
									sk := "<nil>"
									if lp.StateKey() != nil {
										sk = *lp.StateKey()
									}
									return fmt.Sprintf("type=%q sender=%q room=%q state_key=%q", lp.Type(), lp.SenderID(), room, sk)
								}
								skw := "<nil>"
								if skB != nil {
									skw = *skB
								}
								roomW := roomB
								if t.Domainless && typB == "m.room.create" && skB != nil && *skB == "" {
									// the room ID of such an event is its event ID with the sigil swapped
									roomW = "!" + idBefore[1:]
									if lname == "trusted" {
										roomW = "!" + ref.EventID(t, lj)[1:]
									}
								}
								want := fmt.Sprintf("type=%q sender=%q room=%q state_key=%q", typB, sndB, roomW, skw)
								if got := tuple(); got != want {
									c.Failf("redact:lookalike-key:loaded-event-reports-it:"+lname, "v%s: an event with the extra member(s) %q loaded through %s reports %s; its own members say %s", ver, added, lname, got, want)
									continue
								}
								idL := lp.EventID()
								if t.EventIDFormat >= 2 && lname == "trusted" {
									if wantID := ref.EventID(t, lj); idL != wantID {
										c.Failf("redact:lookalike-key:event-id-not-reference-hash:"+lname, "v%s: an event with the extra member(s) %q loaded through %s has the ID %s; the reference hash of its redacted form is %s", ver, added, lname, idL, wantID)
									}
								}
								lp.Redact()
								if got := tuple(); got != want {
									c.Failf("redact:identity-changed:lookalike-key:"+lname, "v%s: an event with the extra member(s) %q loaded through %s reports %s after Redact(), before %s", ver, added, lname, got, want)
								}
								if t.EventIDFormat >= 2 && lp.EventID() != idL {
									c.Failf("redact:event-id-changed:lookalike-key:"+lname, "v%s: event ID %s after Redact() of an event with the extra member(s) %q, before %s", ver, lp.EventID(), added, idL)
								}
							}
						}
					}
					p.Redact()
					if r2, _, _ := ref.Parse(p.JSON()); r2 == nil || !ref.Equal(r2, rv) {
						c.Failf("redact:not-idempotent:"+typ, "second Redact() changed the event (v%s)", ver)
					}
					c.NontrivialBytes(append([]byte(string(ver)+"|built|"), ref.Canon(stripVolatile(ov))...))
				})
			}
		}
	}
	// the same redactions from eight goroutines at once: every caller gets the redaction of the event it handed in
	if c.Shard == 0 {
		type q struct {
			impl gmsl.IRoomVersion
			text []byte
		}
		var qs []q
		cr := c.Rand("concurrent")
		for _, ver := range versions {
			t := ref.Traits(string(ver))
			if t == nil {
				continue
			}
			for _, typ := range []string{"m.room.member", "m.room.message", "m.room.power_levels", "m.room.create"} {
				for k := 0; k < 3; k++ {
					qs = append(qs, q{gmsl.MustGetRoomVersion(ver), gen.Plain().Bytes(gen.RawEvent(cr, t, typ, nums))})
				}
			}
		}
		c.Case("concurrent-calls", map[string]any{"questions": len(qs)}, func() {
			c.Nontrivial("concurrent-calls")
			c.ConcurrentReplay("redact", len(qs), func(i int) string {
				out, err := qs[i].impl.RedactEventJSON(qs[i].text)
				return fmt.Sprintf("%s %v", out, err != nil)
			})
		})
	}
	c.Floor("redactions", 200)
	c.Floor("pdu_redactions", 100)
}

// stripVolatile removes members that differ between runs (random v1 event IDs).
func stripVolatile(v *ref.Value) *ref.Value {
	c := v.Clone()
	for _, k := range []string{"event_id", "signatures", "hashes"} {
		c.Del(k)
	}
	return c
}

// redactSig names the first difference: which key was wrongly kept/removed.
func redactSig(t *ref.VersionTraits, typ string, got, want *ref.Value) string {
	diff := func(g, w *ref.Value) string {
		gk, wk := map[string]bool{}, map[string]bool{}
		for _, k := range g.Keys() {
			gk[k] = true
		}
		for _, k := range w.Keys() {
			wk[k] = true
		}
		for _, k := range w.Keys() {
			if !gk[k] {
				return "removed:" + k
			}
		}
		for _, k := range g.Keys() {
			if !wk[k] {
				return "kept:" + k
			}
		}
		for _, k := range w.Keys() {
			if k != "content" && !ref.Equal(g.Get(k), w.Get(k)) {
				return "value-changed:" + k
			}
		}
		return ""
	}
	if d := diff(got, want); d != "" {
		return fmt.Sprintf("redact:R%d:top-level:%s", t.Redaction, d)
	}
	gc, wc := got.Get("content"), want.Get("content")
	if gc == nil || wc == nil || gc.K != ref.Obj {
		return fmt.Sprintf("redact:R%d:content-shape", t.Redaction)
	}
	if d := diff(gc, wc); d != "" {
		return fmt.Sprintf("redact:R%d:%s:content-%s", t.Redaction, strings.TrimPrefix(typ, "m.room."), d)
	}
	for _, k := range wc.Keys() {
		if !ref.Equal(gc.Get(k), wc.Get(k)) {
			return fmt.Sprintf("redact:R%d:%s:content-value-changed:%s", t.Redaction, strings.TrimPrefix(typ, "m.room."), k)
		}
	}
	return fmt.Sprintf("redact:R%d:differs", t.Redaction)
}
