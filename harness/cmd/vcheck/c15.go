package main

import (
	"bytes"
	"encoding/base64"
	"context"
	"crypto/ed25519"
	"encoding/json"
	"errors"
	"fmt"
	"strings"

	gmsl "github.com/matrix-org/gomatrixserverlib"
	"github.com/matrix-org/gomatrixserverlib/spec"

	"verif/gen"
	"verif/mon"
	"verif/ref"
)

func init() {
	register(&propDef{
		ID:    "C15",
		Level: "exploration",
		Rule: "each handler is called on a simulated room (really signed events) with every guard of the statement set true / false: all-true, every single guard false, every pair false, random larger subsets. make_join / make_leave: {remote supports the version, user belongs to the requesting server, local server in room, (restricted rooms) an entitled local authoriser exists / pending invite / allowed room not resident, the template event passes auth (joiner banned, not invited, already joined ...)}; send_join: {membership, state key = sender, room ID, event ID, sender of the requesting server, origin signature valid, not banned, authorising user local}; invite: {room ID, origin signature valid, known room and already joined, stripped state supplied or generated}; HandleInviteV3 (pseudo-ID rooms): {room ID, known room and already joined}, returned event = the template completed with the invitee's sender ID and validly signed by the invitee's room key; PerformJoin against a scripted remote: {make_join version known, create event present, create event of a known version, state and auth events correctly signed, join allowed by the returned state, echoed join event well-formed}. Returned events are checked for a valid local signature over the unmodified event (independent ed25519 check). " +
			"distinct = distinct (handler, version, guard vector, room); non-trivial = at least one guard false or a restricted room",
		Assumptions: []string{"the handlers' querier interfaces are implemented by scripted stubs backed by the simulator's ground truth", "reference redaction and independent ed25519 verification for the local-signature check", "HandleInvite has no request-origin parameter and takes an already classified PDU: only the guards its signature offers are asserted"},
		Run:         runC15,
	})
}

var c15local = "origin.example" // the resident (local) server in every simulated room

type c15querier struct {
	state      map[stKey]gmsl.PDU
	pending    bool
	info       map[string]*gmsl.RestrictedRoomJoinInfo
	membership string
	known      bool
	stateErr   bool
	// memberOf, when set, is the only sender ID the membership table knows (pseudo-ID rooms key members by room key)
	memberOf spec.SenderID
	// fail names the one method that answers with an error (a database that is down at that moment); failed counts
	// how often it did
	fail   string
	failed int
}

func (q *c15querier) fault(method string) error {
	if q.fail == method {
		q.failed++
		return errors.New("scripted fault: " + method)
	}
	return nil
}

func (q *c15querier) CurrentStateEvent(ctx context.Context, roomID spec.RoomID, eventType string, stateKey string) (gmsl.PDU, error) {
	if err := q.fault("CurrentStateEvent"); err != nil {
		return nil, err
	}
	if p, ok := q.state[stKey{eventType, stateKey}]; ok {
		return p, nil
	}
	return nil, nil
}
func (q *c15querier) InvitePending(ctx context.Context, roomID spec.RoomID, senderID spec.SenderID) (bool, error) {
	if err := q.fault("InvitePending"); err != nil {
		return false, err
	}
	return q.pending, nil
}
func (q *c15querier) RestrictedRoomJoinInfo(ctx context.Context, roomID spec.RoomID, senderID spec.SenderID, localServerName spec.ServerName) (*gmsl.RestrictedRoomJoinInfo, error) {
	if err := q.fault("RestrictedRoomJoinInfo"); err != nil {
		return nil, err
	}
	return q.info[roomID.String()], nil
}
func (q *c15querier) CurrentMembership(ctx context.Context, roomID spec.RoomID, senderID spec.SenderID) (string, error) {
	if err := q.fault("CurrentMembership"); err != nil {
		return "", err
	}
	if q.memberOf != "" && senderID != q.memberOf {
		return "", nil
	}
	return q.membership, nil
}
func (q *c15querier) IsKnownRoom(ctx context.Context, roomID spec.RoomID) (bool, error) {
	if err := q.fault("IsKnownRoom"); err != nil {
		return false, err
	}
	return q.known, nil
}
func (q *c15querier) GetAuthEvents(ctx context.Context, event gmsl.PDU) (gmsl.AuthEventProvider, error) {
	if err := q.fault("GetAuthEvents"); err != nil {
		return nil, err
	}
	return gmsl.NewAuthEvents(nil)
}
func (q *c15querier) GetState(ctx context.Context, roomID spec.RoomID, stateWanted []gmsl.StateKeyTuple) ([]gmsl.PDU, error) {
	if err := q.fault("GetState"); err != nil {
		return nil, err
	}
	if q.stateErr {
		return nil, errors.New("scripted")
	}
	var out []gmsl.PDU
	for _, t := range stateWanted {
		if p, ok := q.state[stKey{t.EventType, t.StateKey}]; ok {
			out = append(out, p)
		}
	}
	return out, nil
}

// subsets returns guard-falsification vectors: none, singles, pairs, and a few random ones.
func guardVectors(r *gen.Rand, n int, extra int) [][]bool {
	var out [][]bool
	mk := func(idx ...int) []bool {
		v := make([]bool, n)
		for i := range v {
			v[i] = true
		}
		for _, i := range idx {
			v[i] = false
		}
		return v
	}
	out = append(out, mk())
	for i := 0; i < n; i++ {
		out = append(out, mk(i))
	}
	for i := 0; i < n; i++ {
		for j := i + 1; j < n; j++ {
			out = append(out, mk(i, j))
		}
	}
	for k := 0; k < extra; k++ {
		v := mk()
		for i := range v {
			if r.Chance(0.4) {
				v[i] = false
			}
		}
		out = append(out, v)
	}
	return out
}

func vecName(names []string, v []bool) string {
	f := []string{}
	for i, ok := range v {
		if !ok {
			f = append(f, names[i])
		}
	}
	if len(f) == 0 {
		return "all-guards-hold"
	}
	return "false:" + strings.Join(f, "+")
}

func allTrue(v []bool) bool {
	for _, b := range v {
		if !b {
			return false
		}
	}
	return true
}

// localSigValid checks the local server's signature over the unmodified event.
func localSigValid(out gmsl.PDU, t *ref.VersionTraits, id *gen.Identity) bool {
	v, _, err := ref.Parse(out.JSON())
	if err != nil {
		return false
	}
	return refEventSigValid(v, t, id.Server, id.KeyID, id.Pub)
}

func sameSignedContent(a, b []byte, t *ref.VersionTraits) bool {
	av, _, e1 := ref.Parse(a)
	bv, _, e2 := ref.Parse(b)
	if e1 != nil || e2 != nil {
		return false
	}
	for _, v := range []*ref.Value{av, bv} {
		v.Del("signatures")
		v.Del("unsigned")
	}
	return ref.Equal(av, bv)
}

func runC15(c *mon.Ctx) {
	r := c.Rand("rooms")
	versions := []gmsl.RoomVersion{"1", "6", "9", "10", "11", "12"}
	if c.Thorough() {
		versions = nil
		for _, v := range sortedVersions() {
			if v != gmsl.RoomVersionPseudoIDs {
				versions = append(versions, v)
			}
		}
	}
	n := c.Scale(48, 12000) / len(versions)
	if n < 1 {
		n = 1
	}
	for k := 0; k < n; k++ {
		for _, ver := range versions {
			sr := r.Fork("room")
			// (in half of the processes the rooms of versions with privileged creators have a second creator on another
			// server than the resident one - the case in which "may always invite" and "is one of ours" come apart)
			simExtraCreatorOverride = ""
			if c.Shard%2 == 0 {
				simExtraCreatorOverride = simUsers[2]
			}
			sc := genScenario(sr, ver, 4)
			simExtraCreatorOverride = ""
			b := gen.Pick(sr, sc.branches)
			c15MakeJoinLeave(c, sr, sc, b)
			c15SendJoin(c, sr, sc, b)
			c15Invite(c, sr, sc, b)
			c15InviteV3(c, sr, sc)
			c15SendJoinPseudoID(c, sr)
			c15PerformJoin(c, sr, sc, b)
		}
	}
	c.Floor("handler_calls", 500)
	c.Floor("handler_success", 50)
	c.Floor("handler_refusal", 200)
	c.Floor("perform_join_calls", 30)
	c.Floor("handler_callback_faults_hit", 100)
}

// templateBuilder builds the event a handler asks for on the branch's state.
func templateBuilder(sc *simScenario, b *simBranch) func(*gmsl.ProtoEvent) (gmsl.PDU, []gmsl.PDU, error) {
	return func(pe *gmsl.ProtoEvent) (gmsl.PDU, []gmsl.PDU, error) {
		s := sc.s
		cp := *pe
		cp.PrevEvents = []string{b.tip}
		cp.Depth = b.depth + 1
		eb := s.impl.NewEventBuilderFromProtoEvent(&cp)
		if err := eb.AddAuthEvents(s.provider(b)); err != nil {
			return nil, nil, err
		}
		id := serverIdentity(c15local)
		ev, err := eb.Build(baseTime, spec.ServerName(id.Server), gmsl.KeyID(id.KeyID), id.Priv)
		if err != nil {
			return nil, nil, err
		}
		return ev, b.list(), nil
	}
}

func c15MakeJoinLeave(c *mon.Ctx, r *gen.Rand, sc *simScenario, b *simBranch) {
	s := sc.s
	names := []string{"remote-supports-version", "user-of-requesting-server", "local-server-in-room", "template-passes-auth"}
	for _, user := range []string{"@bob:other.example", "@carol:third.example", "@newcomer:other.example"} {
		uid := spec.NewUserIDOrPanic(user, true)
		for _, vec := range guardVectors(r, len(names), 2) {
			remoteVersions := []gmsl.RoomVersion{"1", s.ver, "9"}
			if !vec[0] {
				remoteVersions = []gmsl.RoomVersion{"no.such.version"}
				if r.Chance(0.3) {
					remoteVersions = nil
				}
				if s.ver != "1" && r.Chance(0.3) {
					remoteVersions = []gmsl.RoomVersion{"1"}
				}
			}
			origin := spec.ServerName(serverOf(user))
			if !vec[1] {
				origin = "evil.example"
			}
			inRoom := vec[2]
			// guard 4: the join must pass auth on the branch. Find out by asking for the template ourselves.
			build := templateBuilder(sc, b)
			probe := gmsl.ProtoEvent{SenderID: user, RoomID: s.roomID, Type: "m.room.member", StateKey: strp(user), Content: []byte(`{"membership":"join"}`)}
			jr := ""
			if ev, ok := b.state[stKey{"m.room.join_rules", ""}]; ok {
				jr, _ = ev.JoinRule()
			}
			restricted := jr == "restricted" || jr == "knock_restricted"
			authOK := false
			if ev, st, err := build(&probe); err == nil {
				authOK = allowedBy(ev, st)
			}
			if restricted {
				continue // restricted rooms are driven by the dedicated loop below
			}
			if vec[3] != authOK {
				continue // the room decides this guard; take the vectors that match
			}
			want := allTrue(vec)
			name := "make_join:" + vecName(names, vec)
			c.Case(name, map[string]any{"version": s.ver, "user": user, "guards": vecName(names, vec), "join_rule": jr}, func() {
				q := &c15querier{state: b.state}
				resp, err := gmsl.HandleMakeJoin(gmsl.HandleMakeJoinInput{Context: context.Background(), UserID: uid, SenderID: spec.SenderID(user), RoomID: s.create.RoomID(), RoomVersion: s.ver,
					RemoteVersions: remoteVersions, RequestOrigin: origin, LocalServerName: spec.ServerName(c15local), LocalServerInRoom: inRoom, RoomQuerier: q, UserIDQuerier: userIDForSender, BuildEventTemplate: build})
				c15verdict(c, "make_join", name, want, err == nil, vecName(names, vec), s.ver)
				if want && err == nil {
					// the same request while one of the things the handler asks is failing: no template on an unanswered question
					for _, f := range []string{"CurrentStateEvent", "InvitePending", "RestrictedRoomJoinInfo", "BuildEventTemplate", "UserIDQuerier"} {
						fq := &c15querier{state: b.state, fail: f}
						failed := 0
						fbuild, fuid := build, spec.UserIDForSender(userIDForSender)
						if f == "BuildEventTemplate" {
							fbuild = func(pe *gmsl.ProtoEvent) (gmsl.PDU, []gmsl.PDU, error) { failed++; return nil, nil, errors.New("scripted fault") }
						}
						if f == "UserIDQuerier" {
							fuid = func(roomID spec.RoomID, senderID spec.SenderID) (*spec.UserID, error) { failed++; return nil, errors.New("scripted fault") }
						}
						_, ferr := gmsl.HandleMakeJoin(gmsl.HandleMakeJoinInput{Context: context.Background(), UserID: uid, SenderID: spec.SenderID(user), RoomID: s.create.RoomID(), RoomVersion: s.ver,
							RemoteVersions: remoteVersions, RequestOrigin: origin, LocalServerName: spec.ServerName(c15local), LocalServerInRoom: inRoom, RoomQuerier: fq, UserIDQuerier: fuid, BuildEventTemplate: fbuild})
						c.Count("handler_calls_with_a_failing_callback")
						if failed+fq.failed > 0 {
							c.Count("handler_callback_faults_hit")
							if ferr == nil {
								c.Failf("make_join:succeeds-although-a-callback-failed:"+f, "HandleMakeJoin returns a template although %s answered with an error", f)
							}
						}
					}
				}
				if err == nil {
					pe := resp.JoinTemplateEvent
					if pe.Type != "m.room.member" || pe.StateKey == nil || *pe.StateKey != user || pe.SenderID != user || resp.RoomVersion != s.ver || !strings.Contains(string(pe.Content), `"join"`) {
						c.Failf("make_join:template-wrong", "make_join template is not a join of %s in v%s: %+v", user, s.ver, pe)
					}
				}
			})
			// make_leave
			lvec := vec[1:]
			lnames := names[1:]
			lprobe := gmsl.ProtoEvent{SenderID: user, RoomID: s.roomID, Type: "m.room.member", StateKey: strp(user), Content: []byte(`{"membership":"leave"}`)}
			lAuthOK := false
			if ev, st, err := build(&lprobe); err == nil {
				lAuthOK = allowedBy(ev, st)
			}
			if lvec[2] != lAuthOK {
				continue
			}
			lname := "make_leave:" + vecName(lnames, lvec)
			c.Case(lname, map[string]any{"version": s.ver, "user": user, "guards": vecName(lnames, lvec)}, func() {
				resp, err := gmsl.HandleMakeLeave(gmsl.HandleMakeLeaveInput{UserID: uid, SenderID: spec.SenderID(user), RoomID: s.create.RoomID(), RoomVersion: s.ver, RequestOrigin: origin,
					LocalServerName: spec.ServerName(c15local), LocalServerInRoom: inRoom, UserIDQuerier: userIDForSender, BuildEventTemplate: build})
				c15verdict(c, "make_leave", lname, allTrue(lvec), err == nil, vecName(lnames, lvec), s.ver)
				if err == nil && (resp.LeaveTemplateEvent.StateKey == nil || *resp.LeaveTemplateEvent.StateKey != user || !strings.Contains(string(resp.LeaveTemplateEvent.Content), `"leave"`)) {
					c.Failf("make_leave:template-wrong", "make_leave template is not a leave of %s", user)
				}
			})
		}
	}
	// restricted rooms: the authoriser guard
	if !s.t.Restricted {
		return
	}
	rb := b.clone()
	allowedRoom := "!allowed:origin.example"
	// a member of another server whose name the event parser lets through but that is no valid server name: not a
	// user of the local server either (joins while the room still lets anybody in)
	var oddMember gmsl.PDU
	if cr, pl0 := rb.state[stKey{"m.room.create", ""}], rb.state[stKey{"m.room.power_levels", ""}]; cr != nil && pl0 != nil && s.t.EventIDFormat >= 2 {
		odd := "@admin:evil_org"
		authIDs := []string{pl0.EventID()}
		if !s.t.Domainless {
			authIDs = append([]string{cr.EventID()}, authIDs...)
		}
		eb := s.impl.NewEventBuilderFromProtoEvent(&gmsl.ProtoEvent{SenderID: odd, RoomID: s.roomID, Type: "m.room.member", StateKey: strp(odd), PrevEvents: []string{rb.tip}, AuthEvents: authIDs, Depth: rb.depth + 1,
			Content: []byte(`{"membership":"join"}`)})
		oid := serverIdentity("third.example")
		if ev, err := eb.Build(baseTime, spec.ServerName(oid.Server), gmsl.KeyID(oid.KeyID), oid.Priv); err == nil {
			// the room's state as the resident server holds it (it got there before identifiers were checked this strictly)
			oddMember = ev
			rb.state[stKey{"m.room.member", odd}] = ev
			s.all[ev.EventID()] = ev
		}
	}
	// ... and one whose ID has the local server's name behind an empty localpart: no user ID either, so nobody the
	// local server could let vouch for a join (tenth seeding round, C15-T: the domain alone was compared again)
	var oddLocal gmsl.PDU
	if cr, pl0 := rb.state[stKey{"m.room.create", ""}], rb.state[stKey{"m.room.power_levels", ""}]; cr != nil && pl0 != nil && s.t.EventIDFormat >= 2 {
		odd := "@:" + c15local
		authIDs := []string{pl0.EventID()}
		if !s.t.Domainless {
			authIDs = append([]string{cr.EventID()}, authIDs...)
		}
		eb := s.impl.NewEventBuilderFromProtoEvent(&gmsl.ProtoEvent{SenderID: odd, RoomID: s.roomID, Type: "m.room.member", StateKey: strp(odd), PrevEvents: []string{rb.tip}, AuthEvents: authIDs, Depth: rb.depth + 1,
			Content: []byte(`{"membership":"join"}`)})
		oid := serverIdentity(c15local)
		if ev, err := eb.Build(baseTime, spec.ServerName(oid.Server), gmsl.KeyID(oid.KeyID), oid.Priv); err == nil {
			oddLocal = ev
			rb.state[stKey{"m.room.member", odd}] = ev
			s.all[ev.EventID()] = ev
		}
	}
	jrEv, ok := s.propose(rb, "m.room.join_rules", strp(""), s.users[0], ref.O("join_rule", ref.S("restricted"), "allow", ref.A(ref.O("type", ref.S("m.room_membership"), "room_id", ref.S(allowedRoom)))), false)
	if !ok || jrEv == nil {
		return
	}
	joiner := "@newcomer:other.example"
	uid := spec.NewUserIDOrPanic(joiner, true)
	plEv := rb.state[stKey{"m.room.power_levels", ""}]
	pl, err := plEv.PowerLevels()
	if err != nil {
		return
	}
	creators := gmsl.CreatorsFromCreateEvent(s.create)
	type rcase struct {
		name      string
		pending   bool
		resident  bool
		userIn    bool
		candidate string // local user offered as authoriser ("" = none)
		oddRemote bool   // the querier also lists a member of another server whose ID is not a well-formed user ID
	}
	var cands []string
	for _, u := range s.users {
		if serverOf(u) == c15local && s.membership(rb, u) == "join" {
			cands = append(cands, u)
		}
	}
	cases := []rcase{{"pending-invite", true, false, false, "", false}, {"not-resident", false, false, false, "", false}, {"joiner-not-in-allowed-room", false, true, false, "", false}, {"no-local-user-listed", false, true, true, "", false}}
	for _, u := range cands {
		cases = append(cases, rcase{"candidate:" + u, false, true, true, u, false})
	}
	// a member of another server whose name the event parser lets through but that is no valid server name: not a
	// user of the local server either
	if oddMember != nil {
		cases = append(cases, rcase{"only-a-remote-member-with-a-malformed-id-listed", false, true, true, "", true})
	}
	if oddLocal != nil {
		cases = append(cases, rcase{"only-a-local-member-with-a-malformed-id-listed", false, true, true, "", false})
	}
	for _, rcse := range cases {
		entitled := false
		if rcse.candidate != "" {
			isCreator := false
			for _, cr := range creators {
				if cr == rcse.candidate && s.t.PrivCreators {
					isCreator = true
				}
			}
			entitled = isCreator || pl.UserLevel(spec.SenderID(rcse.candidate)) >= pl.Invite
		}
		guard := rcse.pending || (rcse.resident && rcse.userIn && entitled)
		build := templateBuilder(sc, rb)
		// the resulting event must also pass auth; with a pending invite there is no authoriser in the content,
		// and the room (no invite event in its state) then refuses the join: that is guard 5, evaluated by probing
		content := `{"membership":"join"}`
		if guard && !rcse.pending {
			content = fmt.Sprintf(`{"membership":"join","join_authorised_via_users_server":%q}`, rcse.candidate)
		}
		probe := gmsl.ProtoEvent{SenderID: joiner, RoomID: s.roomID, Type: "m.room.member", StateKey: strp(joiner), Content: []byte(content)}
		authOK := false
		if ev, st, err := build(&probe); err == nil {
			authOK = allowedBy(ev, st)
		}
		want := guard && authOK
		name := "make_join:restricted:" + rcse.name
		c.Case(name, map[string]any{"version": s.ver, "case": rcse.name, "authoriser_entitled": entitled, "template_passes_auth": authOK}, func() {
			q := &c15querier{state: rb.state, pending: rcse.pending, info: map[string]*gmsl.RestrictedRoomJoinInfo{}}
			info := &gmsl.RestrictedRoomJoinInfo{LocalServerInRoom: rcse.resident, UserJoinedToRoom: rcse.userIn}
			// the room's joined members as the querier sees them: members of other servers come first, whatever their
			// power; only one of the local server's own users can vouch for the join
			if rcse.resident && rcse.userIn {
				for _, u := range s.users {
					if serverOf(u) != c15local && s.membership(rb, u) == "join" {
						info.JoinedUsers = append(info.JoinedUsers, rb.state[stKey{"m.room.member", u}])
					}
				}
			}
			if rcse.oddRemote && oddMember != nil {
				c.Count("restricted_make_join_calls_with_a_malformed_remote_member")
				info.JoinedUsers = append([]gmsl.PDU{oddMember}, info.JoinedUsers...)
			}
			if rcse.name == "only-a-local-member-with-a-malformed-id-listed" && oddLocal != nil {
				c.Count("restricted_make_join_calls_with_a_malformed_local_member")
				info.JoinedUsers = append([]gmsl.PDU{oddLocal}, info.JoinedUsers...)
			}
			if rcse.candidate != "" {
				info.JoinedUsers = append(info.JoinedUsers, rb.state[stKey{"m.room.member", rcse.candidate}])
			}
			q.info[allowedRoom] = info
			resp, err := gmsl.HandleMakeJoin(gmsl.HandleMakeJoinInput{Context: context.Background(), UserID: uid, SenderID: spec.SenderID(joiner), RoomID: s.create.RoomID(), RoomVersion: s.ver,
				RemoteVersions: []gmsl.RoomVersion{s.ver}, RequestOrigin: "other.example", LocalServerName: spec.ServerName(c15local), LocalServerInRoom: true, RoomQuerier: q, UserIDQuerier: userIDForSender, BuildEventTemplate: build})
			c15verdict(c, "make_join", name, want, err == nil, "restricted:"+rcse.name, s.ver)
			c.Count("restricted_make_join_calls")
			if err == nil {
				if via := ref.MustParse(resp.JoinTemplateEvent.Content).Get("join_authorised_via_users_server"); via != nil && via.K == ref.Str && serverOf(via.S) != c15local {
					c.Failf("make_join:authoriser-not-local", "the restricted make_join template names %s, a user of another server, as the authorising user", via.S)
				}
			}
			if err == nil && guard && !rcse.pending && !strings.Contains(string(resp.JoinTemplateEvent.Content), rcse.candidate) {
				c.Failf("make_join:authoriser-not-in-template", "restricted make_join template does not name the authorising user %s: %s", rcse.candidate, resp.JoinTemplateEvent.Content)
			}
		})
	}
}

func c15verdict(c *mon.Ctx, handler, name string, want, got bool, guards string, ver gmsl.RoomVersion) {
	c.Count("handler_calls")
	c.Count(handler + "_calls")
	if guards != "all-guards-hold" {
		c.Nontrivial(fmt.Sprintf("%s|%s|%s", ver, name, guards))
	}
	if got {
		c.Count("handler_success")
	} else {
		c.Count("handler_refusal")
	}
	if c.WantSample() && guards != "all-guards-hold" {
		c.Sample(map[string]any{"handler": handler, "room_version": ver, "guards": guards, "expected_success": want, "handler_succeeded": got})
	}
	if want && !got {
		c.Failf(handler+":refuses-although-every-guard-holds", "%s (v%s): every guard holds but the handler refused (%s)", handler, ver, guards)
	}
	if !want && got {
		c.Failf(handler+":accepts:"+guards, "%s (v%s) succeeded although a guard is false: %s", handler, ver, guards)
	}
}

func c15joinerServer(userID string) string {
	if i := strings.Index(userID, ":"); i >= 0 {
		return userID[i+1:]
	}
	return userID
}

// c15RingKeyState is c14ring with another record for one server's key: "expired-before-event" (expired_ts before the
// events' origin_server_ts: no signature made at that time is valid, in any room version) or "stale-before-event"
// (valid_until_ts before it, nobody to ask for a newer one: not valid where the room version checks validity strictly).
func c15RingKeyState(server, state string) *gmsl.KeyRing {
	db := newMemKeyDB()
	for _, s := range []string{"origin.example", "other.example", "third.example"} {
		id := serverIdentity(s)
		switch {
		case s != server:
			db.set(s, id.KeyID, id.Pub, farFuture, 0)
		case state == "expired-before-event":
			db.set(s, id.KeyID, id.Pub, 0, baseTime.UnixMilli()-1000)
		default:
			db.set(s, id.KeyID, id.Pub, baseTime.UnixMilli()-1000, 0)
		}
	}
	return &gmsl.KeyRing{KeyDatabase: db}
}

// c15SignatureFault picks how the "validly signed by the requesting server" guard is made false: a key nobody
// published, or the right key in a state in which it does not vouch for the event's timestamp.
func c15SignatureFault(r *gen.Rand, t *ref.VersionTraits) string {
	modes := []string{"unpublished-key", "unpublished-key", "expired-before-event"}
	if t.StrictValidity {
		modes = append(modes, "stale-before-event")
	}
	return gen.Pick(r, modes)
}

// withJunkSignature returns the event JSON with a made-up entry under the given server's name and key ID added to
// its signatures: both are public, and signatures are not part of the event ID.
func withJunkSignature(r *gen.Rand, evJSON []byte, id *gen.Identity) []byte {
	jv := ref.MustParse(evJSON)
	sigs := jv.Get("signatures")
	if sigs == nil || sigs.K != ref.Obj {
		return evJSON
	}
	sigs.Set(id.Server, ref.O(id.KeyID, ref.S(base64.RawStdEncoding.EncodeToString(r.Bytes(64)))))
	return gen.Plain().Bytes(jv)
}

func c15SendJoin(c *mon.Ctx, r *gen.Rand, sc *simScenario, b *simBranch) {
	s := sc.s
	local := serverIdentity(c15local)
	names := []string{"membership-join", "state-key-is-sender", "room-matches", "event-id-matches", "sender-of-requesting-server", "origin-signature-valid", "not-banned", "authoriser-local", "type-is-m.room.member"}
	user := "@joiner:other.example"
	vecs := guardVectors(r, len(names), 6)
	// the vector in which only "authoriser-local" is false comes twice: once with the remote authoriser alone (as before)
	// and once more, at the end, with an ill-typed optional member next to it
	onlyAuthoriser := func(v []bool) bool {
		for i, b := range v {
			if b == (i == 7) {
				return false
			}
		}
		return true
	}
	nOrig := len(vecs)
	for _, v := range vecs[:nOrig] {
		if onlyAuthoriser(v) {
			vecs = append(vecs, append([]bool{}, v...), append([]bool{}, v...))
			break
		}
	}
	for vi, vec := range vecs {
		membership := "join"
		escapedLookalike := false
		if !vec[0] {
			membership = gen.Pick(r, []string{"leave", "invite", "knock", "", ""})
			// no membership member at all, but one named "Membership" - on the wire with its first letter written as an
			// escape, so that no capital letter shows in the text (tenth seeding round, C15-U: a fast path of the exact
			// decoder for texts "without capitals")
			escapedLookalike = membership == "" && vi%3 != 2
		}
		sk := user
		if !vec[1] {
			sk = gen.Pick(r, []string{"@somebodyelse:other.example", ""})
		}
		content := ref.O()
		if membership != "" {
			content.Set("membership", ref.S(membership))
		}
		if escapedLookalike {
			content.Set("Membership", ref.S("join"))
		}
		// (the handler looks at join_authorised_via_users_server in every room version: an event naming a user of
		// another server there is never one the local server should put its signature under)
		if !vec[7] {
			content.Set("join_authorised_via_users_server", ref.S(gen.Pick(r, []string{"@admin:elsewhere.example", "not a user id"})))
			// ... next to an optional member of the wrong JSON type (ninth seeding round, C15-R: a lenient reading of the
			// content that falls back to a partial decode then, and lost the authorising user on the way)
			ill := vi % 5
			if onlyAuthoriser(vec) {
				ill = 0
				if vi >= nOrig {
					ill = 1 + vi%4
				}
			}
			switch ill {
			case 1:
				content.Set("displayname", ref.I(5))
			case 2:
				content.Set("avatar_url", ref.A())
			case 3:
				content.Set("is_direct", ref.S("yes"))
			case 4:
				content.Set("reason", ref.O())
			}
		} else if s.t.Restricted {
			content.Set("join_authorised_via_users_server", ref.S("@creator:"+c15local))
		}
		evType := "m.room.member"
		if !vec[8] {
			// not a membership event at all, however much its content and state key look like a join
			evType = gen.Pick(r, []string{"m.room.topic", "m.room.power_levels", "com.example.custom", "m.room.join_rules"})
		}
		eb := s.impl.NewEventBuilderFromProtoEvent(&gmsl.ProtoEvent{SenderID: user, RoomID: s.roomID, Type: evType, StateKey: strp(sk), PrevEvents: []string{b.tip}, Depth: b.depth + 1,
			Content: gen.Plain().Bytes(content)})
		if err := eb.AddAuthEvents(s.provider(b)); err != nil {
			continue
		}
		signer := serverIdentity("other.example")
		var ring gmsl.JSONVerifier = c14ring
		sigFault := ""
		if !vec[5] {
			if sigFault = c15SignatureFault(r, s.t); sigFault == "unpublished-key" {
				signer = gen.NewIdentity(r, "other.example", signer.KeyID)
			} else {
				ring = c15RingKeyState("other.example", sigFault)
			}
		}
		ev, err := eb.Build(baseTime, "other.example", gmsl.KeyID(signer.KeyID), signer.Priv)
		if err != nil {
			continue
		}
		evJSON := ev.JSON()
		if escapedLookalike {
			evJSON = bytes.Replace(evJSON, []byte(`"Membership"`), []byte(`"\u004dembership"`), 1)
		}
		junk := r.Chance(0.3)
		if junk {
			evJSON = withJunkSignature(r, evJSON, local)
		}
		roomID := s.create.RoomID()
		if !vec[2] {
			other, _ := spec.NewRoomID("!another:origin.example")
			roomID = *other
		}
		eventID := ev.EventID()
		if !vec[3] {
			eventID = fakeEventID(r, s.t)
			if s.t.EventFormat != 1 && r.Chance(0.5) {
				// the requester's choice of ID also written into the event, whose content was touched after hashing (the
				// event then counts as its redacted form; its ID is still its reference hash, not what it says)
				tv := ref.MustParse(evJSON)
				tv.Set("event_id", ref.S(eventID))
				if cv := tv.Get("content"); cv != nil && cv.K == ref.Obj {
					cv.Set("zz_added_after_hashing", ref.I(1))
				}
				// ... and signed by the requesting server as it stands, the member included (its signature is its own to make)
				tv.Del("signatures")
				rd := ref.Redact(s.t.Redaction, tv)
				rd.Del("unsigned")
				sig := ed25519.Sign(signer.Priv, ref.Canon(rd))
				tv.Set("signatures", ref.O("other.example", ref.O(signer.KeyID, ref.S(base64.RawStdEncoding.EncodeToString(sig)))))
				evJSON = gen.Plain().Bytes(tv)
			}
		}
		origin := spec.ServerName("other.example")
		if !vec[4] {
			origin = "evil.example"
		}
		existing := gen.Pick(r, []string{"", "leave", "join", "invite"})
		if !vec[6] {
			existing = "ban"
		}
		name := "send_join:" + vecName(names, vec)
		c.Case(name, map[string]any{"version": s.ver, "guards": vecName(names, vec), "existing_membership": existing, "junk_entry_under_local_key": junk, "signature_fault": sigFault, "event": string(evJSON)}, func() {
			q := &c15querier{membership: existing}
			resp, err := gmsl.HandleSendJoin(gmsl.HandleSendJoinInput{Context: context.Background(), RoomID: roomID, EventID: eventID, JoinEvent: evJSON, RoomVersion: s.ver, RequestOrigin: origin,
				LocalServerName: spec.ServerName(c15local), KeyID: gmsl.KeyID(local.KeyID), PrivateKey: local.Priv, Verifier: ring, MembershipQuerier: q, UserIDQuerier: userIDForSender,
				StoreSenderIDFromPublicID: func(ctx context.Context, senderID spec.SenderID, userID string, id spec.RoomID) error { return nil }})
			c15verdict(c, "send_join", name, allTrue(vec), err == nil, vecName(names, vec), s.ver)
			if allTrue(vec) && err == nil {
				{
					// a key ring that gives up without saying so: no verdicts, no error. No verdict is no signature. (The event
					// here is one the requesting server did NOT validly sign - its signature entry damaged - so that only a
					// verdict could have told.)
					tv := ref.MustParse(evJSON)
					if sg := tv.Get("signatures").Get("other.example"); sg != nil && sg.K == ref.Obj && len(sg.O) > 0 {
						sg.Set(sg.O[0].Key, ref.S("AAAAAAAAAAAAAAAAAAAAAAAAAAAAAAAAAAAAAAAAAAAAAAAAAAAAAAAAAAAAAAAAAAAAAAAAAAAAAAAAAAAAAA"))
						bad := gen.Plain().Bytes(tv)
						var ferr error
						var fresp *gmsl.HandleSendJoinResponse
						_, _, pan := mon.Guard(func() {
							fresp, ferr = gmsl.HandleSendJoin(gmsl.HandleSendJoinInput{Context: context.Background(), RoomID: roomID, EventID: eventID, JoinEvent: bad, RoomVersion: s.ver, RequestOrigin: origin,
								LocalServerName: spec.ServerName(c15local), KeyID: gmsl.KeyID(local.KeyID), PrivateKey: local.Priv, Verifier: silentVerifier{}, MembershipQuerier: &c15querier{membership: existing}, UserIDQuerier: userIDForSender,
								StoreSenderIDFromPublicID: func(ctx context.Context, senderID spec.SenderID, userID string, id spec.RoomID) error { return nil }})
						})
						c.Count("handler_calls_with_a_failing_callback")
						if pan {
							c.Count("handler_panics_on_a_key_ring_that_answers_nothing")
						} else if ferr == nil && fresp != nil && fresp.JoinEvent != nil {
							c.Failf("send_join:succeeds-although-a-callback-failed:VerifierAnswersNothing", "HandleSendJoin accepts and signs a join whose origin signature is invalid when the key ring answers with no verdicts and no error")
						}
					}
				}
				for _, f := range []string{"CurrentMembership", "UserIDQuerier", "Verifier"} {
					fq := &c15querier{membership: existing, fail: f}
					failed := 0
					fuid := spec.UserIDForSender(userIDForSender)
					var fver gmsl.JSONVerifier = ring
					if f == "UserIDQuerier" {
						fuid = func(roomID spec.RoomID, senderID spec.SenderID) (*spec.UserID, error) { failed++; return nil, errors.New("scripted fault") }
					}
					if f == "Verifier" {
						fver = failingVerifier{&failed}
					}
					_, ferr := gmsl.HandleSendJoin(gmsl.HandleSendJoinInput{Context: context.Background(), RoomID: roomID, EventID: eventID, JoinEvent: evJSON, RoomVersion: s.ver, RequestOrigin: origin,
						LocalServerName: spec.ServerName(c15local), KeyID: gmsl.KeyID(local.KeyID), PrivateKey: local.Priv, Verifier: fver, MembershipQuerier: fq, UserIDQuerier: fuid,
						StoreSenderIDFromPublicID: func(ctx context.Context, senderID spec.SenderID, userID string, id spec.RoomID) error { return nil }})
					c.Count("handler_calls_with_a_failing_callback")
					if failed+fq.failed > 0 {
						c.Count("handler_callback_faults_hit")
						if ferr == nil {
							c.Failf("send_join:succeeds-although-a-callback-failed:"+f, "HandleSendJoin accepts and signs the join although %s answered with an error", f)
						}
					}
				}
			}
			if err != nil {
				return
			}
			if resp.JoinEvent == nil {
				c.Failf("send_join:no-event-returned", "HandleSendJoin succeeded without an event")
				return
			}
			if !localSigValid(resp.JoinEvent, s.t, local) {
				c.Failf("send_join:local-signature-missing-or-invalid", "the join event returned by HandleSendJoin carries no valid signature of the local server: %s", resp.JoinEvent.JSON())
			}
			if !sameSignedContent(resp.JoinEvent.JSON(), ev.JSON(), s.t) {
				c.Failf("send_join:event-modified", "HandleSendJoin returned a modified event\n in  %s\n out %s", ev.JSON(), resp.JoinEvent.JSON())
			}
			if resp.AlreadyJoined != (existing == "join") {
				c.Failf("send_join:already-joined-flag", "AlreadyJoined=%v with existing membership %q", resp.AlreadyJoined, existing)
			}
		})
	}
}

func c15Invite(c *mon.Ctx, r *gen.Rand, sc *simScenario, b *simBranch) {
	s := sc.s
	names := []string{"room-matches", "origin-signature-valid", "not-already-joined-in-known-room", "is-an-invite-of-the-invited-user"}
	invitee := "@invitee:third.example"
	inviteeID := serverIdentity("third.example")
	// (the inviter may be on the invited user's own server: the invite still arrives from elsewhere and has to carry
	// that server's signature as it arrives - the one the handler is about to add does not count)
	var inviters []string
	for _, u := range s.users {
		if s.membership(b, u) == "join" {
			inviters = append(inviters, u)
		}
	}
	if len(inviters) == 0 {
		return
	}
	inviter := gen.Pick(r, inviters)
	for _, vec := range guardVectors(r, len(names), 2) {
		proto := gmsl.ProtoEvent{SenderID: inviter, RoomID: s.roomID, Type: "m.room.member", StateKey: strp(invitee), PrevEvents: []string{b.tip}, Depth: b.depth + 1,
			Content: []byte(`{"membership":"invite"}`)}
		if !vec[3] {
			// something else the inviting server would like the invited server's signature on
			switch r.Intn(6) {
			case 0:
				proto.Type, proto.StateKey, proto.Content = "m.room.message", nil, []byte(`{"body":"I, third.example, agree","membership":"invite"}`)
			case 1:
				proto.Type, proto.StateKey = "m.room.power_levels", strp("")
			case 2:
				proto.Content = []byte(`{"membership":"ban"}`)
			case 3:
				proto.Content = []byte(`{"membership":"join"}`)
			case 4:
				// everything about it says "invite of the invited user" except its type
				proto.Type = gen.Pick(r, []string{"m.room.topic", "com.example.custom", "m.room.join_rules"})
			default:
				proto.StateKey = strp("@somebodyelse:third.example")
			}
		}
		eb := s.impl.NewEventBuilderFromProtoEvent(&proto)
		if err := eb.AddAuthEvents(s.provider(b)); err != nil {
			continue
		}
		signer := serverIdentity(serverOf(inviter))
		var ring gmsl.JSONVerifier = c14ring
		sigFault := ""
		if !vec[1] {
			if sigFault = c15SignatureFault(r, s.t); sigFault == "unpublished-key" {
				signer = gen.NewIdentity(r, signer.Server, signer.KeyID)
			} else {
				ring = c15RingKeyState(signer.Server, sigFault)
			}
		}
		ev, err := eb.Build(baseTime, spec.ServerName(signer.Server), gmsl.KeyID(signer.KeyID), signer.Priv)
		if err != nil {
			continue
		}
		junk := r.Chance(0.3) && serverOf(inviter) != inviteeID.Server // (there it would replace the genuine signature)
		if junk {
			// a made-up entry under the invited server's own name and key ID among the signatures
			if je, err := s.impl.NewEventFromTrustedJSON(withJunkSignature(r, ev.JSON(), inviteeID), false); err == nil {
				ev = je
			}
		}
		before := append([]byte{}, ev.JSON()...)
		roomID := s.create.RoomID()
		if !vec[0] {
			o, _ := spec.NewRoomID("!another:origin.example")
			roomID = *o
		}
		known := true
		membership := gen.Pick(r, []string{"", "leave", "invite"})
		if !vec[2] {
			membership = "join"
		} else if r.Chance(0.4) {
			known = false
			membership = "join" // irrelevant for an unknown room
		}
		supplied := r.Chance(0.5)
		oddState := ""
		if supplied && r.Chance(0.5) {
			oddState = `{"type":"m.room.name","state_key":"","sender":"` + inviter + `","content":{"name":"lobby","order":` + gen.Pick(r, []string{"1.5", "1e2", "9007199254740992", "1E400"}) + `}}`
		}
		// ... or text no parser of events accepts in any room version: a member twice, a byte that is not UTF-8 (ninth
		// audit round, fed #1). Refused, or left out, or tidied up - what comes back has to be an event
		oddText := false
		if supplied && oddState == "" && r.Chance(0.4) {
			oddText = true
			oddState = `{"type":"m.room.name","state_key":"","sender":"` + inviter + `","content":` + gen.Pick(r, []string{`{"name":"x","name":"y"}`, `{"a":{"b":1,"b":1}}`, "{\"name\":\"\xff\"}", `{"name":"\ud800"}`}) + `}`
		}
		name := "invite:" + vecName(names, vec)
		c.Case(name, map[string]any{"version": s.ver, "guards": vecName(names, vec), "known_room": known, "current_membership": membership, "stripped_state_supplied": supplied, "odd_stripped_state": oddState, "junk_entry_under_local_key": junk, "signature_fault": sigFault}, func() {
			q := &c15querier{state: b.state, membership: membership, known: known}
			var stripped []gmsl.InviteStrippedState
			if supplied {
				stripped = []gmsl.InviteStrippedState{gmsl.NewInviteStrippedState(s.create)}
				if oddState != "" {
					// what the inviting server sent as invite_room_state is its own text
					var odd gmsl.InviteStrippedState
					if json.Unmarshal([]byte(oddState), &odd) == nil {
						stripped = append(stripped, odd)
					}
				}
			}
			out, err := gmsl.HandleInvite(context.Background(), gmsl.HandleInviteInput{RoomID: roomID, RoomVersion: s.ver, InvitedUser: spec.NewUserIDOrPanic(invitee, true), InvitedSenderID: spec.SenderID(invitee),
				InviteEvent: ev, StrippedState: stripped, KeyID: gmsl.KeyID(inviteeID.KeyID), PrivateKey: inviteeID.Priv, Verifier: ring, RoomQuerier: q, MembershipQuerier: q, StateQuerier: q, UserIDQuerier: userIDForSender})
			// (a stripped state the room version's canonical-JSON rule refuses cannot be put into an event of that version:
			// such an invite is refused as a whole)
			stateFits := !(supplied && oddState != "" && s.t.EnforceCanon)
			if oddText {
				c.Count("invites_with_a_stripped_state_that_is_no_event_text")
				if err == nil && !allTrue(vec) {
					c15verdict(c, "invite", name, false, true, vecName(names, vec), s.ver)
				}
				stateFits = false // an error is fine; an answer is looked at below
			} else {
				c15verdict(c, "invite", name, allTrue(vec) && stateFits, err == nil, vecName(names, vec), s.ver)
			}
			if err != nil && stateFits {
				// a refused invite is not countersigned: the event the caller handed in carries no signature of the local
				// server that it did not carry before
				bsig := ref.MustParse(before).Get("signatures").Get(inviteeID.Server)
				asig := ref.MustParse(ev.JSON()).Get("signatures").Get(inviteeID.Server)
				if (bsig == nil) != (asig == nil) || (bsig != nil && !ref.Equal(bsig, asig)) {
					c.Failf("invite:refused-event-was-countersigned", "HandleInvite refused the invite (%v) and left a signature of the local server on the event it was handed: %s", err, ref.Canon(asig))
				}
			}
			if allTrue(vec) && err == nil {
				for _, f := range []string{"IsKnownRoom", "CurrentMembership", "GetState", "UserIDQuerier", "Verifier"} {
					fq := &c15querier{state: b.state, membership: membership, known: known, fail: f}
					failed := 0
					fuid := spec.UserIDForSender(userIDForSender)
					var fver gmsl.JSONVerifier = ring
					if f == "UserIDQuerier" {
						fuid = func(roomID spec.RoomID, senderID spec.SenderID) (*spec.UserID, error) { failed++; return nil, errors.New("scripted fault") }
					}
					if f == "Verifier" {
						fver = failingVerifier{&failed}
					}
					fev, perr := s.impl.NewEventFromTrustedJSON(before, false)
					if perr != nil {
						continue
					}
					_, ferr := gmsl.HandleInvite(context.Background(), gmsl.HandleInviteInput{RoomID: roomID, RoomVersion: s.ver, InvitedUser: spec.NewUserIDOrPanic(invitee, true), InvitedSenderID: spec.SenderID(invitee),
						InviteEvent: fev, StrippedState: stripped, KeyID: gmsl.KeyID(inviteeID.KeyID), PrivateKey: inviteeID.Priv, Verifier: fver, RoomQuerier: fq, MembershipQuerier: fq, StateQuerier: fq, UserIDQuerier: fuid})
					c.Count("handler_calls_with_a_failing_callback")
					if failed+fq.failed > 0 {
						c.Count("handler_callback_faults_hit")
						if ferr == nil {
							c.Failf("invite:succeeds-although-a-callback-failed:"+f, "HandleInvite accepts and signs the invite although %s answered with an error", f)
						}
					}
				}
			}
			if err != nil {
				return
			}
			if out == nil {
				c.Failf("invite:no-event-returned", "HandleInvite succeeded without an event")
				return
			}
			if !localSigValid(out, s.t, inviteeID) {
				c.Failf("invite:local-signature-missing-or-invalid", "the invite returned by HandleInvite carries no valid signature of the invited user's server: %s", out.JSON())
			}
			if !sameSignedContent(out.JSON(), before, s.t) {
				c.Failf("invite:event-modified", "HandleInvite returned a modified event\n in  %s\n out %s", before, out.JSON())
			}
			// what the handler returns is an event like any other: the untrusted parser takes it, and signing it once
			// more does not crash
			if _, perr := s.impl.NewEventFromUntrustedJSON(out.JSON()); perr != nil {
				c.Failf("invite:returned-event-refused-by-the-parser", "v%s: the event HandleInvite returns (stripped state %q) is refused by NewEventFromUntrustedJSON: %v", s.ver, oddState, perr)
				return
			}
			if site, msg, pan := mon.Guard(func() { _ = out.Sign("third.example", gmsl.KeyID(inviteeID.KeyID), inviteeID.Priv).JSON() }); pan {
				c.Failf("invite:returned-event-cannot-be-signed:"+site, "v%s: Sign on the event HandleInvite returns (stripped state %s) panics: %s", s.ver, oddState, msg)
				return
			}
			ov := ref.MustParse(out.JSON())
			if st := ov.Get("unsigned").Get("invite_room_state"); st == nil || st.K != ref.Arr || len(st.A) == 0 {
				c.Failf("invite:no-stripped-state", "the returned invite has no unsigned.invite_room_state: %s", out.JSON())
			}
		})
	}
}

// c15InviteV3 drives the pseudo-ID variant of the invite handler: the local server completes the invite template with
// the invited user's per-room key. Same guards as HandleInvite minus the origin signature (there is no signed event
// yet); the returned event must be the template, with the invitee's sender ID as state key, validly signed by that key.
func c15InviteV3(c *mon.Ctx, r *gen.Rand, sc *simScenario) {
	ver := gmsl.RoomVersionPseudoIDs
	t := ref.Traits(string(ver))
	names := []string{"room-matches", "not-already-joined-in-known-room", "template-is-an-invite"}
	roomPriv := gen.NewIdentity(r, "unused.example", "ed25519:1")
	inviteeKey := gen.NewIdentity(r, "unused.example", "ed25519:1")
	inviterSender := spec.SenderIDFromPseudoIDKey(roomPriv.Priv)
	inviteeSender := spec.SenderIDFromPseudoIDKey(inviteeKey.Priv)
	for _, vec := range guardVectors(r, len(names), 1) {
		room, _ := spec.NewRoomID("!pseudo:origin.example")
		proto := gmsl.ProtoEvent{SenderID: string(inviterSender), RoomID: room.String(), Type: "m.room.member", StateKey: strp("to-be-replaced"), PrevEvents: []string{sc.s.create.EventID()},
			AuthEvents: []string{sc.s.create.EventID()}, Depth: 7, Content: []byte(`{"membership":"invite","reason":"` + fmt.Sprint(r.Intn(1000)) + `"}`)}
		if !vec[2] {
			// a template the invited user's room key must not be put under
			switch r.Intn(3) {
			case 0:
				proto.Type = "m.room.topic"
			case 1:
				proto.Content = []byte(`{"membership":"leave"}`)
			default:
				proto.Content = []byte(`{"membership":"join"}`)
			}
		}
		roomID := *room
		if !vec[0] {
			o, _ := spec.NewRoomID("!another:origin.example")
			roomID = *o
		}
		known := true
		membership := gen.Pick(r, []string{"", "leave", "invite"})
		if !vec[1] {
			membership = "join"
		} else if r.Chance(0.4) {
			known, membership = false, "join"
		}
		name := "invite_v3:" + vecName(names, vec)
		c.Case(name, map[string]any{"guards": vecName(names, vec), "known_room": known, "current_membership": membership}, func() {
			q := &c15querier{membership: membership, known: known}
			out, err := gmsl.HandleInviteV3(context.Background(), gmsl.HandleInviteV3Input{
				HandleInviteInput: gmsl.HandleInviteInput{RoomID: roomID, RoomVersion: ver, InvitedUser: spec.NewUserIDOrPanic("@invitee:third.example", true), InvitedSenderID: inviteeSender,
					StrippedState: []gmsl.InviteStrippedState{gmsl.NewInviteStrippedState(sc.s.create)}, Verifier: c14ring, RoomQuerier: q, MembershipQuerier: q, StateQuerier: q, UserIDQuerier: userIDForSender},
				InviteProtoEvent: proto,
				GetOrCreateSenderID: func(ctx context.Context, userID spec.UserID, roomID spec.RoomID, roomVersion string) (spec.SenderID, ed25519.PrivateKey, error) {
					return inviteeSender, inviteeKey.Priv, nil
				}})
			c15verdict(c, "invite_v3", name, allTrue(vec), err == nil, vecName(names, vec), ver)
			if err != nil {
				return
			}
			if out == nil {
				c.Failf("invite_v3:no-event-returned", "HandleInviteV3 succeeded without an event")
				return
			}
			ov, _, perr := ref.Parse(out.JSON())
			if perr != nil {
				c.Failf("invite_v3:unparseable", "HandleInviteV3 returned invalid JSON: %s", out.JSON())
				return
			}
			if !refEventSigValid(ov, t, string(inviteeSender), "ed25519:1", inviteeKey.Pub) {
				c.Failf("invite_v3:invitee-signature-missing-or-invalid", "the invite returned by HandleInviteV3 is not validly signed by the invitee's room key: %s", out.JSON())
			}
			if sk := out.StateKey(); sk == nil || *sk != string(inviteeSender) {
				c.Failf("invite_v3:state-key-not-invitee", "the returned invite's state key is not the invitee's sender ID: %s", out.JSON())
			}
			if string(out.SenderID()) != proto.SenderID || out.RoomID().String() != proto.RoomID || out.Type() != proto.Type || !ref.Equal(ov.Get("content"), ref.MustParse(proto.Content)) ||
				out.Depth() != proto.Depth || len(out.PrevEventIDs()) != 1 || out.PrevEventIDs()[0] != proto.PrevEvents.([]string)[0] {
				c.Failf("invite_v3:template-modified", "HandleInviteV3 changed the template\n in  %+v\n out %s", proto, out.JSON())
			}
			if st := ov.Get("unsigned").Get("invite_room_state"); st == nil || st.K != ref.Arr || len(st.A) == 0 {
				c.Failf("invite_v3:no-stripped-state", "the returned invite has no unsigned.invite_room_state: %s", out.JSON())
			}
		})
	}
}

// c15SendJoinPseudoID: send_join in a pseudo-ID room, where the joiner is known to the room by a per-room key, the
// event is signed by that key and carries an mxid_mapping signed by the user's server. Guards: the mapping's user
// belongs to the requesting server, the mapping is validly signed by that server, the joiner is not banned (the
// membership table is keyed by the room key, as the room is).
func c15SendJoinPseudoID(c *mon.Ctx, r *gen.Rand) {
	ver := gmsl.RoomVersionPseudoIDs
	t := ref.Traits(string(ver))
	local := serverIdentity(c15local)
	names := []string{"sender-of-requesting-server", "mapping-signature-valid", "not-banned"}
	for _, vec := range guardVectors(r, len(names), 0) {
		roomKey := gen.NewIdentity(r, "unused.example", "ed25519:1")
		pseudo := spec.SenderIDFromPseudoIDKey(roomKey.Priv)
		user := "@joiner:other.example"
		signer := serverIdentity("other.example")
		if !vec[1] {
			signer = gen.NewIdentity(r, "other.example", signer.KeyID)
		}
		mapping := gmsl.MXIDMapping{UserID: user, UserRoomKey: pseudo}
		if err := mapping.Sign("other.example", gmsl.KeyID(signer.KeyID), signer.Priv); err != nil {
			continue
		}
		content, err := json.Marshal(gmsl.MemberContent{Membership: "join", MXIDMapping: &mapping})
		if err != nil {
			continue
		}
		eb := gmsl.MustGetRoomVersion(ver).NewEventBuilderFromProtoEvent(&gmsl.ProtoEvent{SenderID: string(pseudo), RoomID: "!pseudo:origin.example", Type: "m.room.member", StateKey: strp(string(pseudo)),
			PrevEvents: []string{fakeEventID(r, t)}, AuthEvents: []string{fakeEventID(r, t)}, Depth: 5, Content: content})
		ev, err := eb.Build(baseTime, spec.ServerName(pseudo), "ed25519:1", roomKey.Priv)
		if err != nil {
			continue
		}
		origin := spec.ServerName("other.example")
		if !vec[0] {
			origin = "evil.example"
		}
		existing := gen.Pick(r, []string{"", "leave", "invite"})
		if !vec[2] {
			existing = "ban"
		}
		room, _ := spec.NewRoomID("!pseudo:origin.example")
		name := "send_join_pseudo_id:" + vecName(names, vec)
		c.Case(name, map[string]any{"guards": vecName(names, vec), "existing_membership": existing, "event": string(ev.JSON())}, func() {
			q := &c15querier{membership: existing, memberOf: pseudo}
			resp, err := gmsl.HandleSendJoin(gmsl.HandleSendJoinInput{Context: context.Background(), RoomID: *room, EventID: ev.EventID(), JoinEvent: ev.JSON(), RoomVersion: ver, RequestOrigin: origin,
				LocalServerName: spec.ServerName(c15local), KeyID: gmsl.KeyID(local.KeyID), PrivateKey: local.Priv, Verifier: c14ring, MembershipQuerier: q,
				UserIDQuerier: func(roomID spec.RoomID, senderID spec.SenderID) (*spec.UserID, error) {
					if senderID == pseudo {
						return spec.NewUserID(user, true)
					}
					return nil, errors.New("unknown sender")
				},
				StoreSenderIDFromPublicID: func(ctx context.Context, senderID spec.SenderID, userID string, id spec.RoomID) error { return nil }})
			c15verdict(c, "send_join_pseudo_id", name, allTrue(vec), err == nil, vecName(names, vec), ver)
			if err != nil {
				return
			}
			if resp.JoinEvent == nil {
				c.Failf("send_join_pseudo_id:no-event-returned", "HandleSendJoin succeeded without an event")
				return
			}
			if !localSigValid(resp.JoinEvent, t, local) {
				c.Failf("send_join_pseudo_id:local-signature-missing-or-invalid", "the join returned by HandleSendJoin carries no valid signature of the local server: %s", resp.JoinEvent.JSON())
			}
			if !sameSignedContent(resp.JoinEvent.JSON(), ev.JSON(), t) {
				c.Failf("send_join_pseudo_id:event-modified", "HandleSendJoin returned a modified event")
			}
		})
	}
}

// ---- PerformJoin ----

type scriptedJoinClient struct {
	makeJoin func() (gmsl.MakeJoinResponse, error)
	sendJoin func(ev gmsl.PDU) (gmsl.SendJoinResponse, error)
	sent     gmsl.PDU
}

func (s *scriptedJoinClient) MakeJoin(ctx context.Context, origin, srv spec.ServerName, roomID, userID string) (gmsl.MakeJoinResponse, error) {
	return s.makeJoin()
}
func (s *scriptedJoinClient) SendJoin(ctx context.Context, origin, srv spec.ServerName, event gmsl.PDU) (gmsl.SendJoinResponse, error) {
	s.sent = event
	return s.sendJoin(event)
}

type mjResp struct {
	proto gmsl.ProtoEvent
	ver   gmsl.RoomVersion
}

func (m mjResp) GetJoinEvent() gmsl.ProtoEvent     { return m.proto }
func (m mjResp) GetRoomVersion() gmsl.RoomVersion { return m.ver }

type sjResp struct {
	rawResp
	join spec.RawJSON
}

func (s sjResp) GetOrigin() spec.ServerName { return spec.ServerName(c15local) }
func (s sjResp) GetJoinEvent() spec.RawJSON { return s.join }
func (s sjResp) GetMembersOmitted() bool    { return false }
func (s sjResp) GetServersInRoom() []string { return nil }

func c15PerformJoin(c *mon.Ctx, r *gen.Rand, sc *simScenario, b *simBranch) {
	s := sc.s
	names := []string{"make-join-version-known", "create-event-present", "create-version-known", "state-signatures-valid", "join-allowed-by-returned-state"}
	for _, vec := range guardVectors(r, len(names), 0) {
		// the room: optionally made to refuse the join (invite-only) on a cloned branch
		rb := b.clone()
		rule := "public"
		if !vec[4] {
			rule = "invite"
		}
		if _, ok := s.propose(rb, "m.room.join_rules", strp(""), s.users[0], ref.O("join_rule", ref.S(rule)), false); !ok {
			continue
		}
		createVersionUnknown := !vec[2]
		if createVersionUnknown {
			if s.t.CreateCheck != 2 {
				// only room versions whose create-event auth rule ignores room_version let such a create event through
				// the auth checks; elsewhere this guard cannot be falsified on its own
				continue
			}
			// a complete, internally valid room whose create event names an unknown room version
			simCreateVersionOverride = gen.Pick(r, []string{"9000", "9000", "<empty>"})
			alt := genScenario(r.Fork("altroom"), s.ver, 2)
			simCreateVersionOverride = ""
			// three times: as it is; the resident server also lists, first in the auth chain, a badly signed create event
			// of another room whose version is known (a sanity check that stops at the first create event it sees is
			// satisfied by the decoy); the same with the decoy signed as it should be (a room the resident server is in
			// as well)
			for variant := 0; variant < 3; variant++ {
				if variant > 0 {
					c15DecoyCreate, c15DecoyCreateIntact = sc.s.create, variant == 2
				}
				c15PerformJoinOn(c, r, alt, alt.trunk.clone(), vec, names)
				c15DecoyCreate, c15DecoyCreateIntact = nil, false
			}
			continue
		}
		c15PerformJoinOn(c, r, sc, rb, vec, names)
	}
}

// c15DecoyCreate, when set, is a create event of another room put (badly signed) at the head of the auth chain.
var c15DecoyCreate gmsl.PDU
var c15DecoyCreateIntact bool

// c15PerformJoinOn runs one PerformJoin case against the room state rb.
func c15PerformJoinOn(c *mon.Ctx, r *gen.Rand, sc *simScenario, rb *simBranch, vec []bool, names []string) {
	s := sc.s
	joiner := "@joiner:other.example"
	jid := serverIdentity("other.example")
	uid := spec.NewUserIDOrPanic(joiner, true)
	{
		if !vec[2] {
			// make sure the alternative room takes joins (or not) as the vector asks
			rule := "public"
			if !vec[4] {
				rule = "invite"
			}
			if _, ok := s.propose(rb, "m.room.join_rules", strp(""), s.users[0], ref.O("join_rule", ref.S(rule)), false); !ok {
				return
			}
		}
		state := rb.list()
		auth := authClosure(s.all, state)
		probeEB := s.impl.NewEventBuilderFromProtoEvent(&gmsl.ProtoEvent{SenderID: joiner, RoomID: s.roomID, Type: "m.room.member", StateKey: strp(joiner), PrevEvents: []string{rb.tip}, Depth: rb.depth + 1, Content: []byte(`{"membership":"join"}`)})
		if err := probeEB.AddAuthEvents(s.provider(rb)); err != nil {
			return
		}
		probe, err := probeEB.Build(baseTime, "other.example", gmsl.KeyID(jid.KeyID), jid.Priv)
		if err != nil {
			return
		}
		if allowedBy(probe, state) != vec[4] {
			return
		}
		var resp sjResp
		// with a forged join-rules event, half of the time a second forgery sits right before it in the list (a
		// response check that drops failing events while iterating must not skip the neighbour)
		var decoy gmsl.PDU
		if !vec[3] && r.Chance(0.5) {
			for _, p := range state {
				if t := p.Type(); t == "m.room.topic" || t == "m.room.name" || t == "com.example.custom" || (t == "m.room.member" && !p.StateKeyEquals(s.users[0]) && !p.StateKeyEquals(joiner)) {
					decoy = p
				}
			}
		}
		for _, p := range state {
			js := p.JSON()
			if p.Type() == "m.room.create" || (decoy != nil && p.EventID() == decoy.EventID()) {
				continue // the create event is added below, the decoy next to the join rules
			}
			if !vec[3] && p.Type() == "m.room.join_rules" {
				if decoy != nil {
					resp.state = append(resp.state, corruptSig(decoy))
				}
				js = corruptSig(p)
			}
			resp.state = append(resp.state, js)
		}
		if c15DecoyCreate != nil {
			if c15DecoyCreateIntact {
				resp.auth = append(resp.auth, c15DecoyCreate.JSON())
			} else {
				resp.auth = append(resp.auth, corruptSig(c15DecoyCreate))
			}
		}
		if vec[1] {
			resp.state = append(resp.state, s.create.JSON())
			resp.auth = append(resp.auth, s.create.JSON())
		}
		for _, p := range auth {
			if p.Type() == "m.room.create" {
				continue
			}
			resp.auth = append(resp.auth, p.JSON())
		}
		mjVer := s.ver
		if !vec[0] {
			mjVer = "no.such.version"
		}
		tmpl := gmsl.ProtoEvent{SenderID: joiner, RoomID: s.roomID, Type: "m.room.member", StateKey: strp(joiner), Depth: rb.depth + 1, Content: []byte(`{"membership":"join"}`)}
		if r.Chance(0.1) {
			tmpl.Content = []byte("null") // a template without content: the joiner supplies the membership anyway
		}
		tmpl.PrevEvents = []interface{}{rb.tip}
		authIDs := []interface{}{}
		for _, a := range probe.AuthEventIDs() {
			authIDs = append(authIDs, a)
		}
		if s.t.Domainless && len(authIDs) > 0 {
			authIDs = authIDs[1:] // the builder adds the create event itself
		}
		tmpl.AuthEvents = authIDs
		if s.t.EventFormat == 1 {
			refs := func(ids []interface{}) []interface{} {
				out := []interface{}{}
				for _, id := range ids {
					out = append(out, []interface{}{id, map[string]interface{}{"sha256": "aGFzaA"}})
				}
				return out
			}
			tmpl.PrevEvents, tmpl.AuthEvents = refs([]interface{}{rb.tip}), refs(authIDs)
		}
		want := allTrue(vec)
		name := "perform_join:" + vecName(names, vec)
		c.Case(name, map[string]any{"version": s.ver, "guards": vecName(names, vec)}, func() {
			// what the resident server echoes as "event": nothing, our join with its own signature added, or something of
			// its own making in the joiner's name that must not come back as the join
			echo := r.Intn(7)
			client := &scriptedJoinClient{
				makeJoin: func() (gmsl.MakeJoinResponse, error) { return mjResp{proto: tmpl, ver: mjVer}, nil },
				sendJoin: func(ev gmsl.PDU) (gmsl.SendJoinResponse, error) {
					rs := resp
					res := serverIdentity(c15local)
					switch echo {
					case 1:
						rs.join = ev.Sign(res.Server, gmsl.KeyID(res.KeyID), res.Priv).JSON()
					case 5, 6:
						// the join under the ID it was sent with, but no longer vouched for by the joining server: its
						// signature taken off (5), or - where the ID is a member of the event - another join given that ID (6)
						jv := ref.MustParse(ev.JSON())
						if sigs := jv.Get("signatures"); sigs != nil && sigs.K == ref.Obj {
							sigs.Del(c15joinerServer(joiner))
						}
						if echo == 6 && jv.Get("event_id") != nil {
							jv.Get("content").Set("displayname", ref.S("not what the joiner sent"))
							jv.Del("hashes")
						}
						if f, err := s.impl.NewEventFromTrustedJSON(gen.Plain().Bytes(jv), false); err == nil {
							rs.join = f.Sign(res.Server, gmsl.KeyID(res.KeyID), res.Priv).JSON()
						}
					case 2, 3, 4:
						forged := gmsl.ProtoEvent{SenderID: joiner, RoomID: s.roomID, Type: "m.room.topic", StateKey: strp(joiner), PrevEvents: ev.PrevEventIDs(), AuthEvents: ev.AuthEventIDs(), Depth: ev.Depth(),
							Content: []byte(`{"membership":"join","topic":"set by the resident server"}`)}
						if echo == 3 {
							forged.Type, forged.SenderID = "m.room.member", "@somebodyelse:other.example"
						}
						if echo == 4 {
							forged.Type, forged.Content = "m.room.member", []byte(`{"membership":"join","displayname":"not what the joiner sent"}`)
						}
						if s.t.Domainless && len(ev.AuthEventIDs()) > 0 {
							forged.AuthEvents = ev.AuthEventIDs()[1:]
						}
						if f, err := s.impl.NewEventBuilderFromProtoEvent(&forged).Build(baseTime, spec.ServerName(res.Server), gmsl.KeyID(res.KeyID), res.Priv); err == nil {
							rs.join = f.JSON()
						}
					}
					return rs, nil
				},
			}
			var asked []string
			rid := s.create.RoomID()
			var out *gmsl.PerformJoinResponse
			var ferr *gmsl.FederationError
			site, msg, pan := mon.Guard(func() {
				in := gmsl.PerformJoinInput{UserID: &uid, RoomID: &rid, ServerName: spec.ServerName(c15local), PrivateKey: jid.Priv, KeyID: gmsl.KeyID(jid.KeyID),
					KeyRing: c14ring, EventProvider: mkProvider(provNothing, nil, &asked), UserIDQuerier: userIDForSender}
				if echo == 0 && r.Chance(0.5) {
					// the joining server's own annotation for the event; whether it can be attached or not, the join is the join
					in.Unsigned = map[string]interface{}{"note": "local", "score": 0.5, "big": 9007199254740993}
				}
				// the content the caller wants in its join (a profile); the map is the caller's - it tries one server after
				// the other with it - and reads afterwards as it did before
				callerContent := map[string]interface{}{"displayname": "Joiner"}
				in.Content = callerContent
				out, ferr = gmsl.PerformJoin(context.Background(), client, in)
				if len(callerContent) != 1 || callerContent["displayname"] != "Joiner" {
					c.Failf("perform_join:callers-content-map-rewritten", "PerformJoin left %v in the content map the caller handed in (the remote's template and the join's own members are not the caller's next attempt's business)", callerContent)
				}
			})
			if pan {
				c.Failf("perform_join:panic:"+site, "PerformJoin panics: %s", msg)
				return
			}
			c.Count("perform_join_calls")
			c15verdict(c, "perform_join", name, want, ferr == nil, vecName(names, vec), s.ver)
			if ferr == nil {
				if out == nil || out.JoinEvent == nil {
					c.Failf("perform_join:no-event-returned", "PerformJoin succeeded without a join event")
					return
				}
				m, _ := out.JoinEvent.Membership()
				if m != "join" || !out.JoinEvent.StateKeyEquals(joiner) || out.JoinEvent.Type() != "m.room.member" || string(out.JoinEvent.SenderID()) != joiner {
					c.Failf("perform_join:not-a-join", "PerformJoin returned as the join (remote echo variant %d): %s", echo, out.JoinEvent.JSON())
				}
				if client.sent != nil && out.JoinEvent.EventID() != client.sent.EventID() {
					c.Failf("perform_join:not-the-join-that-was-sent", "PerformJoin returned %s, the join it sent is %s (remote echo variant %d)", out.JoinEvent.EventID(), client.sent.EventID(), echo)
				}
				if !localSigValid(out.JoinEvent, s.t, jid) {
					c.Failf("perform_join:join-not-signed", "the join event PerformJoin returns is not validly signed by the joining server")
				}
			}
		})
	}
}

var _ = json.Marshal

// failingVerifier is a key ring that cannot answer (its database is down).
type failingVerifier struct{ n *int }

func (f failingVerifier) VerifyJSONs(ctx context.Context, requests []gmsl.VerifyJSONRequest) ([]gmsl.VerifyJSONResult, error) {
	*f.n++
	return nil, errors.New("scripted fault")
}

// silentVerifier answers with no verdicts and no error.
type silentVerifier struct{}

func (silentVerifier) VerifyJSONs(ctx context.Context, requests []gmsl.VerifyJSONRequest) ([]gmsl.VerifyJSONResult, error) {
	return nil, nil
}
