package main

import (
	"context"
	"encoding/base64"
	"errors"
	"fmt"
	"strings"
	"time"
	"unicode/utf8"

	gmsl "github.com/matrix-org/gomatrixserverlib"
	"github.com/matrix-org/gomatrixserverlib/spec"

	"verif/gen"
	"verif/mon"
	"verif/ref"
)

func init() {
	register(&propDef{
		ID:    "C17",
		Level: "exploration",
		Rule: "four sub-workloads: (a) identifier strings - grammar-generated valid user IDs / room IDs / server names, every single-character edit of a sample of them, and arbitrary byte strings - judged by reference grammars; (b) base64 values of every length 0-70 in both unpadded alphabets; (c) events with type / state key / sender / room ID at 254-256 units in bytes and in code points (1-4 byte runes) and JSON of 65535-65537 bytes, on receipt and on build, for every registered version; (d) the complete room-version trait table (exhaustive: every cell of 16 versions x 16 traits, observed through the public interface and behavioural probes); " +
			"distinct = distinct input string / (version, limit case) / table cell; non-trivial = identifiers other than the unedited seeds, base64 of length>0, limit cases within 2 units of a limit, all table cells",
		Assumptions: []string{"reference identifier grammars (harness/ref/ident.go) and room-version table (harness/ref/versions.go)", "encoding/base64", "abstains on '+' in localparts, stand-alone length limits of room IDs / server names, unusual port spellings, v12 room-ID length, pseudo-ID senders"},
		Run:         runC17,
	})
}

var dnsAlphabet = "abcxyzABCXYZ0189-."
var localAlphabet = "abcz0189_-=./"

func genServerName(r *gen.Rand) string {
	var host string
	switch r.Intn(6) {
	case 0:
		host = fmt.Sprintf("%d.%d.%d.%d", r.Intn(256), r.Intn(256), r.Intn(256), r.Intn(256))
	case 1:
		host = gen.Pick(r, []string{"::1", "2001:db8::1", "fe80::1:2:3", "::", "1:2:3:4:5:6:7:8", "::ffff:1.2.3.4", "::ffff:10.0.0.1", "64:ff9b::1.2.3.4"})
		if !r.Chance(0.2) {
			host = "[" + host + "]" // an IPv6 literal is only a host in brackets
		}
	default:
		n := r.Range(1, 20)
		b := make([]byte, n)
		for i := range b {
			b[i] = dnsAlphabet[r.Intn(len(dnsAlphabet))]
		}
		host = string(b)
	}
	if r.Chance(0.4) {
		host += fmt.Sprintf(":%d", gen.Pick(r, []int{0, 1, 80, 443, 8448, 65535, 10000}))
	}
	return host
}

func genLocal(r *gen.Rand, max int) string {
	n := r.Range(1, max)
	b := make([]byte, n)
	for i := range b {
		b[i] = localAlphabet[r.Intn(len(localAlphabet))]
	}
	return string(b)
}

var editBytes = []byte{0, ' ', '!', '@', ':', '.', '[', ']', '/', '+', 'A', 'a', '0', '-', '_', '%', 0x7f, 0xc3, 0xa9, '#', '$'}

func singleEdits(r *gen.Rand, s string, n int) []string {
	out := []string{}
	for k := 0; k < n; k++ {
		b := []byte(s)
		i := 0
		if len(b) > 0 {
			i = r.Intn(len(b))
		}
		switch r.Intn(3) {
		case 0:
			if len(b) > 0 {
				b = append(b[:i], b[i+1:]...)
			}
		case 1:
			b = append(b[:i], append([]byte{gen.Pick(r, editBytes)}, b[i:]...)...)
		default:
			if len(b) > 0 {
				b[i] = gen.Pick(r, editBytes)
			}
		}
		out = append(out, string(b))
	}
	return out
}

func c17Identifiers(c *mon.Ctx) {
	r := c.Rand("idents")
	checkServer := func(s string) {
		c.Case("servername", map[string]any{"input": s, "hex": fmt.Sprintf("%x", s)}, func() {
			want, _, wport := ref.ServerName(s)
			host, port, ok := spec.ParseAndValidateServerName(spec.ServerName(s))
			c.Count("servername_checks")
			if want == ref.Abstain {
				c.Count("abstained")
				return
			}
			c.Count(fmt.Sprintf("servername_%v", want == ref.Valid))
			if ok != (want == ref.Valid) {
				sig := "ident:servername:accepts-invalid"
				if !ok {
					sig = "ident:servername:rejects-valid"
				} else if strings.HasPrefix(s, "[") && !strings.Contains(s, "::") && strings.Count(s, ".") == 3 {
					sig = "ident:servername:accepts-bracketed-ipv4"
				}
				c.Failf(sig, "ParseAndValidateServerName(%q) valid=%v, grammar says %v", s, ok, want == ref.Valid)
				return
			}
			if ok {
				re := host
				if port >= 0 {
					re = fmt.Sprintf("%s:%d", host, port)
				}
				if re != s || port != wport {
					c.Failf("ident:servername:parts", "ParseAndValidateServerName(%q) = host %q port %d, which do not re-concatenate to the input", s, host, port)
				}
			}
		})
	}
	checkUser := func(s string) {
		for _, hist := range []bool{false, true} {
			c.Case("userid", map[string]any{"input": s, "historical": hist, "hex": fmt.Sprintf("%x", s)}, func() {
				want, _, _ := ref.UserID(s, hist)
				u, err := spec.NewUserID(s, hist)
				c.Count("userid_checks")
				if want == ref.Abstain || (!hist && strings.Contains(s, "+")) || !utf8.ValidString(s) && hist {
					c.Count("abstained")
					return
				}
				c.Count(fmt.Sprintf("userid_%v", want == ref.Valid))
				if (err == nil) != (want == ref.Valid) {
					sig := "ident:userid:accepts-invalid"
					if err != nil {
						sig = "ident:userid:rejects-valid"
					} else if strings.HasPrefix(s, "@:") {
						sig = "ident:userid:accepts-empty-localpart"
					}
					c.Failf(sig, "NewUserID(%q, historical=%v) err=%v, grammar says valid=%v", s, hist, err, want == ref.Valid)
					return
				}
				if err == nil && "@"+u.Local()+":"+string(u.Domain()) != s || err == nil && u.String() != s {
					c.Failf("ident:userid:parts", "NewUserID(%q) parts %q %q do not re-concatenate", s, u.Local(), u.Domain())
				}
			})
		}
	}
	checkRoom := func(s string) {
		c.Case("roomid", map[string]any{"input": s, "hex": fmt.Sprintf("%x", s)}, func() {
			want, _, _, dl := ref.RoomID(s)
			rm, err := spec.NewRoomID(s)
			c.Count("roomid_checks")
			if want == ref.Abstain {
				c.Count("abstained")
				return
			}
			c.Count(fmt.Sprintf("roomid_%v", want == ref.Valid))
			if (err == nil) != (want == ref.Valid) {
				sig := "ident:roomid:accepts-invalid"
				if err != nil {
					sig = "ident:roomid:rejects-valid"
				}
				c.Failf(sig, "NewRoomID(%q) err=%v, grammar says valid=%v", s, err, want == ref.Valid)
				return
			}
			if err == nil {
				re := "!" + rm.OpaqueID()
				if !dl {
					re += ":" + string(rm.Domain())
				}
				if re != s || rm.String() != s {
					c.Failf("ident:roomid:parts", "NewRoomID(%q) parts do not re-concatenate (%q)", s, re)
				}
			}
		})
	}
	all := func(s string, seed bool) {
		if !seed {
			c.Nontrivial("id|" + s)
			if c.WantSample() && len(s) > 6 && utf8.ValidString(s) {
				sv, _, _ := ref.ServerName(s)
				uv, _, _ := ref.UserID(s, false)
				rv, _, _, _ := ref.RoomID(s)
				c.Sample(map[string]any{"identifier": s, "grammar_says": map[string]bool{"server_name": sv == ref.Valid, "user_id": uv == ref.Valid, "room_id": rv == ref.Valid}})
			}
		}
		checkServer(s)
		checkUser(s)
		checkRoom(s)
	}
	nSeeds := c.Scale(600, 400000)
	for k := 0; k < nSeeds; k++ {
		var s string
		switch k % 4 {
		case 0:
			s = genServerName(r)
		case 1:
			s = "@" + genLocal(r, 12) + ":" + genServerName(r)
		case 2:
			s = "!" + genLocal(r, 18) + ":" + genServerName(r)
		default:
			s = "!" + base64.RawURLEncoding.EncodeToString(r.Bytes(32))
		}
		all(s, true)
		if k%3 == 0 {
			for _, e := range singleEdits(r, s, 12) {
				all(e, false)
			}
		}
	}
	// hand-picked boundary shapes
	for _, s := range []string{"", "@", "@:", "@a:", "@:b", "@:bc", "@:example.org", "@:example.org:8448", "@:[::1]", "@:1.2.3.4", "!:bc", "!:example.org", "@a:b", "!a:b", "!:b", "!a:", "!", "a", ":", ":80", "a:", "a:80", "a:65535", "a:65536", "a:99999", "a:-1", "a:+1", "a: 80",
		"[::1]", "[::1]:80", "[::1]:", "[::1", "::1", "[]", "[", "[:", "[:8448", "]", "[]:80", "[[", "@a:[", "!a:[", "@a:[:80", "!a:]", "[1.2.3.4]", "[1.2.3.4]:80", "[::1%eth0]", "[g::1]", "1.2.3.4", "1.2.3.4:8448", "256.1.1.1", "a..b", "-a", "a_b", "a b", "é.example",
		"@a:[::1]:80", "@a:b:c", "@a:b:80", "@A:b", "@a+b:c", "@a b:c", "@é:c", "!a b:c", "!é:c", "!a:b:c:80", "@" + strings.Repeat("a", 252) + ":b", "@" + strings.Repeat("a", 253) + ":b",
		"::ffff:1.2.3.4", "::ffff:1.2.3.4:8448", "@a:::ffff:1.2.3.4", "!a:::ffff:1.2.3.4", "1::", "2001:db8::1", "2001:db8::1:8448",
		// other spellings of an address with an IPv4 tail, without brackets (tenth seeding round, C13-T: only the "::" prefix was looked for)
		"0:0:0:0:0:ffff:1.2.3.4", "0::ffff:1.2.3.4", "0:0:0:0:0:ffff:1.2.3.4:8448", "0::ffff:1.2.3.4:8448", "64:ff9b::1.2.3.4", "1:2:3:4:5:6:1.2.3.4", "@a:0::ffff:1.2.3.4", "!a:0:0:0:0:0:ffff:1.2.3.4",
		"!" + strings.Repeat("a", 251) + ":bc", "!" + strings.Repeat("a", 252) + ":bc", "!" + strings.Repeat("a", 300) + ":bc", "!a:" + strings.Repeat("b", 251), "!a:" + strings.Repeat("b", 252), "!" + strings.Repeat("é", 126) + ":b", "!" + strings.Repeat("é", 127) + ":b",
		"!" + strings.Repeat("A", 42), "!" + strings.Repeat("A", 43), "!" + strings.Repeat("A", 44), "!" + strings.Repeat("A", 42) + "+", "!" + strings.Repeat("A", 42) + "=",
		// 43 characters of the alphabet with something a lenient base64 decoder skips or tolerates in between / behind
		"!" + strings.Repeat("A", 43) + "\n", "!" + strings.Repeat("A", 43) + "\r\n", "!" + strings.Repeat("A", 20) + "\n" + strings.Repeat("A", 23), "!\r" + strings.Repeat("A", 43),
		"!" + strings.Repeat("A", 43) + "=", "!" + strings.Repeat("A", 43) + " ", "!" + strings.Repeat("A", 21) + "\r\n" + strings.Repeat("A", 22), "!" + strings.Repeat("A", 43) + "\x00",
		// 43 characters that are no canonical encoding of 32 bytes (the last one leaves bits over), and the other alphabet
		"!" + strings.Repeat("A", 42) + "B", "!" + strings.Repeat("A", 42) + "/", "!" + strings.Repeat("_", 43), "!" + strings.Repeat("-", 43)} {
		if c.Shard == 0 {
			all(s, false)
		}
	}
	nRand := c.Scale(1500, 1000000)
	for k := 0; k < nRand; k++ {
		b := r.Bytes(r.Range(0, 24))
		if len(b) > 0 && r.Chance(0.5) {
			b[0] = "@!$["[r.Intn(4)]
		}
		all(string(b), false)
	}
	c.Floor("servername_true", 50)
	c.Floor("servername_false", 50)
	c.Floor("userid_true", 50)
	c.Floor("userid_false", 50)
	c.Floor("roomid_true", 50)
	c.Floor("roomid_false", 50)
}

func c17Base64(c *mon.Ctx) {
	r := c.Rand("b64")
	reps := c.Scale(8, 4000)
	// one destination decoded into again and again (a row scanner's, a re-used struct's): what it holds afterwards is
	// what the last text says, also when that is the empty string
	var reused spec.Base64Bytes
	for n := 0; n <= 70; n++ {
		for k := 0; k < reps; k++ {
			raw := r.Bytes(n)
			if k == 0 {
				for i := range raw {
					raw[i] = 0xfb + byte(i%5) // forces '+', '/', '-', '_' characters
				}
			}
			c.Case("base64", map[string]any{"len": n, "hex": fmt.Sprintf("%x", raw)}, func() {
				if n > 0 {
					c.Nontrivial(fmt.Sprintf("b64|%x", raw))
				}
				for name, enc := range map[string]*base64.Encoding{"std": base64.RawStdEncoding, "url": base64.RawURLEncoding} {
					s := enc.EncodeToString(raw)
					var b spec.Base64Bytes
					c.Count("base64_decodes")
					if err := b.Decode(s); err != nil {
						c.Failf("base64:decode-error:"+name, "Base64Bytes.Decode(%q) (%s unpadded) fails: %v", s, name, err)
						continue
					}
					if string(b) != string(raw) {
						c.Failf("base64:decode-wrong:"+name, "Base64Bytes.Decode(%q) = %x, want %x", s, []byte(b), raw)
						continue
					}
					var b2 spec.Base64Bytes
					if err := b2.Decode(b.Encode()); err != nil || string(b2) != string(raw) {
						c.Failf("base64:reencode", "re-encoding %x gives %q which decodes to %x (%v)", raw, b.Encode(), []byte(b2), err)
					}
					var b3 spec.Base64Bytes
					if err := b3.UnmarshalJSON([]byte(`"` + s + `"`)); err != nil || string(b3) != string(raw) {
						c.Failf("base64:json", "UnmarshalJSON(%q) = %x, %v", s, []byte(b3), err)
					}
					if mj, err := b.MarshalJSON(); err != nil || string(mj) != `"`+base64.RawStdEncoding.EncodeToString(raw)+`"` {
						c.Failf("base64:json", "MarshalJSON of %x = %s, %v", raw, mj, err)
					}
				}
				{
					s := base64.RawStdEncoding.EncodeToString(raw)
					var err error
					how := gen.Pick(r, []string{"Decode", "Scan", "UnmarshalJSON", "Scan-bytes", "Scan-bytes", "Scan-rawjson"})
					into := func(text string) {
						switch how {
						case "Decode":
							err = reused.Decode(text)
						case "Scan":
							err = reused.Scan(text)
						case "Scan-bytes":
							// a database driver's buffer: copied as it is, and the driver reuses it afterwards
							dec, _ := base64.RawStdEncoding.DecodeString(text)
							src := append([]byte{}, dec...)
							err = reused.Scan(src)
							for i := range src {
								src[i] ^= 0xFF
							}
						case "Scan-rawjson":
							err = reused.Scan(spec.RawJSON(`"` + text + `"`))
						default:
							err = reused.UnmarshalJSON([]byte(`"` + text + `"`))
						}
					}
					into(s)
					c.Count("base64_decodes_into_a_reused_value")
					if err != nil || string(reused) != string(raw) {
						c.Failf("base64:reused-destination", "%s(%q) into a value that held something before: %x, %v; want %x", how, s, []byte(reused), err, raw)
					}
					// what was read out of the variable earlier (a rows loop appending each value to a list) stays what it was
					c.Retain("base64", "a value read from a Base64Bytes variable that was decoded into again afterwards", []byte(reused))
					if len(raw) > 0 {
						// ... also when the next value is no longer than this one (it would fit into the same storage)
						other := make([]byte, len(raw)-r.Intn(2)*r.Intn(len(raw)))
						for i := range other {
							other[i] = ^raw[i]
						}
						into(base64.RawStdEncoding.EncodeToString(other))
						if err != nil || string(reused) != string(other) {
							c.Failf("base64:reused-destination", "%s into a value that held a longer or equally long value before: %x, %v; want %x", how, []byte(reused), err, other)
						}
						c.CheckRetained("base64")
					}
					if r.Chance(0.4) {
						into("")
						if err != nil || len(reused) != 0 {
							c.Failf("base64:reused-destination:empty-text", "%s(\"\") into a value that held %x leaves %x (%v)", how, raw, []byte(reused), err)
						}
					}
				}
				// soundness: whatever decodes must decode to what a standard decoder gives
				s := string(r.Bytes(r.Range(0, 12)))
				var b spec.Base64Bytes
				if err := b.Decode(s); err == nil {
					w1, e1 := base64.RawStdEncoding.DecodeString(s)
					w2, e2 := base64.RawURLEncoding.DecodeString(s)
					if !(e1 == nil && string(w1) == string(b)) && !(e2 == nil && string(w2) == string(b)) {
						c.Failf("base64:decodes-garbage", "Decode(%q) = %x but neither unpadded alphabet decodes it so", s, []byte(b))
					}
				}
			})
		}
	}
	c.Floor("base64_decodes", 500)
}

// padRunes returns a string of exactly n code points using runes of the given width.
func padRunes(n int, width int) string {
	r := map[int]string{1: "a", 2: "é", 3: "€", 4: "😀"}[width]
	return strings.Repeat(r, n)
}

type limitCase struct {
	field  string
	runes  int
	width  int
	expect string // ok | persistable | refused
}

func c17Limits(c *mon.Ctx) {
	id := gen.NewIdentity(c.RandShared("id"), "a.example", "ed25519:1")
	versions := sortedVersions()
	cases := []limitCase{}
	for _, field := range []string{"type", "state_key", "sender", "room_id"} {
		for _, width := range []int{1, 2, 3, 4} {
			for _, runes := range []int{200, 254, 255, 256, 300} {
				lc := limitCase{field: field, runes: runes, width: width}
				bytes := runes * width
				switch {
				case runes > 255:
					lc.expect = "refused"
				case bytes > 255:
					lc.expect = "persistable"
				default:
					lc.expect = "ok"
				}
				if width > 1 && runes == 200 && bytes <= 255 {
					continue
				}
				cases = append(cases, lc)
			}
			// 255 bytes exactly / 256 bytes with multi-byte runes
			if width > 1 {
				cases = append(cases, limitCase{field, 255 / width, width, "ok"})
				cases = append(cases, limitCase{field, 255/width + 1, width, "persistable"})
			}
		}
	}
	n := 0
	for _, ver := range versions {
		t := ref.Traits(string(ver))
		if t == nil {
			continue
		}
		impl := gmsl.MustGetRoomVersion(ver)
		for _, lc := range cases {
			n++
			if !c.Mine(n) {
				continue
			}
			if lc.field == "room_id" && t.Domainless && lc.runes <= 255 {
				continue // what else a domainless room ID has to look like is not this check's business; its length is
			}
			if lc.field == "sender" && ver == gmsl.RoomVersionPseudoIDs {
				continue
			}
			ps := protoSpec{Type: "m.room.message", Sender: "@alice:a.example", RoomID: "!room:a.example", Content: []byte(`{"body":"x"}`), Depth: 3, Prev: []string{fakeEventID(c.RandShared("x"), t)}}
			if t.Domainless {
				ps.RoomID = "!" + strings.Repeat("A", 43)
			}
			// fixed parts count towards the length
			switch lc.field {
			case "type":
				ps.Type = padRunes(lc.runes, lc.width)
			case "state_key":
				ps.StateKey = strp(padRunes(lc.runes, lc.width))
			case "sender":
				fixed := utf8.RuneCountInString("@:a.example")
				if lc.width == 1 {
					ps.Sender = "@" + padRunes(lc.runes-fixed, 1) + ":a.example"
				} else {
					// runes: fixed ASCII + padded multi-byte
					ps.Sender = "@" + padRunes(lc.runes-fixed, lc.width) + ":a.example"
				}
			case "room_id":
				fixed := utf8.RuneCountInString("!:a.example")
				ps.RoomID = "!" + padRunes(lc.runes-fixed, lc.width) + ":a.example"
				if t.Domainless {
					ps.RoomID = "!" + padRunes(lc.runes-1, lc.width)
				}
			}
			// a second field that exceeds only the byte limit must not turn the refusal into "persistable"
			also := ""
			if lc.runes > 255 && lc.field != "type" && n%3 == 0 {
				ps.Type = padRunes(200, 2) // 200 code points, 400 bytes
				also = "+type-over-255-bytes"
			}
			if lc.runes > 255 && lc.field != "room_id" && n%3 == 1 && !t.Domainless {
				ps.RoomID = "!" + padRunes(200, 2) + ":a.example" // 211 code points, 411 bytes
				also = "+room-id-over-255-bytes"
			}
			if lc.runes > 255 && lc.field != "sender" && n%3 == 2 && ver != gmsl.RoomVersionPseudoIDs {
				ps.Sender = "@" + padRunes(200, 2) + ":a.example" // 211 code points, 411 bytes
				also = "+sender-over-255-bytes"
			}
			val := map[string]string{"type": ps.Type, "sender": ps.Sender, "room_id": ps.RoomID}[lc.field]
			if lc.field == "state_key" {
				val = *ps.StateKey
			}
			expect := "ok"
			switch {
			case utf8.RuneCountInString(val) > 255:
				expect = "refused"
			case len(val) > 255:
				expect = "persistable"
			}
			name := fmt.Sprintf("limit:%s:%s:%dx%d%s", ver, lc.field, utf8.RuneCountInString(val), lc.width, also)
			c.Case(name, map[string]any{"version": ver, "field": lc.field, "code_points": utf8.RuneCountInString(val), "bytes": len(val), "expect": expect}, func() {
				if d := utf8.RuneCountInString(val) - 255; d >= -2 && d <= 2 || len(val)-255 >= -2 && len(val)-255 <= 2 {
					c.Nontrivial(name)
				}
				classify := func(ev gmsl.PDU, err error) string {
					if err == nil {
						return "ok"
					}
					var ve gmsl.EventValidationError
					if errors.As(err, &ve) && ve.Persistable {
						// "reported as too large but persistable"; whether the event object comes
						// with the report is not part of the statement
						return "persistable"
					}
					return "refused"
				}
				// on build
				ev, err := buildEvent(ver, ps, id, baseTime)
				got := classify(ev, err)
				c.Count("limit_build_" + expect)
				if got != expect {
					c.Failf(fmt.Sprintf("limits:build:%s:%s-reported-%s", lc.field, expect, got), "Build(v%s) with %s of %d code points / %d bytes: %s (err %v), want %s", ver, lc.field, utf8.RuneCountInString(val), len(val), got, err, expect)
				}
				// on receipt: a raw event with the same field (signature/hash need not be valid for the size rules)
				base := protoSpec{Type: "m.room.message", Sender: "@alice:a.example", RoomID: ps.RoomID, Content: []byte(`{"body":"x"}`), Depth: 3, Prev: ps.Prev}
				if lc.field == "room_id" || also == "+room-id-over-255-bytes" {
					base.RoomID = "!room:a.example"
				}
				bev, err := buildEvent(ver, base, id, baseTime)
				if err != nil {
					c.Failf("build:refuses-valid-proto", "%v", err)
					return
				}
				rv := ref.MustParse(bev.JSON())
				rv.Set(lc.field, ref.S(val))
				if also == "+type-over-255-bytes" {
					rv.Set("type", ref.S(ps.Type))
				}
				if also == "+room-id-over-255-bytes" {
					rv.Set("room_id", ref.S(ps.RoomID))
				}
				if also == "+sender-over-255-bytes" {
					rv.Set("sender", ref.S(ps.Sender))
				}
				uev, err := impl.NewEventFromUntrustedJSON(gen.Plain().Bytes(rv))
				got = classify(uev, err)
				c.Count("limit_receipt_" + expect)
				if got != expect {
					c.Failf(fmt.Sprintf("limits:receipt:%s:%s-reported-%s", lc.field, expect, got), "NewEventFromUntrustedJSON(v%s) with %s of %d code points / %d bytes: %s (err %v), want %s", ver, lc.field, utf8.RuneCountInString(val), len(val), got, err, expect)
				}
				// EventJSONs.UntrustedEvents keeps exactly ok + persistable events
				keptEvs := gmsl.EventJSONs{gen.Plain().Bytes(rv)}.UntrustedEvents(ver)
				kept := len(keptEvs)
				for _, k := range keptEvs {
					if k == nil {
						c.Failf("limits:untrusted-events:nil-event", "EventJSONs.UntrustedEvents(v%s) returned a nil event for a %s case (%s %d code points / %d bytes)", ver, expect, lc.field, utf8.RuneCountInString(val), len(val))
						return
					}
				}
				if expect == "refused" && kept != 0 || expect == "ok" && kept != 1 || (expect == "persistable" && kept != 1 && uev != nil) {
					c.Failf(fmt.Sprintf("limits:untrusted-events:%s:%s", lc.field, expect), "EventJSONs.UntrustedEvents(v%s) kept %d events for a %s case (%s %d code points / %d bytes)", ver, kept, expect, lc.field, utf8.RuneCountInString(val), len(val))
				}
			})
		}
		// a create event of a version whose room IDs derive from the create event, carrying a room_id member all the
		// same: too long, or no room ID at all, it is refused like on every other event
		if t.Domainless {
			n++
			if c.Mine(n) {
				if create, err := buildEvent(ver, protoSpec{Type: "m.room.create", StateKey: strp(""), Sender: "@alice:a.example", Content: []byte(`{"room_version":"` + string(ver) + `"}`), Depth: 1}, id, baseTime); err == nil {
					for label, rid := range map[string]string{
						"256-code-points":         "!" + strings.Repeat("a", 245) + ":a.example",
						"1013-code-points":        "!" + strings.Repeat("a", 1001) + ":a.example",
						"313-code-points-wide":    "!" + strings.Repeat("é", 301) + ":a.example",
						"no-sigil-300-characters": strings.Repeat("x", 300),
					} {
						rv := ref.MustParse(create.JSON())
						rv.Set("room_id", ref.S(rid))
						setContentHash(rv, t)
						text := gen.Plain().Bytes(rv)
						c.Case(fmt.Sprintf("limit:%s:create-event-room_id-member:%s", ver, label), map[string]any{"version": ver, "room_id_code_points": utf8.RuneCountInString(rid)}, func() {
							c.Nontrivial(fmt.Sprintf("create-room-id|%s|%s", ver, label))
							uev, err := impl.NewEventFromUntrustedJSON(text)
							c.Count("limit_receipt_refused")
							if err == nil && uev != nil {
								c.Failf("limits:receipt:room_id:refused-reported-ok:create-event", "NewEventFromUntrustedJSON(v%s) accepts a create event with a room_id member of %d code points / %d bytes (%s)", ver, utf8.RuneCountInString(rid), len(rid), label)
							}
						})
					}
				}
			}
		}
		// JSON size: the limit is in bytes, whatever the width of the characters that make up the bulk
		for _, size := range []int{65535, 65536, 65537, 70000} {
			for _, width := range []int{1, 3} {
				n++
				if !c.Mine(n) {
					continue
				}
				name := fmt.Sprintf("limit:%s:json:%d:width%d", ver, size, width)
				c.Case(name, map[string]any{"version": ver, "json_bytes": size, "bulk_character_bytes": width}, func() {
					c.Nontrivial(name)
					expect := "ok"
					if size > 65536 {
						expect = "refused"
					}
					body := func(bytes int) string {
						if width == 1 {
							return strings.Repeat("p", bytes)
						}
						wide := bytes/width - 10
						return strings.Repeat("€", wide) + strings.Repeat("p", bytes-wide*width)
					}
					mk := func(bytes int) protoSpec {
						p := protoSpec{Type: "m.room.message", Sender: "@alice:a.example", RoomID: "!room:a.example", Depth: 3,
							Content: []byte(`{"body":"` + body(bytes) + `"}`), Prev: []string{fakeEventID(c.RandShared("y"), t)}}
						if t.Domainless {
							p.RoomID = "!" + strings.Repeat("A", 43)
						}
						return p
					}
					probe, err := buildEvent(ver, mk(1000), id, baseTime)
					if err != nil {
						c.Failf("build:refuses-valid-proto", "%v", err)
						return
					}
					pad := 1000 + size - len(probe.JSON())
					ev, err := buildEvent(ver, mk(pad), id, baseTime)
					got := "ok"
					if err != nil {
						got = "refused"
						var ve gmsl.EventValidationError
						if errors.As(err, &ve) && ve.Persistable {
							got = "persistable"
						}
					} else if len(ev.JSON()) != size {
						c.Note("size probe produced %d bytes instead of %d (v%s)", len(ev.JSON()), size, ver)
						return
					}
					c.Count("limit_build_json_" + expect)
					if got != expect {
						c.Failf("limits:build:json:"+expect+"-reported-"+got, "Build(v%s) of an event of %d bytes (%d-byte characters): %s (%v), want %s", ver, size, width, got, err, expect)
					}
					// receipt: an event of exactly that many bytes whose content hash is right (so it is not replaced by
					// its small redacted form): grow the body of an accepted event and recompute the hash
					rv := ref.MustParse(probe.JSON())
					rpad := 1000 + size - len(ref.Canon(rehashAndSign(rv, t)))
					rv.Get("content").Set("body", ref.S(body(rpad)))
					text := ref.Canon(rehashAndSign(rv, t))
					if len(text) != size {
						panic("harness: size arithmetic")
					}
					uev, err := impl.NewEventFromUntrustedJSON(text)
					got = "ok"
					if err != nil {
						got = "refused"
						var ve gmsl.EventValidationError
						if errors.As(err, &ve) && ve.Persistable && uev != nil {
							got = "persistable"
						}
					} else if uev.Redacted() {
						panic("harness: rehashed event came back redacted")
					}
					want := "ok"
					if len(text) > 65536 {
						want = "refused"
					}
					c.Count("limit_receipt_json_" + want)
					if got != want {
						c.Failf("limits:receipt:json:"+want+"-reported-"+got, "NewEventFromUntrustedJSON(v%s) of an event of %d bytes (%d-byte characters): %s (%v), want %s", ver, len(text), width, got, err, want)
					}
					// the same bytes with a content hash that does not match: what arrives is as large as before, although
					// the event the parser would keep (the redacted form) is small
					bad := ref.MustParse(text)
					bad.Get("hashes").Set("sha256", ref.S("AAAAAAAAAAAAAAAAAAAAAAAAAAAAAAAAAAAAAAAAAAA"))
					badText := ref.Canon(bad)
					if len(badText) == len(text) {
						_, berr := impl.NewEventFromUntrustedJSON(badText)
						c.Count("limit_receipt_json_hash_failing_" + want)
						if want == "refused" && berr == nil {
							c.Failf("limits:receipt:json:oversize-accepted-when-hash-fails", "NewEventFromUntrustedJSON(v%s) accepts an event of %d bytes because its content hash does not match (the size is checked on the redacted copy)", ver, len(badText))
						}
						if want == "ok" && berr != nil {
							c.Failf("limits:receipt:json:ok-reported-refused", "an event of %d bytes with a failing content hash is refused (v%s): %v", len(badText), ver, berr)
						}
					}
					// the same number of bytes with the bulk in "unsigned" (or another member the parser drops on receipt): the
					// event's JSON, as it arrives, is as large as before
					{
						sv := ref.MustParse(probe.JSON())
						member := gen.Pick(c.Rand("bulk-member"), []string{"unsigned", "unsigned", "age_ts", "destinations"})
						bulk := func(n int) *ref.Value {
							if member == "unsigned" {
								return ref.O("x", ref.S(body(n)))
							}
							return ref.S(body(n))
						}
						sv.Set(member, bulk(100))
						spad := 100 + size - len(ref.Canon(rehashAndSign(sv, t)))
						if spad > 0 {
							sv.Set(member, bulk(spad))
							stext := ref.Canon(rehashAndSign(sv, t))
							if len(stext) == size {
								sev, serr := impl.NewEventFromUntrustedJSON(stext)
								c.Count("limit_receipt_json_bulk_in_dropped_member_" + want)
								if want == "refused" && serr == nil {
									c.Failf("limits:receipt:json:oversize-accepted-when-bulk-is-in-"+member, "NewEventFromUntrustedJSON(v%s) accepts an event of %d bytes whose bulk is in %q (the size is checked after that member has been dropped)", ver, len(stext), member)
								}
								if want == "ok" && (serr != nil || sev == nil) {
									c.Failf("limits:receipt:json:ok-reported-refused", "an event of %d bytes with its bulk in %q is refused (v%s): %v", len(stext), member, ver, serr)
								}
							}
						}
					}
					if expect == "ok" && ev != nil {
						back, err := impl.NewEventFromUntrustedJSON(ev.JSON())
						c.Count("limit_receipt_json_ok")
						if err != nil || back == nil {
							c.Failf("limits:receipt:json:ok-reported-refused", "an event of %d bytes built by the library is refused on receipt (v%s): %v", size, ver, err)
						}
					}
				})
			}
		}
	}
	c.Floor("limit_build_ok", 20)
	c.Floor("limit_build_persistable", 20)
	c.Floor("limit_build_refused", 20)
	c.Floor("limit_receipt_refused", 20)
}

func c17Table(c *mon.Ctx) {
	if c.Shard != 0 {
		return
	}
	// the listing functions first (a history: whatever they do to the registry shows in everything below)
	c.Case("table:registry-listings", nil, func() {
		for round := 0; round < 2; round++ {
			stable := gmsl.StableRoomVersions()
			all := gmsl.RoomVersions()
			c.Count("registry_listings")
			for _, t := range ref.Versions {
				v := gmsl.RoomVersion(t.Version)
				_, inStable := stable[v]
				if inStable != t.Stable {
					c.Failf("table:"+t.Version+":stable-listing", "StableRoomVersions() lists %s: %v, the specification says stable = %v", t.Version, inStable, t.Stable)
				}
				if gmsl.StableRoomVersion(v) != t.Stable {
					c.Failf("table:"+t.Version+":stable-listing", "StableRoomVersion(%s) = %v, want %v", t.Version, !t.Stable, t.Stable)
				}
				_, inAll := all[v]
				_, err := gmsl.GetRoomVersion(v)
				if !inAll || !gmsl.KnownRoomVersion(v) || err != nil {
					c.Failf("table:"+t.Version+":not-registered", "room version %s is not reported by RoomVersions / KnownRoomVersion / GetRoomVersion (%v %v %v) after the listing functions were called (round %d)", t.Version, inAll, gmsl.KnownRoomVersion(v), err, round)
				}
			}
			for v := range stable {
				if ref.Traits(string(v)) == nil {
					c.Failf("table:unknown-version-listed", "StableRoomVersions() lists %q, which the specification table does not have", v)
				}
			}
			// the caller's copy is the caller's: emptying it must not reach the registry
			for v := range stable {
				delete(stable, v)
			}
		}
	})
	registered := gmsl.RoomVersions()
	cell := func(ver, trait string, got, want any) {
		name := "table:" + ver + ":" + trait
		c.Case(name, map[string]any{"version": ver, "trait": trait, "want": fmt.Sprint(want)}, func() {
			c.Nontrivial(name)
			c.Count("table_cells")
			if fmt.Sprint(got) != fmt.Sprint(want) {
				c.Failf("table:"+ver+":"+trait, "room version %s reports %s = %v, the specification assigns %v", ver, trait, got, want)
			}
		})
	}
	for _, t := range ref.Versions {
		impl, ok := registered[gmsl.RoomVersion(t.Version)]
		if !ok {
			c.Case("table:"+t.Version+":registered", nil, func() {
				c.Failf("table:"+t.Version+":not-registered", "room version %s is not registered", t.Version)
			})
			continue
		}
		t := t
		probe := func(f func() any) (res any) {
			site, msg, pan := mon.Guard(func() { res = f() })
			if pan {
				return "panic:" + site + ":" + msg
			}
			return res
		}
		cell(t.Version, "stable", impl.Stable(), t.Stable)
		cell(t.Version, "state-res", int(impl.StateResAlgorithm()), t.StateRes)
		cell(t.Version, "event-format", int(impl.EventFormat()), t.EventFormat)
		cell(t.Version, "event-id-format", int(impl.EventIDFormat()), t.EventIDFormat)
		cell(t.Version, "domainless-room-ids", impl.DomainlessRoomIDs(), t.Domainless)
		cell(t.Version, "privileged-creators", impl.PrivilegedCreators(), t.PrivCreators)
		cell(t.Version, "canonical-json-enforced", probe(func() any { return impl.CheckCanonicalJSON([]byte(`{"a":1.5}`)) != nil }), t.EnforceCanon)
		now := time.Now().UnixMilli()
		cell(t.Version, "key-validity-strict", probe(func() any {
			past := !impl.SignatureValidityCheck(1000, 999)
			cap7 := !impl.SignatureValidityCheck(spec.Timestamp(now+8*24*3600*1000), spec.Timestamp(now+30*24*3600*1000))
			eq := impl.SignatureValidityCheck(1000, 1000)
			if !eq {
				return "rejects ts == valid_until"
			}
			if past != cap7 {
				return fmt.Sprintf("past=%v cap=%v", past, cap7)
			}
			// the cap is a cap however far away the key's own limit lies: timestamps are unsigned 64-bit milliseconds
			for _, vu := range []uint64{1 << 62, 1<<63 - 1, 1 << 63, 1<<64 - 1} {
				if capFar := !impl.SignatureValidityCheck(spec.Timestamp(now+8*24*3600*1000), spec.Timestamp(vu)); capFar != cap7 {
					return fmt.Sprintf("cap=%v, with valid_until_ts=%d cap=%v", cap7, vu, capFar)
				}
				if !impl.SignatureValidityCheck(spec.Timestamp(now+3600*1000), spec.Timestamp(vu)) {
					return fmt.Sprintf("rejects now+1h under valid_until_ts=%d", vu)
				}
			}
			return past
		}), t.StrictValidity)
		cell(t.Version, "integer-power-levels", probe(func() any {
			var pl gmsl.PowerLevelContent
			return impl.ParsePowerLevels([]byte(`{"ban":"50"}`), &pl) != nil
		}), t.IntegerPLs)
		cell(t.Version, "knocking", probe(func() any {
			return impl.CheckKnockingAllowed(t.Version, "@a:b", "@a:b", "knock", "leave") == nil
		}), t.Knock)
		cell(t.Version, "restricted-joins", probe(func() any { return impl.CheckRestrictedJoinsAllowed() == nil }), t.Restricted)
		cell(t.Version, "restricted-join-signer", probe(func() any {
			s, err := impl.RestrictedJoinServername([]byte(`{"membership":"join","join_authorised_via_users_server":"@u:auth.example"}`))
			return err == nil && s == "auth.example"
		}), t.Restricted)
		// redaction algorithm: which of R1..R5 reproduces the library's output on a probe carrying every keep-list key
		cell(t.Version, "redaction-algorithm", probe(func() any {
			matches := []int{}
			r := c.RandShared("redprobe")
			for alg := 1; alg <= 5; alg++ {
				all := true
				for _, typ := range gen.ProtectedTypes {
					ev := gen.RawEvent(r, &t, typ, gen.SafeNumbers)
					for _, k := range []string{"origin", "membership", "prev_state", "depth", "hashes"} {
						ev.Set(k, ref.S("x"))
					}
					cv := ev.Get("content")
					for _, k := range []string{"membership", "join_authorised_via_users_server", "creator", "room_version", "join_rule", "allow", "invite", "ban", "aliases", "redacts", "history_visibility"} {
						cv.Set(k, ref.S("v"))
					}
					cv.Del("third_party_invite")
					out, err := impl.RedactEventJSON(gen.Plain().Bytes(ev))
					if err != nil {
						return err.Error()
					}
					if !ref.Equal(ref.MustParse(out), ref.Redact(alg, ev)) {
						all = false
					}
				}
				if all {
					matches = append(matches, alg)
				}
			}
			if len(matches) == 1 {
				return matches[0]
			}
			return fmt.Sprint("matches ", matches)
		}), t.Redaction)
		// power-level extra checks, observed through CheckPowerLevelEvent
		cell(t.Version, "pl-notification-check", probe(func() any {
			oldPL := gmsl.PowerLevelContent{Users: map[string]int64{"@s:x": 50}, Notifications: map[string]int64{"room": 50}}
			newPL := gmsl.PowerLevelContent{Users: map[string]int64{"@s:x": 50}, Notifications: map[string]int64{"room": 100}}
			create := c17CreateEvent(t.Version)
			if create == nil {
				return "no create event"
			}
			return impl.CheckPowerLevelEvent("@s:x", create, oldPL, newPL) != nil
		}), t.PLNotifChecks)
		cell(t.Version, "pl-creator-check", probe(func() any {
			create := c17CreateEvent(t.Version)
			if create == nil {
				return "no create event"
			}
			pl := gmsl.PowerLevelContent{Users: map[string]int64{string(create.SenderID()): 100}}
			old := gmsl.PowerLevelContent{}
			return impl.CheckPowerLevelEvent(string(create.SenderID()), create, old, pl) != nil
		}), t.PLCreatorCheck)
		cell(t.Version, "create-check", probe(func() any { return c17CreateCheckClass(t.Version) }), t.CreateCheck)
		// built events have the version's format
		cell(t.Version, "built-event-format", probe(func() any {
			create := c17CreateEvent(t.Version)
			if create == nil {
				return "no create event"
			}
			jv := ref.MustParse(create.JSON())
			f := 2
			if jv.Get("event_id") != nil {
				f = 1
			}
			idf := 3
			id := create.EventID()
			switch {
			case strings.Contains(id, ":"):
				idf = 1
			case t.EventIDFormat == 2 && ref.EventID(&t, jv) == id:
				idf = 2
			case ref.EventID(&ref.VersionTraits{EventIDFormat: 3, Redaction: t.Redaction}, jv) == id:
				idf = 3
			default:
				idf = 0
			}
			return fmt.Sprintf("format %d, id format %d", f, idf)
		}), fmt.Sprintf("format %d, id format %d", t.EventFormat, t.EventIDFormat))
	}
	// no registered version the reference does not know (its traits could not be judged)
	for v := range registered {
		if ref.Traits(string(v)) == nil {
			c.Note("registered room version %q has no row in the reference table; not judged", v)
		}
	}
	c.SetExhaustive()
	c.Floor("table_cells", int64(len(ref.Versions)*17))
	_ = context.Background
}

var c17ident = gen.NewIdentity(gen.NewRand(7, "c17"), "a.example", "ed25519:1")

func c17CreateEvent(ver string) gmsl.PDU {
	t := ref.Traits(ver)
	ps := protoSpec{Type: "m.room.create", StateKey: strp(""), Sender: "@s:a.example", RoomID: "!r:a.example", Content: []byte(`{"creator":"@s:a.example","room_version":"` + ver + `"}`), Depth: 1}
	if t.Domainless {
		ps.RoomID = ""
	}
	ev, err := buildEvent(gmsl.RoomVersion(ver), ps, c17ident, baseTime)
	if err != nil {
		return nil
	}
	return ev
}

// c17CreateCheckClass probes CheckCreateEvent with three create events and
// names which of the three specified rule sets (C1, C2, C3) it behaves like.
func c17CreateCheckClass(ver string) any {
	impl := gmsl.MustGetRoomVersion(gmsl.RoomVersion(ver))
	t := ref.Traits(ver)
	mk := func(content string, room string) gmsl.PDU {
		ps := protoSpec{Type: "m.room.create", StateKey: strp(""), Sender: "@s:a.example", RoomID: room, Content: []byte(content), Depth: 1}
		ev, err := buildEvent(gmsl.RoomVersion(ver), ps, c17ident, baseTime)
		if err != nil {
			return nil
		}
		return ev
	}
	sender := spec.NewUserIDOrPanic("@s:a.example", true)
	known := func(v gmsl.RoomVersion) bool { return gmsl.KnownRoomVersion(v) }
	room := "!r:a.example"
	otherRoom := "!r:other.example"
	if t.Domainless {
		room, otherRoom = "", ""
	}
	ok := func(ev gmsl.PDU) string {
		if ev == nil {
			return "unbuildable"
		}
		if impl.CheckCreateEvent(ev, sender, known) == nil {
			return "accept"
		}
		return "reject"
	}
	noCreator := ok(mk(`{"room_version":"`+ver+`"}`, room))
	unknownVer := ok(mk(`{"creator":"@s:a.example","room_version":"no.such.version"}`, room))
	full := ok(mk(`{"creator":"@s:a.example","room_version":"`+ver+`"}`, room))
	badCreators := ok(mk(`{"room_version":"`+ver+`","additional_creators":["not a user id"]}`, room))
	otherDomain := "n/a"
	if !t.Domainless {
		otherDomain = ok(mk(`{"creator":"@s:a.example","room_version":"`+ver+`"}`, otherRoom))
	}
	sig := fmt.Sprintf("full=%s no-creator=%s unknown-version=%s other-domain=%s bad-additional-creators=%s", full, noCreator, unknownVer, otherDomain, badCreators)
	switch sig {
	case "full=accept no-creator=reject unknown-version=reject other-domain=reject bad-additional-creators=reject":
		return 1
	case "full=accept no-creator=accept unknown-version=accept other-domain=reject bad-additional-creators=accept",
		"full=accept no-creator=accept unknown-version=reject other-domain=reject bad-additional-creators=accept":
		// the v11 text also asks for a recognised room_version; the library does not check it and the
		// oracle abstains on that clause (DESIGN.md 5.3), so both behaviours are class 2
		return 2
	case "full=accept no-creator=accept unknown-version=reject other-domain=n/a bad-additional-creators=reject":
		return 3
	}
	return sig
}

func runC17(c *mon.Ctx) {
	c17Identifiers(c)
	c17Base64(c)
	c17Limits(c)
	c17Table(c)
}
