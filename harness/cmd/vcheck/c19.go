package main

import (
	"context"
	"encoding/json"
	"errors"
	"fmt"
	"net"
	"net/http"
	"net/http/httptest"
	"net/url"
	"runtime"
	"sort"
	"strings"
	"sync"
	"sync/atomic"
	"time"

	"github.com/anishathalye/porcupine"
	gmsl "github.com/matrix-org/gomatrixserverlib"
	"github.com/matrix-org/gomatrixserverlib/fclient"
	"github.com/matrix-org/gomatrixserverlib/spec"

	"verif/gen"
	"verif/mon"
	"verif/ref"
)

func init() {
	register(&propDef{
		ID:    "C19",
		Level: "exploration",
		Rule: "executions, all under the Go race detector: (1) DNS-cache histories - k in {2,8,32} goroutines look up 3-6 host names in one cache of size 1-4 with entry lifetimes of 20-80 ms while a scripted resolver (unique address per call, random latency, random errors) makes misses overlap; every lookup is recorded {client, host, call time, (address id, cached, expiry), return time} and each history is checked offline for per-host linearizability (porcupine) and online for expiry, host identity and the size bound; (2) one KeyRing with a DirectKeyFetcher worker pool over a scripted key client (latency, failing servers, notary fallback) used by k goroutines with overlapping batches, every result compared with the sequential expectation, plus FetchKeys over 1-300 servers with a failing subset; (3) one federation client (transport cache) doing concurrent round trips to 2-6 TLS listeners, each response checked to come from the addressed listener with the expected Host; (4) first-time accessor calls on one freshly parsed event from k goroutines. " +
			"distinct = distinct histories (by recorded interleaving); non-trivial = histories with at least two overlapping misses on one host or an eviction / expiry inside the history; key-ring runs with a failing server; round-trip runs with more goroutines than destinations",
		Assumptions: []string{"Go race detector (-race), reports deduplicated by the pair of innermost library functions", "porcupine v1.3.0 as linearizability checker; checker timeout = inconclusive", "hooks VerifSetResolver / VerifLookup / VerifLen / VerifTransportCount forward to the unexported state without changing it",
			"liveness is observed as bounded progress only (generous watchdog; firing = inconclusive)", "stale-entry check is one-sided: a cached answer is a violation only if even its call instant was past the expiry"},
		Race:   func(string) bool { return true },
		Shards: func(t string) int { return 4 },
		Run:    runC19,
	})
}

// ---- (1) DNS cache ----

type scriptedResolver struct {
	calls   atomic.Int64
	latency func() time.Duration
	fail    func() bool
	hostIdx map[string]int
}

func (s *scriptedResolver) LookupIPAddr(ctx context.Context, host string) ([]net.IPAddr, error) {
	n := s.calls.Add(1)
	time.Sleep(s.latency())
	if s.fail() {
		return nil, errors.New("scripted resolver failure")
	}
	h := s.hostIdx[host]
	// unique address per call: 10.<host>.<hi>.<lo>
	return []net.IPAddr{{IP: net.IPv4(10, byte(h), byte(n>>8), byte(n))}}, nil
}

type dnsIn struct{ host string }
type dnsOut struct {
	id     int64 // call counter encoded in the address, 0 = lookup failed
	cached bool
	ok     bool
}

var dnsModel = porcupine.Model{
	Partition: func(history []porcupine.Operation) [][]porcupine.Operation {
		by := map[string][]porcupine.Operation{}
		for _, op := range history {
			h := op.Input.(dnsIn).host
			by[h] = append(by[h], op)
		}
		keys := make([]string, 0, len(by))
		for k := range by {
			keys = append(keys, k)
		}
		sort.Strings(keys)
		out := [][]porcupine.Operation{}
		for _, k := range keys {
			out = append(out, by[k])
		}
		return out
	},
	Init: func() interface{} { return int64(0) },
	// The cache holds at most one address set per host. A miss installs what the
	// resolver returned; eviction and expiry may drop the entry at any time, which
	// only ever turns a would-be hit into a miss; a hit must return the installed value.
	Step: func(state, input, output interface{}) (bool, interface{}) {
		o := output.(dnsOut)
		switch {
		case !o.ok:
			return true, state
		case o.cached:
			return state.(int64) == o.id, state
		default:
			return true, o.id
		}
	},
	DescribeOperation: func(input, output interface{}) string {
		o := output.(dnsOut)
		return fmt.Sprintf("lookup(%s) -> id %d cached=%v ok=%v", input.(dnsIn).host, o.id, o.cached, o.ok)
	},
}

func c19DNS(c *mon.Ctx, r *gen.Rand) {
	nHist := c.Scale(120, 6000)
	for h := 0; h < nHist; h++ {
		hr := r.Fork("hist")
		k := gen.Pick(hr, []int{2, 8, 8, 32})
		nHosts := hr.Range(3, 6)
		size := hr.Range(1, 4)
		life := time.Duration(hr.Range(20, 80)) * time.Millisecond
		opsPer := 200 / k
		if opsPer > 24 {
			opsPer = 24
		}
		hosts := []string{}
		idx := map[string]int{}
		for i := 0; i < nHosts; i++ {
			n := fmt.Sprintf("host%d.example", i)
			hosts = append(hosts, n)
			idx[n] = i + 1
		}
		var lmu sync.Mutex
		lr := hr.Fork("latency")
		res := &scriptedResolver{hostIdx: idx,
			latency: func() time.Duration { lmu.Lock(); defer lmu.Unlock(); return time.Duration(lr.Intn(6)) * time.Millisecond },
			fail:    func() bool { lmu.Lock(); defer lmu.Unlock(); return lr.Chance(0.08) }}
		desc := map[string]any{"goroutines": k, "hosts": nHosts, "cache_size": size, "entry_lifetime_ms": life.Milliseconds(), "ops_per_goroutine": opsPer}
		c.Case("dns-history", desc, func() {
			cache := fclient.NewDNSCache(size, life, nil, nil)
			cache.VerifSetResolver(res)
			start := time.Now()
			clock := func() int64 { return int64(time.Since(start)) }
			type rec struct {
				op      porcupine.Operation
				expires int64 // relative ns
				callAbs time.Time
			}
			recs := make([][]rec, k)
			var maxLen atomic.Int64
			var wg sync.WaitGroup
			stop := make(chan struct{})
			// size monitor: polls the cache under its own mutex
			go func() {
				for {
					select {
					case <-stop:
						return
					default:
					}
					if n := int64(cache.VerifLen()); n > maxLen.Load() {
						maxLen.Store(n)
					}
					time.Sleep(200 * time.Microsecond)
				}
			}()
			seeds := make([]*gen.Rand, k)
			for g := 0; g < k; g++ {
				seeds[g] = hr.Fork(fmt.Sprint("g", g))
			}
			for g := 0; g < k; g++ {
				wg.Add(1)
				go func(g int) {
					defer wg.Done()
					gr := seeds[g]
					for i := 0; i < opsPer; i++ {
						host := gen.Pick(gr, hosts)
						if gr.Chance(0.3) {
							time.Sleep(time.Duration(gr.Intn(15)) * time.Millisecond)
						}
						callAbs := time.Now()
						call := clock()
						addrs, expires, cached, ok := cache.VerifLookup(context.Background(), host)
						ret := clock()
						out := dnsOut{ok: ok, cached: cached}
						if ok && len(addrs) == 1 {
							ip := addrs[0].IP.To4()
							out.id = int64(ip[2])<<8 | int64(ip[3])
							if int(ip[1]) != idx[host] {
								c.Failf("dns:other-hosts-address", "lookup(%s) returned %s, an address the resolver produced for host #%d", host, addrs[0].IP, ip[1])
							}
						}
						if n := int64(cache.VerifLen()); n > maxLen.Load() {
							maxLen.Store(n)
						}
						recs[g] = append(recs[g], rec{op: porcupine.Operation{ClientId: g, Input: dnsIn{host}, Call: call, Output: out, Return: ret}, expires: expires, callAbs: callAbs})
					}
				}(g)
			}
			wg.Wait()
			close(stop)
			var ops []porcupine.Operation
			overlapMiss, hits, misses, fails := 0, 0, 0, 0
			type iv struct{ call, ret int64 }
			missIv := map[string][]iv{}
			freshIDs := map[string]bool{}
			for _, rs := range recs {
				for _, rc := range rs {
					ops = append(ops, rc.op)
					o := rc.op.Output.(dnsOut)
					switch {
					case !o.ok:
						fails++
					case o.cached:
						hits++
						if !rc.callAbs.Before(time.Unix(0, rc.expires)) {
							c.Failf("dns:entry-served-after-expiry", "lookup(%s) was answered from the cache although the entry had expired %v before the call", rc.op.Input.(dnsIn).host, rc.callAbs.Sub(time.Unix(0, rc.expires)))
						}
					default:
						misses++
						h := rc.op.Input.(dnsIn).host
						missIv[h] = append(missIv[h], iv{rc.op.Call, rc.op.Return})
						// an answer that is not from the cache is what the resolver produced during this very call: its entry
						// expires a lifetime after that, and the (unique) address was never handed out before
						if !rc.callAbs.Before(time.Unix(0, rc.expires)) {
							c.Failf("dns:entry-served-after-expiry", "lookup(%s) returned, as a fresh answer, an entry that had expired %v before the call", h, rc.callAbs.Sub(time.Unix(0, rc.expires)))
						}
						if freshIDs[fmt.Sprint(h, "#", o.id)] {
							c.Failf("dns:fresh-answer-is-an-old-address", "lookup(%s) returned as a fresh answer the address #%d that an earlier lookup had already been given\n%s", h, o.id, describeOps(ops))
						}
						freshIDs[fmt.Sprint(h, "#", o.id)] = true
					}
				}
			}
			for _, ivs := range missIv {
				for i := range ivs {
					for j := i + 1; j < len(ivs); j++ {
						if ivs[i].call <= ivs[j].ret && ivs[j].call <= ivs[i].ret {
							overlapMiss++
						}
					}
				}
			}
			c.Count("dns_histories")
			c.CountN("dns_lookups", int64(len(ops)))
			c.CountN("dns_hits", int64(hits))
			c.CountN("dns_misses", int64(misses))
			c.CountN("dns_failed_lookups", int64(fails))
			if overlapMiss > 0 {
				c.Count("dns_histories_with_overlapping_misses_on_one_host")
			}
			evicting := nHosts > size
			if evicting {
				c.Count("dns_histories_with_eviction_pressure")
			}
			if time.Since(start) > life {
				c.Count("dns_histories_spanning_an_expiry")
			}
			if overlapMiss > 0 || evicting {
				sig := []string{}
				for _, op := range ops {
					sig = append(sig, fmt.Sprintf("%d:%v:%v", op.ClientId, op.Input, op.Output))
				}
				c.Nontrivial(strings.Join(sig, "|"))
			}
			if m := maxLen.Load(); m > int64(size) {
				c.Failf("dns:size-bound-exceeded", "the cache held %d entries, its configured size is %d (k=%d, hosts=%d)", m, size, k, nHosts)
			}
			result, info := porcupine.CheckOperationsVerbose(dnsModel, ops, 20*time.Second)
			switch result {
			case porcupine.Illegal:
				_ = info
				c.Failf("dns:history-not-linearizable", "a recorded lookup history (%d ops, %d goroutines, %d hosts, size %d) is not linearizable per host: some cached answer is not the most recently installed address\n%s", len(ops), k, nHosts, size, describeOps(ops))
			case porcupine.Unknown:
				c.Count("dns_checker_timeouts")
			default:
				c.Count("dns_histories_linearizable")
			}
			if c.WantSample() && overlapMiss > 0 && len(ops) < 60 {
				c.Sample(map[string]any{"config": desc, "history": strings.Split(describeOps(ops), "\n")})
			}
		})
	}
	c.Floor("dns_histories_linearizable", 20)
	c.Floor("dns_histories_with_overlapping_misses_on_one_host", 10)
	c.Floor("dns_hits", 100)
}

// ---- (1b) DNS cache: DialContext, including the path that drops a cached entry none of whose addresses connect ----

type dialResolver struct {
	mu    sync.Mutex
	calls map[string]int
	// script[host][min(call, len-1)] = addresses answered on that call
	script   map[string][][]net.IP
	answered map[string]map[string]bool
}

func (d *dialResolver) LookupIPAddr(ctx context.Context, host string) ([]net.IPAddr, error) {
	d.mu.Lock()
	defer d.mu.Unlock()
	sc := d.script[host]
	if len(sc) == 0 {
		return nil, errors.New("no such host")
	}
	i := d.calls[host]
	d.calls[host]++
	if i >= len(sc) {
		i = len(sc) - 1
	}
	if len(sc[i]) == 1 && sc[i][0].Equal(net.IPv4zero) {
		return nil, errors.New("resolver fault (scripted)") // this call of the resolver fails
	}
	out := []net.IPAddr{}
	for _, ip := range sc[i] {
		out = append(out, net.IPAddr{IP: ip})
		d.answered[host][ip.String()] = true
	}
	return out, nil
}

// goroutinesInDNSCache reports how many goroutines have a DNSCache frame on their stack and how many of those are
// parked on a mutex, with the stacks of the latter.
func goroutinesInDNSCache() (inCache, parkedOnMutex int, stacks string) {
	buf := make([]byte, 1<<22)
	buf = buf[:runtime.Stack(buf, true)]
	for _, g := range strings.Split(string(buf), "\n\n") {
		if !strings.Contains(g, "fclient.(*DNSCache)") {
			continue
		}
		inCache++
		head, _, _ := strings.Cut(g, "\n")
		if strings.Contains(head, "sync.Mutex.Lock") || strings.Contains(head, "semacquire") {
			parkedOnMutex++
			stacks += g + "\n\n"
		}
	}
	return
}

// goroutinesInFetchKeys reports the goroutines with a DirectKeyFetcher frame on their stack: how many there are, how
// many are parked on a channel operation or a wait group, and how many are inside the scripted key client.
func goroutinesInFetchKeys() (in, parked, inClient int, stacks string) {
	buf := make([]byte, 1<<22)
	buf = buf[:runtime.Stack(buf, true)]
	for _, g := range strings.Split(string(buf), "\n\n") {
		if !strings.Contains(g, "gomatrixserverlib.(*DirectKeyFetcher)") {
			continue
		}
		in++
		if strings.Contains(g, "concKeyClient") {
			inClient++
		}
		head, _, _ := strings.Cut(g, "\n")
		if strings.Contains(head, "chan send") || strings.Contains(head, "chan receive") || strings.Contains(head, "select") || strings.Contains(head, "semacquire") || strings.Contains(head, "sync.WaitGroup.Wait") {
			parked++
			if len(stacks) < 6000 {
				stacks += g + "\n\n"
			}
		}
	}
	return
}

func c19DNSDial(c *mon.Ctx, r *gen.Rand) {
	nHist := c.Scale(16, 800)
	for h := 0; h < nHist; h++ {
		hr := r.Fork("dial")
		k := gen.Pick(hr, []int{1, 2, 4, 8})
		nHosts := hr.Range(1, 4)
		opsPer := hr.Range(2, 6)
		shapes := make([]string, nHosts)
		for i := range shapes {
			shapes[i] = gen.Pick(hr, []string{"live", "dead-then-live", "dead-then-live", "dead+live", "always-dead", "live-then-dead-then-live", "dead-then-resolver-error", "dead-then-resolver-error-then-live", "resolver-error-then-live"})
		}
		c.Case("dns-dial", map[string]any{"goroutines": k, "hosts": shapes, "dials_per_goroutine": opsPer}, func() {
			res := &dialResolver{calls: map[string]int{}, script: map[string][][]net.IP{}, answered: map[string]map[string]bool{}}
			ports := map[string]string{}
			liveIP := map[string]string{}
			var listeners []net.Listener
			defer func() {
				for _, l := range listeners {
					l.Close()
				}
			}()
			for i, shape := range shapes {
				host := fmt.Sprintf("dial%d.example", i)
				live := net.IPv4(127, 0, byte(10+i), 1)
				dead := net.IPv4(127, 0, byte(10+i), 2)
				ln, err := net.Listen("tcp", live.String()+":0")
				if err != nil {
					c.Note("cannot listen on %s: %v; dial workload skipped", live, err)
					return
				}
				listeners = append(listeners, ln)
				go func() {
					for {
						conn, err := ln.Accept()
						if err != nil {
							return
						}
						conn.Close()
					}
				}()
				_, port, _ := net.SplitHostPort(ln.Addr().String())
				ports[host], liveIP[host] = port, live.String()
				res.answered[host] = map[string]bool{}
				switch shape {
				case "live":
					res.script[host] = [][]net.IP{{live}}
				case "dead-then-live":
					res.script[host] = [][]net.IP{{dead}, {live}}
				case "dead+live":
					res.script[host] = [][]net.IP{{dead, live}}
				case "always-dead":
					res.script[host] = [][]net.IP{{dead}}
				case "live-then-dead-then-live":
					res.script[host] = [][]net.IP{{live}, {dead}, {live}}
				case "dead-then-resolver-error":
					// the cached address refuses connections, and the lookup made to replace the entry fails
					res.script[host] = [][]net.IP{{dead}, {net.IPv4zero}}
				case "dead-then-resolver-error-then-live":
					res.script[host] = [][]net.IP{{dead}, {net.IPv4zero}, {live}}
				case "resolver-error-then-live":
					res.script[host] = [][]net.IP{{net.IPv4zero}, {live}}
				}
			}
			cache := fclient.NewDNSCache(nHosts+1, 30*time.Second, []string{"127.0.0.0/8"}, nil)
			cache.VerifSetResolver(res)
			var wg sync.WaitGroup
			var fmu sync.Mutex
			var failures []string
			var connected, refused atomic.Int64
			pr := hr.Fork("picks")
			picks := make([][]int, k)
			for g := range picks {
				for o := 0; o < opsPer; o++ {
					picks[g] = append(picks[g], pr.Intn(nHosts))
				}
			}
			for g := 0; g < k; g++ {
				wg.Add(1)
				go func(g int) {
					defer wg.Done()
					for _, hi := range picks[g] {
						host := fmt.Sprintf("dial%d.example", hi)
						ctx, cancel := context.WithTimeout(context.Background(), 10*time.Second)
						var conn net.Conn
						var err error
						if site, msg, pan := mon.Guard(func() { conn, err = cache.DialContext(ctx, "tcp", net.JoinHostPort(host, ports[host])) }); pan {
							cancel()
							fmu.Lock()
							failures = append(failures, fmt.Sprintf("PANIC a dial of %s through the cache panics (%s): %s", host, site, msg))
							fmu.Unlock()
							continue
						}
						cancel()
						if err != nil {
							refused.Add(1)
							continue
						}
						connected.Add(1)
						ip, _, _ := net.SplitHostPort(conn.RemoteAddr().String())
						conn.Close()
						if ip != liveIP[host] {
							fmu.Lock()
							failures = append(failures, fmt.Sprintf("a dial of %s connected to %s, an address of another host", host, ip))
							fmu.Unlock()
						}
					}
				}(g)
			}
			done := make(chan struct{})
			go func() { wg.Wait(); close(done) }()
			select {
			case <-done:
			case <-time.After(40 * time.Second):
				// every dial is bounded by its 10 s context, so whoever is still inside the cache now is not waiting for the
				// network. A goroutine parked on the cache mutex with nobody else running inside the cache can never be released.
				in, parked, stacks := goroutinesInDNSCache()
				if parked > 0 && parked == in {
					c.Failf("dns:dial-deadlock", "%d goroutine(s) are parked on the DNS cache mutex and no goroutine is running inside the cache to release it (40 s after the last dial could have timed out)\n%s", parked, stacks)
				} else {
					c.Count("dns_dial_histories_unfinished")
					c.Note("dial history unfinished after 40 s without a provable deadlock (%d in cache, %d parked)", in, parked)
				}
				return
			}
			c.Count("dns_dial_histories")
			c.CountN("dns_dials_connected", connected.Load())
			c.CountN("dns_dials_failed", refused.Load())
			c.Nontrivial(fmt.Sprintf("dial|%d|%v|%v", k, shapes, picks))
			for _, f := range failures {
				if strings.HasPrefix(f, "PANIC") {
					c.Failf("dns:dial-panics", "%s", f)
					continue
				}
				c.Failf("dns:dial-other-hosts-address", "%s", f)
			}
			if n := cache.VerifLen(); n > nHosts+1 {
				c.Failf("dns:size-bound-exceeded", "cache of size %d holds %d entries after the dial history", nHosts+1, n)
			}
			// the cache must still be usable by a later caller (a leaked lock shows here too)
			fin := make(chan struct{})
			go func() { cache.VerifLen(); cache.VerifLookup(context.Background(), "dial0.example"); close(fin) }()
			select {
			case <-fin:
			case <-time.After(20 * time.Second):
				in, parked, stacks := goroutinesInDNSCache()
				if parked > 0 && parked == in {
					c.Failf("dns:dial-deadlock", "after the dial history a lookup parks on the cache mutex forever: the mutex was left locked\n%s", stacks)
				}
			}
		})
	}
	c.Floor("dns_dial_histories", 4)
}

func describeOps(ops []porcupine.Operation) string {
	sort.Slice(ops, func(i, j int) bool { return ops[i].Call < ops[j].Call })
	var sb strings.Builder
	for i, op := range ops {
		if i > 80 {
			sb.WriteString("…\n")
			break
		}
		o := op.Output.(dnsOut)
		fmt.Fprintf(&sb, "[%8.3fms..%8.3fms] g%-2d %s -> id=%d cached=%v ok=%v\n", float64(op.Call)/1e6, float64(op.Return)/1e6, op.ClientId, op.Input.(dnsIn).host, o.id, o.cached, o.ok)
	}
	return sb.String()
}

// ---- (2) key ring ----

type concKeyClient struct {
	world   map[string]*gen.Identity // server -> identity
	down    map[string]bool         // servers failing direct AND notary
	notaryOnly map[string]bool      // direct fails, notary fallback works
	latency func() time.Duration
	calls   atomic.Int64
}

func (k *concKeyClient) serverKeys(server string) (gmsl.ServerKeys, error) {
	id := k.world[server]
	body := fmt.Sprintf(`{"server_name":%q,"valid_until_ts":%d,"verify_keys":{%q:{"key":%q}},"old_verify_keys":{}}`, server, int64(farFuture), id.KeyID, spec.Base64Bytes(id.Pub).Encode())
	signed, err := gmsl.SignJSON(server, gmsl.KeyID(id.KeyID), id.Priv, []byte(body))
	if err != nil {
		return gmsl.ServerKeys{}, err
	}
	var sk gmsl.ServerKeys
	err = json.Unmarshal(signed, &sk)
	return sk, err
}

func (k *concKeyClient) GetServerKeys(ctx context.Context, server spec.ServerName) (gmsl.ServerKeys, error) {
	k.calls.Add(1)
	time.Sleep(k.latency())
	s := string(server)
	if k.down[s] || k.notaryOnly[s] || k.world[s] == nil {
		return gmsl.ServerKeys{}, errors.New("scripted: unreachable")
	}
	return k.serverKeys(s)
}

func (k *concKeyClient) LookupServerKeys(ctx context.Context, server spec.ServerName, reqs map[keyReq]spec.Timestamp) ([]gmsl.ServerKeys, error) {
	k.calls.Add(1)
	time.Sleep(k.latency())
	s := string(server)
	if k.down[s] || k.world[s] == nil {
		return nil, errors.New("scripted: unreachable")
	}
	sk, err := k.serverKeys(s)
	return []gmsl.ServerKeys{sk}, err
}

func c19KeyRing(c *mon.Ctx, r *gen.Rand) {
	nRuns := c.Scale(24, 800)
	for run := 0; run < nRuns; run++ {
		rr := r.Fork("kr")
		nServers := rr.Range(3, 12)
		world := map[string]*gen.Identity{}
		var servers []string
		client := &concKeyClient{world: world, down: map[string]bool{}, notaryOnly: map[string]bool{}}
		var lmu sync.Mutex
		lr := rr.Fork("lat")
		client.latency = func() time.Duration { lmu.Lock(); defer lmu.Unlock(); return time.Duration(lr.Intn(3)) * time.Millisecond }
		for i := 0; i < nServers; i++ {
			s := fmt.Sprintf("s%d.example", i)
			servers = append(servers, s)
			world[s] = gen.NewIdentity(rr, s, "ed25519:k")
			switch rr.Intn(5) {
			case 0:
				client.down[s] = true
			case 1:
				client.notaryOnly[s] = true
			}
		}
		k := gen.Pick(rr, []int{2, 8, 16})
		// messages
		type msg struct {
			server string
			body   []byte
			good   bool
		}
		var msgs []msg
		for i := 0; i < 24; i++ {
			s := gen.Pick(rr, servers)
			id := world[s]
			b, _ := gmsl.SignJSON(s, gmsl.KeyID(id.KeyID), id.Priv, []byte(fmt.Sprintf(`{"n":%d}`, i)))
			good := true
			if rr.Chance(0.2) {
				other := gen.NewIdentity(rr, s, "ed25519:k")
				b, _ = gmsl.SignJSON(s, gmsl.KeyID(id.KeyID), other.Priv, []byte(fmt.Sprintf(`{"n":%d}`, i)))
				good = false
			}
			msgs = append(msgs, msg{s, b, good})
		}
		seeds := make([]*gen.Rand, k)
		for g := range seeds {
			seeds[g] = rr.Fork(fmt.Sprint("g", g))
		}
		downCount := len(client.down)
		c.Case("keyring-concurrent", map[string]any{"servers": nServers, "unreachable": downCount, "notary_only": len(client.notaryOnly), "goroutines": k}, func() {
			ring := &gmsl.KeyRing{KeyDatabase: newMemKeyDB(), KeyFetchers: []gmsl.KeyFetcher{&gmsl.DirectKeyFetcher{Client: client, IsLocalServerName: func(s spec.ServerName) bool { return false }}}}
			var wg sync.WaitGroup
			var done atomic.Int64
			for g := 0; g < k; g++ {
				wg.Add(1)
				go func(g int) {
					defer wg.Done()
					gr := seeds[g]
					for round := 0; round < 4; round++ {
						n := gr.Range(1, 6)
						var reqs []gmsl.VerifyJSONRequest
						var exp []bool
						for i := 0; i < n; i++ {
							m := gen.Pick(gr, msgs)
							reqs = append(reqs, gmsl.VerifyJSONRequest{ServerName: spec.ServerName(m.server), AtTS: spec.Timestamp(baseTime.UnixMilli()), Message: m.body, ValidityCheckingFunc: gmsl.StrictValiditySignatureCheck})
							exp = append(exp, m.good && !client.down[m.server])
						}
						res, err := ring.VerifyJSONs(context.Background(), reqs)
						if err != nil {
							c.Failf("keyring-concurrent:call-error", "VerifyJSONs under concurrency: %v", err)
							return
						}
						if len(res) != len(reqs) {
							c.Failf("keyring-concurrent:result-count", "%d results for %d requests", len(res), len(reqs))
							return
						}
						for i := range res {
							done.Add(1)
							if (res[i].Error == nil) != exp[i] {
								c.Failf(fmt.Sprintf("keyring-concurrent:differs-from-sequential:expected-%v", exp[i]), "goroutine %d: request for %s: success=%v (%v), a sequential execution gives %v", g, reqs[i].ServerName, res[i].Error == nil, res[i].Error, exp[i])
							}
						}
					}
				}(g)
			}
			wg.Wait()
			c.Count("keyring_concurrent_runs")
			c.CountN("keyring_concurrent_results", done.Load())
			if downCount > 0 {
				c.Nontrivial(fmt.Sprintf("kr|%d|%d|%d|%d", run, nServers, downCount, k))
			}
		})
		// FetchKeys directly, many servers
		nf := gen.Pick(rr, []int{1, 5, 40, 64, 65, 130, 300})
		fworld := map[string]*gen.Identity{}
		fclientStub := &concKeyClient{world: fworld, down: map[string]bool{}, notaryOnly: map[string]bool{}, latency: func() time.Duration { return 0 }}
		reqs := map[keyReq]spec.Timestamp{}
		failFrac := gen.Pick(rr, []float64{0, 0.3, 0.7, 0.95})
		shared := gen.NewIdentity(rr, "shared", "ed25519:k")
		for i := 0; i < nf; i++ {
			s := fmt.Sprintf("f%d.example", i)
			fworld[s] = &gen.Identity{Server: s, KeyID: "ed25519:k", Pub: shared.Pub, Priv: shared.Priv}
			if rr.Chance(failFrac) {
				fclientStub.down[s] = true
			} else if rr.Chance(0.2) {
				fclientStub.notaryOnly[s] = true
			}
			reqs[keyReq{ServerName: spec.ServerName(s), KeyID: "ed25519:k"}] = 0
		}
		withLocal := rr.Chance(0.5)
		if withLocal {
			reqs[keyReq{ServerName: "local.example", KeyID: "ed25519:l"}] = 0
		}
		c.Case("fetchkeys-pool", map[string]any{"servers": nf, "failing": len(fclientStub.down), "notary_only": len(fclientStub.notaryOnly), "local_request": withLocal}, func() {
			f := &gmsl.DirectKeyFetcher{Client: fclientStub, IsLocalServerName: func(s spec.ServerName) bool { return s == "local.example" }, LocalPublicKey: spec.Base64Bytes(shared.Pub)}
			doneCh := make(chan struct{})
			var res map[keyReq]keyRes
			var err error
			go func() { res, err = f.FetchKeys(context.Background(), reqs); close(doneCh) }()
			select {
			case <-doneCh:
			case <-time.After(30 * time.Second):
				// the scripted client answers at once: decide on the goroutines' state, not on the clock. If every goroutine
				// of the fetcher is parked on a channel / wait group and none is inside the key client, nothing can wake them.
				in, parked, inClient, stacks := goroutinesInFetchKeys()
				if in > 0 && parked == in && inClient == 0 {
					c.Failf("fetchkeys:deadlock", "FetchKeys over %d servers: all %d goroutine(s) of the fetcher are parked on channel operations and none is talking to a server\n%s", nf, in, stacks)
				} else {
					c.Count("fetchkeys_no_progress_within_30s")
					c.Floor("fetchkeys_watchdog_never_fired", 1) // never counted: the run is inconclusive, bounded progress was not observed
					c.Note("FetchKeys unfinished after 30 s without a provable deadlock (%d in fetcher, %d parked, %d in client)", in, parked, inClient)
				}
				return
			}
			c.Count("fetchkeys_completed")
			if len(fclientStub.down) > 0 {
				c.Nontrivial(fmt.Sprintf("fk|%d|%d|%d", run, nf, len(fclientStub.down)))
			}
			if err != nil {
				c.Failf("fetchkeys:error", "FetchKeys: %v", err)
				return
			}
			want := map[string]bool{}
			for s := range fworld {
				if !fclientStub.down[s] {
					want[s] = true
				}
			}
			if withLocal {
				want["local.example"] = true
			}
			got := map[string]bool{}
			for k2 := range res {
				got[string(k2.ServerName)] = true
			}
			missing, extra := 0, 0
			for s := range want {
				if !got[s] {
					missing++
				}
			}
			for s := range got {
				if !want[s] {
					extra++
				}
			}
			if missing > 0 || extra > 0 {
				c.Failf("fetchkeys:not-the-union-of-successes", "FetchKeys over %d servers (%d failing): %d successful servers missing from the result, %d unexpected", nf, len(fclientStub.down), missing, extra)
			}
		})
	}
	c.Floor("keyring_concurrent_results", 200)
	c.Floor("fetchkeys_completed", 10)
}

// ---- (3) transport cache ----

func c19Transports(c *mon.Ctx, r *gen.Rand) {
	nRuns := c.Scale(8, 200)
	for run := 0; run < nRuns; run++ {
		rr := r.Fork("tr")
		nSrv := rr.Range(2, 6)
		k := gen.Pick(rr, []int{4, 16, 32})
		c.Case("transport-cache", map[string]any{"listeners": nSrv, "goroutines": k}, func() {
			var servers []*httptest.Server
			for i := 0; i < nSrv; i++ {
				i := i
				srv := httptest.NewTLSServer(http.HandlerFunc(func(w http.ResponseWriter, req *http.Request) {
					w.Header().Set("Content-Type", "application/json")
					fmt.Fprintf(w, `{"listener":%d,"host":%q,"sni":%q}`, i, req.Host, req.TLS.ServerName)
				}))
				servers = append(servers, srv)
			}
			defer func() {
				for _, s := range servers {
					s.Close()
				}
			}()
			cl := fclient.NewClient(fclient.WithSkipVerify(true), fclient.WithWellKnownSRVLookups(false), fclient.WithKeepAlives(rr.Chance(0.5)), fclient.WithTimeout(20*time.Second))
			var wg sync.WaitGroup
			var trips atomic.Int64
			// destinations nobody listens on (every request to them fails), and the reaper of the transport cache
			// running all along - as its timer may, between any two steps of any request, also while the first
			// request to a destination is still on its way or has failed
			var dead []string
			for i := 0; i < 2; i++ {
				if l, err := net.Listen("tcp", "127.0.0.1:0"); err == nil {
					dead = append(dead, l.Addr().String())
					l.Close()
				}
			}
			stopReaper := make(chan struct{})
			var reaperDone sync.WaitGroup
			var reaps atomic.Int64
			reaperDone.Add(1)
			go func() {
				defer reaperDone.Done()
				for {
					select {
					case <-stopReaper:
						return
					default:
					}
					site, msg, pan := mon.Guard(func() { cl.VerifReap() })
					if pan {
						c.Failf("transport:reaper-panics:"+site, "a pass of the transport reaper while requests are on their way panics (in its timer goroutine that ends the process): %s", msg)
						return
					}
					reaps.Add(1)
					time.Sleep(200 * time.Microsecond)
				}
			}()
			for _, d := range dead {
				wg.Add(1)
				go func(d string) {
					defer wg.Done()
					for i := 0; i < 3; i++ {
						req, _ := http.NewRequest("GET", "matrix://"+d+"/_matrix/test", nil)
						ctx, cancel := context.WithTimeout(context.Background(), 5*time.Second)
						var body struct{}
						if err := cl.DoRequestAndParseResponse(ctx, req, &body); err == nil {
							c.Failf("transport:answered-by-other-destination", "a request to %s, where nobody listens, was answered", d)
						}
						cancel()
						// a pass of the reaper right after a failure, from this goroutine
						if site, msg, pan := mon.Guard(func() { cl.VerifReap() }); pan {
							c.Failf("transport:reaper-panics:"+site, "a pass of the transport reaper after a failed request panics: %s", msg)
							return
						}
					}
				}(d)
			}
			seeds := make([]*gen.Rand, k)
			for g := range seeds {
				seeds[g] = rr.Fork(fmt.Sprint("g", g))
			}
			for g := 0; g < k; g++ {
				wg.Add(1)
				go func(g int) {
					defer wg.Done()
					gr := seeds[g]
					for i := 0; i < 6; i++ {
						t := gr.Intn(nSrv)
						u, _ := url.Parse(servers[t].URL)
						req, _ := http.NewRequest("GET", "matrix://"+u.Host+"/_matrix/test", nil)
						var body struct {
							Listener int    `json:"listener"`
							Host     string `json:"host"`
							SNI      string `json:"sni"`
						}
						ctx, cancel := context.WithTimeout(context.Background(), 20*time.Second)
						err := cl.DoRequestAndParseResponse(ctx, req, &body)
						cancel()
						if err != nil {
							c.Failf("transport:round-trip-error", "round trip to listener %d failed: %v", t, err)
							return
						}
						trips.Add(1)
						if body.Listener != t {
							c.Failf("transport:answered-by-other-destination", "a request addressed to listener %d (%s) was answered by listener %d", t, u.Host, body.Listener)
						}
						if body.Host != u.Host {
							c.Failf("transport:wrong-host-header", "request to %s carried Host %q", u.Host, body.Host)
						}
					}
				}(g)
			}
			wg.Wait()
			close(stopReaper)
			reaperDone.Wait()
			c.Count("transport_runs")
			c.CountN("transport_reaper_passes_during_requests", reaps.Load())
			c.CountN("transport_round_trips", trips.Load())
			if k > nSrv {
				c.Nontrivial(fmt.Sprintf("tr|%d|%d|%d", run, nSrv, k))
			}
			if n := cl.VerifTransportCount(); n > nSrv+len(dead) {
				c.Failf("transport:more-transports-than-destinations", "%d cached transports for %d distinct destinations", n, nSrv+len(dead))
			}
		})
	}
	c.Floor("transport_round_trips", 100)
	c.Floor("transport_reaper_passes_during_requests", 100)
}

// ---- (4) shared event ----

func c19SharedEvent(c *mon.Ctx, r *gen.Rand) {
	versions := sortedVersions()
	rounds := c.Scale(8, 160)
	for round := 0; round < rounds; round++ {
		for _, ver := range versions {
			t := ref.Traits(string(ver))
			if t == nil || ver == gmsl.RoomVersionPseudoIDs {
				continue
			}
			w := newWorld(r.Fork("w"), ver, "plain", 1)
			base := w.members[[2]string{authUsers[2], "join"}]
			impl := gmsl.MustGetRoomVersion(ver)
			// the forms an event can reach a shared holder in: as built; with a content that fails the hash (replaced
			// by its redacted form at parse); already redacted on arrival (hash fails, redaction changes nothing)
			forms := map[string][]byte{"as-built": base.JSON()}
			if rich, err := w.build("m.room.member", strp(authUsers[2]), authUsers[2], ref.O("membership", ref.S("join"), "displayname", ref.S("D"), "extra", ref.O("k", ref.I(1))), nil, ""); err == nil {
				forms["rich-content"] = rich.JSON()
				tv := ref.MustParse(rich.JSON())
				tv.Get("content").Set("displayname", ref.S("tampered"))
				forms["hash-fails"] = gen.Plain().Bytes(tv)
				rv := ref.Redact(t.Redaction, ref.MustParse(rich.JSON()))
				forms["arrives-redacted"] = gen.Plain().Bytes(rv)
			}
			formNames := make([]string, 0, len(forms))
			for f := range forms {
				formNames = append(formNames, f)
			}
			sortStrings(formNames)
			parsers := map[string]func([]byte) (gmsl.PDU, error){
				"untrusted":        impl.NewEventFromUntrustedJSON,
				"trusted":          func(b []byte) (gmsl.PDU, error) { return impl.NewEventFromTrustedJSON(b, false) },
				"trusted-redacted": func(b []byte) (gmsl.PDU, error) { return impl.NewEventFromTrustedJSON(b, true) },
				// a caller that did not store the event ID alongside the event
				"trusted-with-empty-event-id": func(b []byte) (gmsl.PDU, error) { return impl.NewEventFromTrustedJSONWithEventID("", b, false) },
			}
			for _, form := range formNames {
				text := forms[form]
				for _, pname := range []string{"untrusted", "trusted", "trusted-redacted", "trusted-with-empty-event-id", "untrusted+Redact()", "trusted+Redact()"} {
					// (+Redact(): the holder redacts the event before it shares it - after that it is as read-only as any other)
					parse := parsers[strings.TrimSuffix(pname, "+Redact()")]
					if strings.HasSuffix(pname, "+Redact()") {
						inner := parse
						parse = func(b []byte) (gmsl.PDU, error) {
							p, err := inner(b)
							if err == nil {
								p.Redact()
							}
							return p, err
						}
					}
					c.Case("shared-event:"+string(ver)+":"+form+":"+pname, map[string]any{"version": ver, "form": form, "parser": pname, "event": string(text)}, func() {
						ref1, err := parse(text)
						if err != nil {
							c.Count("shared_event_form_refused")
							return
						}
						want, _ := tupleOf(ref1)
						wantVer := ref1.Version()
						shared, _ := parse(text) // fresh: nothing cached yet
						k := 8
						var wg sync.WaitGroup
						startCh := make(chan struct{})
						diffs := make([]string, k)
						for g := 0; g < k; g++ {
							wg.Add(1)
							go func(g int) {
								defer wg.Done()
								<-startCh
								got, site := tupleOf(shared)
								if site != "" {
									diffs[g] = "panic: " + site
									return
								}
								if d := want.diff(got); d != "" {
									diffs[g] = d
								}
								_ = shared.JSON()
								_, _ = shared.Membership()
								_ = shared.Unsigned()
								_ = shared.Redacts()
								_, _ = shared.ToHeaderedJSON()
								if shared.Version() != wantVer {
									diffs[g] = "version"
								}
							}(g)
						}
						close(startCh)
						wg.Wait()
						c.Count("shared_event_runs")
						c.Nontrivial(fmt.Sprintf("se|%s|%s|%s|%d", ver, form, pname, round))
						for g, d := range diffs {
							if d != "" {
								c.Failf("shared-event:accessor-differs", "goroutine %d read a different %s from the shared event than a single-threaded read", g, d)
							}
						}
					})
				}
			}
		}
	}
	c.Floor("shared_event_runs", 10)
}

// c19ColdStart: the very first calls this process makes into the library come from sixteen goroutines at once (a server
// that starts up and is handed a batch of events): whatever the library computes once and keeps - tables of member
// names, decoded versions - every caller gets the answer a lone caller would get. Runs before anything else.
func c19ColdStart(c *mon.Ctx) {
	id := gen.NewIdentity(c.RandShared("cold-id"), "a.example", "ed25519:k1")
	type q struct {
		ver  gmsl.RoomVersion
		text []byte
	}
	var qs []q
	// (the events are assembled with the reference encoder only, so that nothing of the library has run yet)
	for _, ver := range []string{"1", "4", "10", "11", "12"} {
		t := ref.Traits(ver)
		if t == nil {
			continue
		}
		for _, typ := range []string{"m.room.member", "m.room.message", "m.room.power_levels"} {
			ev := gen.RawEvent(c.RandShared("cold-"+ver+typ), t, typ, gen.SafeNumbers)
			ev.Del("hashes")
			ev.Set("hashes", ref.O("sha256", ref.S("AAAAAAAAAAAAAAAAAAAAAAAAAAAAAAAAAAAAAAAAAAA")))
			qs = append(qs, q{gmsl.RoomVersion(ver), gen.Plain().Bytes(ev)})
		}
	}
	_ = id
	c.Case("cold-start", map[string]any{"questions": len(qs), "goroutines": 16}, func() {
		c.Nontrivial("cold-start")
		ask := func(i int) string {
			impl, err := gmsl.GetRoomVersion(qs[i].ver)
			if err != nil {
				return "no such version"
			}
			p, perr := impl.NewEventFromUntrustedJSON(qs[i].text)
			red, rerr := impl.RedactEventJSON(qs[i].text)
			out := fmt.Sprintf("parse-error=%v redact=%s redact-error=%v", perr != nil, red, rerr != nil)
			if perr == nil && p != nil {
				sk := "<nil>"
				if p.StateKey() != nil {
					sk = *p.StateKey()
				}
				out += fmt.Sprintf(" id=%s type=%s sender=%s state_key=%s redacted=%v json=%s", p.EventID(), p.Type(), p.SenderID(), sk, p.Redacted(), p.JSON())
			}
			return out
		}
		const g = 16
		got := make([][]string, g)
		var wg sync.WaitGroup
		start := make(chan struct{})
		for k := 0; k < g; k++ {
			got[k] = make([]string, len(qs))
			wg.Add(1)
			go func(k int) {
				defer wg.Done()
				<-start
				for j := range qs {
					i := (j + k) % len(qs)
					func() {
						defer func() {
							if r := recover(); r != nil {
								got[k][i] = fmt.Sprintf("panic: %v", r)
							}
						}()
						got[k][i] = ask(i)
					}()
				}
			}(k)
		}
		close(start)
		wg.Wait()
		c.CountN("cold_start_calls", int64(g*len(qs)))
		for i := range qs {
			want := ask(i)
			for k := 0; k < g; k++ {
				if got[k][i] != want {
					c.Failf("cold-start:concurrent-first-call-differs", "one of the first sixteen concurrent callers of this process got %q for question %d (v%s); a lone caller gets %q", trunc([]byte(got[k][i])), i, qs[i].ver, trunc([]byte(want)))
					return
				}
			}
		}
	})
}

func runC19(c *mon.Ctx) {
	c19ColdStart(c)
	r := c.Rand("c19")
	c19DNS(c, r.Fork("dns"))
	c19DNSDial(c, r.Fork("dns-dial"))
	c19KeyRing(c, r.Fork("keyring"))
	c19Transports(c, r.Fork("transports"))
	c19SharedEvent(c, r.Fork("event"))
}
