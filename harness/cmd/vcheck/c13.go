package main

import (
	"bufio"
	"bytes"
	"encoding/base64"
	"fmt"
	"net/http"
	"strings"
	"time"

	gmsl "github.com/matrix-org/gomatrixserverlib"
	"github.com/matrix-org/gomatrixserverlib/fclient"
	"github.com/matrix-org/gomatrixserverlib/spec"

	"verif/gen"
	"verif/mon"
	"verif/ref"
)

func init() {
	register(&propDef{
		ID:    "C13",
		Level: "exploration",
		Rule: "a case is one signed federation request (method x URI with escapes/queries x JSON body or none x origin/destination server-name shapes x key ID x single or several local names) carried through real HTTP/1.1 framing (Request.Write / http.ReadRequest), verified untampered and under ~30 single-field tamperings of the transmitted request and 6 legal header re-spellings; " +
			"distinct = distinct (request line, headers, body) of the base request; non-trivial = has a body or a query",
		Assumptions: []string{"real KeyRing over an in-memory key database (strict validity)", "net/http framing", "abstains on a missing destination parameter (pre-v1.3 peers) and on the case of the auth scheme"},
		Run:         runC13,
	})
}

var c13names = []string{"origin.example", "a.example:8448", "10.1.2.3", "10.1.2.3:8008", "[2001:db8::1]", "[::1]:8448", "xn--e1afmkfd.example", "UPPER.example", "h-y.phen.example"}
var c13paths = []string{"/_matrix/federation/v1/send/1234", "/_matrix/federation/v2/send_join/%21room%3Aa.example/%24ev", "/_matrix/key/v2/server", "/a%2Fb/c", "/_matrix/federation/v1/event/$abc:def",
	"/p/%C3%A9", "/with%20space",
	// escapes that decode to bytes that are no UTF-8: the URI as transmitted (and signed) is plain ASCII all the same
	"/p/caf%E9", "/%FF/x", "/lone/%C3", "/_matrix/media/v3/download/a.example/%80%81", "/_matrix/federation/v1/query/directory", "/", "/x/y/z/"}
var c13queries = []string{"", "", "?room_alias=%23a%3Ab", "?a=1&b=2", "?ver=1&ver=2&ver=10", "?q=", "?x=%2F%3F", "?e=%C3%A9", "?e=%E9", "?%FF=%FE", "?", "?&", "?flag", "?=1", "?q=caf\uFFFD", "?r=\uFFFD\uFFFD&s=1",
	// raw blanks: no request line can carry them, so HTTPRequest has to refuse (or escape) them
	"?field=a b", "? ", "?x=1 HTTP/1.1"}

// Origins that are not server names by the specification's grammar (checked against ref.ServerName at start-up) but for
// which the receiver holds a key: a genuine signature must not make them acceptable.
var c13invalidOrigins = []string{"example.org:65536", "[2001:db8::1]:70000", "example.org:4294967295", "example.org:+8448", "example.org:-1", "exa_mple.org", "example.org:",
	"exam ple.org", "[::1", "2001:db8::1", "example.org:80:90", "example.org:8o", ":8448", "ex/ample.org", "example.org:99999999999999999999"}

type wireReq struct {
	method  string
	uri     string
	host    string
	headers [][2]string // in order
	body    []byte
}

func (w wireReq) clone() wireReq {
	c := w
	c.headers = append([][2]string{}, w.headers...)
	c.body = append([]byte{}, w.body...)
	return c
}

// parse feeds the raw bytes through net/http's request reader, as a server would.
func (w wireReq) parse() (*http.Request, error) {
	var b bytes.Buffer
	fmt.Fprintf(&b, "%s %s HTTP/1.1\r\nHost: %s\r\n", w.method, w.uri, w.host)
	for _, h := range w.headers {
		fmt.Fprintf(&b, "%s: %s\r\n", h[0], h[1])
	}
	fmt.Fprintf(&b, "Content-Length: %d\r\n\r\n", len(w.body))
	b.Write(w.body)
	return http.ReadRequest(bufio.NewReader(&b))
}

func (w *wireReq) setHeader(name, val string) {
	for i := range w.headers {
		if strings.EqualFold(w.headers[i][0], name) {
			w.headers[i][1] = val
			return
		}
	}
	w.headers = append(w.headers, [2]string{name, val})
}

func (w *wireReq) delHeader(name string) {
	out := w.headers[:0:0]
	for _, h := range w.headers {
		if !strings.EqualFold(h[0], name) {
			out = append(out, h)
		}
	}
	w.headers = out
}

func (w wireReq) header(name string) string {
	for _, h := range w.headers {
		if strings.EqualFold(h[0], name) {
			return h[1]
		}
	}
	return ""
}

type xmatrix struct{ origin, dest, key, sig string }

func parseXM(h string) xmatrix {
	var x xmatrix
	rest := strings.TrimPrefix(h, "X-Matrix ")
	for _, p := range strings.Split(rest, ",") {
		kv := strings.SplitN(p, "=", 2)
		if len(kv) != 2 {
			continue
		}
		v := strings.Trim(kv[1], "\"")
		switch kv[0] {
		case "origin":
			x.origin = v
		case "destination":
			x.dest = v
		case "key":
			x.key = v
		case "sig":
			x.sig = v
		}
	}
	return x
}

func (x xmatrix) String() string {
	return fmt.Sprintf("X-Matrix origin=\"%s\",key=\"%s\",sig=\"%s\",destination=\"%s\"", x.origin, x.key, x.sig, x.dest)
}

func runC13(c *mon.Ctx) {
	r := c.Rand("requests")
	kr := c.RandShared("keys")
	now := time.Now()
	nowMs := now.UnixMilli()
	n := c.Scale(800, 160000)
	for k := 0; k < n; k++ {
		origin := gen.Pick(r, c13names)
		dest := gen.Pick(r, c13names)
		for dest == origin {
			dest = gen.Pick(r, c13names)
		}
		other := gen.Pick(r, c13names)
		for other == origin || other == dest {
			other = gen.Pick(r, c13names)
		}
		method := gen.Pick(r, []string{"GET", "PUT", "POST", "DELETE", "put", "get"})
		uri := gen.Pick(r, c13paths) + gen.Pick(r, c13queries)
		keyID := gen.Pick(r, []string{"ed25519:1", "ed25519:auto", "ed25519:a_B9"})
		var body *ref.Value
		if strings.ToUpper(method) != "GET" && r.Chance(0.85) || r.Chance(0.1) {
			switch r.Intn(5) {
			case 0:
				body = ref.A(ref.I(1), ref.S("x"))
			case 1:
				body = ref.S("just a string")
			case 2:
				big := ref.O()
				for i := 0; i < 300; i++ {
					big.Set(fmt.Sprintf("k%d", i), ref.S(strings.Repeat("v", 40)))
				}
				body = big
			default:
				body = gen.RandObject(r, gen.JSONOpts{Depth: 3, Width: 4, Numbers: gen.SafeNumbers})
			}
		}
		multiLocal := r.Chance(0.5)
		id := gen.NewIdentity(kr, origin, keyID)
		otherID := gen.NewIdentity(kr, other, keyID)
		tr := r.Fork("tamper")
		desc := map[string]any{"method": method, "uri": uri, "origin": origin, "destination": dest, "key": keyID, "multi_local": multiLocal}
		if body != nil {
			desc["body"] = gen.Describe(body)
		}
		c.Case("request", desc, func() {
			fr := fclient.NewFederationRequest(method, spec.ServerName(origin), spec.ServerName(dest), uri)
			if body != nil {
				if err := fr.SetContent(spec.RawJSON(gen.Plain().Bytes(body))); err != nil {
					c.Failf("sign:set-content-error", "%v", err)
					return
				}
			}
			if k%3 == 1 {
				// signed before with the key the origin held under this key ID until it rotated it (ninth seeding round,
				// C13-S): signing again replaces that signature, the request leaves with the signature of the key in use
				if err := fr.Sign(spec.ServerName(origin), gmsl.KeyID(keyID), otherID.Priv); err != nil {
					c.Failf("sign:error", "Sign: %v", err)
					return
				}
				c.Count("requests_signed_again_with_a_new_key_under_the_same_key_id")
			}
			if err := fr.Sign(spec.ServerName(origin), gmsl.KeyID(keyID), id.Priv); err != nil {
				c.Failf("sign:error", "Sign: %v", err)
				return
			}
			hr, err := fr.HTTPRequest()
			if err != nil {
				if strings.Contains(err.Error(), "didn't encode properly") {
					c.Count("uri_not_normalised_skipped")
					return
				}
				c.Failf("sign:http-request-error", "HTTPRequest: %v", err)
				return
			}
			var buf bytes.Buffer
			if err := hr.Write(&buf); err != nil {
				c.Failf("harness:write", "%v", err)
				return
			}
			parsed, err := http.ReadRequest(bufio.NewReader(bytes.NewReader(buf.Bytes())))
			if err != nil {
				c.Failf("sign:http-request-cannot-be-read-back", "HTTPRequest builds a request for the URI %q that no HTTP server can read (%v): it is neither refused nor delivered", uri, err)
				return
			}
			base := wireReq{method: parsed.Method, uri: parsed.RequestURI, host: parsed.Host}
			for name, vals := range parsed.Header {
				if name == "Content-Length" || name == "User-Agent" {
					continue
				}
				for _, v := range vals {
					base.headers = append(base.headers, [2]string{name, v})
				}
			}
			bb := new(bytes.Buffer)
			bb.ReadFrom(parsed.Body)
			base.body = bb.Bytes()
			xm := parseXM(base.header("Authorization"))
			if xm.origin != origin || xm.dest != dest || xm.key != keyID {
				c.Failf("sign:header-fields", "Authorization header %q does not carry origin/destination/key of the request", base.header("Authorization"))
				return
			}
			if body != nil || strings.Contains(uri, "?") {
				c.Nontrivial(fmt.Sprintf("%s %s|%v|%s", base.method, base.uri, base.headers, base.body))
			}
			db := newMemKeyDB()
			db.set(origin, keyID, id.Pub, nowMs+24*3600*1000, 0)
			db.set(other, keyID, otherID.Pub, nowMs+24*3600*1000, 0)
			ring := &gmsl.KeyRing{KeyDatabase: db}
			locals := map[string]bool{dest: true}
			var isLocal func(spec.ServerName) bool
			if multiLocal {
				locals["second-local.example"] = true
				locals[other] = true
				isLocal = func(s spec.ServerName) bool { return locals[string(s)] }
			}
			verify := func(w wireReq, ring gmsl.JSONVerifier) (*fclient.FederationRequest, int, error) {
				req, err := w.parse()
				if err != nil {
					return nil, 0, err
				}
				fr, resp := fclient.VerifyHTTPRequest(req, now, spec.ServerName(dest), isLocal, ring)
				return fr, resp.Code, nil
			}
			// completeness
			got, code, err := verify(base, ring)
			c.Count("verified_untampered")
			if err != nil {
				c.Failf("harness:parse", "%v", err)
				return
			}
			if got == nil || code != 200 {
				c.Failf("verify:rejects-genuine", "VerifyHTTPRequest refused a genuine request (code %d): %s %s origin=%s dest=%s", code, base.method, base.uri, origin, dest)
				return
			}
			if got.Method() != strings.ToUpper(method) || got.RequestURI() != uri || string(got.Origin()) != origin || string(got.Destination()) != dest {
				c.Failf("verify:reports-other-fields", "accepted request reports method=%q uri=%q origin=%q dest=%q; signed %q %q %q %q", got.Method(), got.RequestURI(), got.Origin(), got.Destination(), strings.ToUpper(method), uri, origin, dest)
			}
			if body == nil {
				if len(got.Content()) != 0 {
					c.Failf("verify:reports-other-body", "accepted request reports a body %q, none was signed", got.Content())
				}
			} else if gv, _, e := ref.Parse(got.Content()); e != nil || !ref.Equal(gv, body) {
				c.Failf("verify:reports-other-body", "accepted request reports body %q, signed %s", got.Content(), gen.Describe(body))
			}
			// the same request while the key ring cannot answer (its database is down): refused, not waved through
			{
				nfail := 0
				if g, fcode, _ := verify(base, failingVerifier{&nfail}); g != nil || fcode == 200 {
					c.Failf("verify:accepts-although-the-verifier-failed", "VerifyHTTPRequest accepts a request (code %d) although the key ring answered with an error (asked %d times)", fcode, nfail)
				}
				c.Count("verified_with_a_failing_key_ring")
			}
			// what an accepted request reports stays what it is while later requests are verified
			c.Retain("verify", "the body reported for an accepted request", got.Content())
			// legal re-spellings of the header must still verify
			respell := map[string]string{
				"reordered":     fmt.Sprintf("X-Matrix sig=\"%s\",destination=\"%s\",origin=\"%s\",key=\"%s\"", xm.sig, xm.dest, xm.origin, xm.key),
				"space-after-,": fmt.Sprintf("X-Matrix origin=\"%s\", key=\"%s\", sig=\"%s\", destination=\"%s\"", xm.origin, xm.key, xm.sig, xm.dest),
				"unknown-param": xm.String() + ",foo=\"bar\"",
			}
			if !strings.ContainsAny(xm.origin+xm.dest, "[]:") {
				respell["unquoted-names"] = fmt.Sprintf("X-Matrix origin=%s,key=\"%s\",sig=\"%s\",destination=%s", xm.origin, xm.key, xm.sig, xm.dest)
			}
			for kind, h := range respell {
				w := base.clone()
				w.setHeader("Authorization", h)
				if g, code, _ := verify(w, ring); g == nil || code != 200 {
					c.Failf("verify:rejects-respelled-header:"+kind, "a legal re-spelling (%s) of the Authorization header is refused (code %d): %q", kind, code, h)
				}
				c.Count("verified_respelled")
			}
			if body != nil {
				w := base.clone()
				w.body = gen.Scramble(tr).Bytes(body)
				if g, code, _ := verify(w, ring); g == nil || code != 200 {
					c.Failf("verify:rejects-reserialised-body", "the same JSON body in another serialisation is refused (code %d): %q", code, w.body)
				}
				w = base.clone()
				w.setHeader("Content-Type", "application/json; charset=utf-8")
				if g, code, _ := verify(w, ring); g == nil || code != 200 {
					c.Failf("verify:rejects-content-type-params", "Content-Type with a charset parameter is refused (code %d)", code)
				}
			}
			// the origin signs with two of its keys (HTTPRequest then sends one X-Matrix line per key) and the receiver can
			// obtain only one of them: accepted, whichever line comes first on the wire
			if tr.Chance(0.35) {
				id2 := gen.NewIdentity(kr, origin, "ed25519:second")
				fr2 := fclient.NewFederationRequest(method, spec.ServerName(origin), spec.ServerName(dest), uri)
				if body != nil {
					_ = fr2.SetContent(spec.RawJSON(gen.Plain().Bytes(body)))
				}
				e1 := fr2.Sign(spec.ServerName(origin), gmsl.KeyID(keyID), id.Priv)
				e2 := fr2.Sign(spec.ServerName(origin), "ed25519:second", id2.Priv)
				if hr2, err := fr2.HTTPRequest(); e1 == nil && e2 == nil && err == nil {
					lines := hr2.Header.Values("Authorization")
					if len(lines) != 2 {
						c.Failf("sign:two-keys:header-lines", "a request signed with two keys is sent with %d Authorization lines: %q", len(lines), lines)
					} else {
						for _, known := range []string{keyID, "ed25519:second"} {
							db2 := newMemKeyDB()
							if known == keyID {
								db2.set(origin, keyID, id.Pub, nowMs+24*3600*1000, 0)
							} else {
								db2.set(origin, "ed25519:second", id2.Pub, nowMs+24*3600*1000, 0)
							}
							for _, order := range [][2]int{{0, 1}, {1, 0}} {
								w := base.clone()
								w.delHeader("Authorization")
								w.headers = append(w.headers, [2]string{"Authorization", lines[order[0]]}, [2]string{"Authorization", lines[order[1]]})
								c.Count("verified_two_key_requests")
								g, code, _ := verify(w, &gmsl.KeyRing{KeyDatabase: db2})
								if g == nil || code != 200 {
									c.Failf("verify:rejects-genuine:two-keys-one-known", "a request signed with two keys of its origin, of which the receiver knows %s, is refused (code %d) with the lines in this order: %q, %q", known, code, lines[order[0]], lines[order[1]])
								} else if g.Method() != strings.ToUpper(method) || g.RequestURI() != uri || string(g.Origin()) != origin || string(g.Destination()) != dest {
									c.Failf("verify:reports-other-fields", "accepted two-key request reports method=%q uri=%q origin=%q dest=%q", g.Method(), g.RequestURI(), g.Origin(), g.Destination())
								}
							}
						}
					}
				}
			}
			// a key ID with a comma in it (any string can be a key ID in this API): either HTTPRequest refuses to send it, or
			// what it sends is read back
			if tr.Chance(0.15) {
				oddKey := gen.Pick(tr, []string{"ed25519:a,b", "ed25519:,", "ed25519:1,key=x"})
				id3 := gen.NewIdentity(kr, origin, oddKey)
				fr3 := fclient.NewFederationRequest(method, spec.ServerName(origin), spec.ServerName(dest), uri)
				if body != nil {
					_ = fr3.SetContent(spec.RawJSON(gen.Plain().Bytes(body)))
				}
				if err := fr3.Sign(spec.ServerName(origin), gmsl.KeyID(oddKey), id3.Priv); err == nil {
					if hr3, err := fr3.HTTPRequest(); err == nil {
						w := base.clone()
						w.delHeader("Authorization")
						for _, l := range hr3.Header.Values("Authorization") {
							w.headers = append(w.headers, [2]string{"Authorization", l})
						}
						db3 := newMemKeyDB()
						db3.set(origin, oddKey, id3.Pub, nowMs+24*3600*1000, 0)
						c.Count("verified_comma_key_requests")
						if g, code, _ := verify(w, &gmsl.KeyRing{KeyDatabase: db3}); g == nil || code != 200 {
							c.Failf("verify:rejects-genuine:key-id-with-comma", "HTTPRequest sends a request signed with key %q as %q, which VerifyHTTPRequest cannot read back (code %d)", oddKey, hr3.Header.Values("Authorization"), code)
						}
					} else {
						c.Count("comma_key_requests_refused_by_HTTPRequest")
					}
				}
			}
			// soundness: tamperings
			tampers := map[string]func(w *wireReq) bool{
				"method": func(w *wireReq) bool {
					for _, m := range []string{"GET", "PUT", "POST", "DELETE"} {
						if m != w.method {
							w.method = m
							return true
						}
					}
					return false
				},
				// methods are case-sensitive tokens: what was signed is the upper-case one
				"method-other-case": func(w *wireReq) bool {
					w.method = gen.Pick(tr, []string{strings.ToLower(w.method), strings.Title(strings.ToLower(w.method))})
					return true
				},
				"path-append":  func(w *wireReq) bool { p, q, _ := strings.Cut(w.uri, "?"); w.uri = p + "x"; if q != "" { w.uri += "?" + q }; return true },
				"path-prefix":  func(w *wireReq) bool { w.uri = "/extra" + w.uri; return true },
				"query-add":    func(w *wireReq) bool { if strings.Contains(w.uri, "?") { w.uri += "&admin=1" } else { w.uri += "?admin=1" }; return true },
				"query-remove": func(w *wireReq) bool { p, _, ok := strings.Cut(w.uri, "?"); w.uri = p; return ok },
				// U+FFFD is what invalid UTF-8 is silently turned into when the signed object is rebuilt: a URI whose
				// replacement characters became arbitrary invalid bytes on the way is a different URI
				"uri-replacement-char-to-invalid-byte": func(w *wireReq) bool {
					if !strings.Contains(w.uri, "\uFFFD") {
						return false
					}
					w.uri = strings.Replace(w.uri, "\uFFFD", gen.Pick(tr, []string{"\xff", "\xe9", "\x80", "\xc3"}), 1)
					return true
				},
				"bare-?-added": func(w *wireReq) bool {
					if strings.Contains(w.uri, "?") {
						return false
					}
					w.uri += "?"
					return true
				},
				"bare-?-removed": func(w *wireReq) bool {
					if !strings.HasSuffix(w.uri, "?") {
						return false
					}
					w.uri = strings.TrimSuffix(w.uri, "?")
					return true
				},
				"path-unescape": func(w *wireReq) bool {
					if !strings.Contains(w.uri, "%2F") {
						return false
					}
					w.uri = strings.Replace(w.uri, "%2F", "/", 1)
					return true
				},
				"origin-other-known": func(w *wireReq) bool { x := xm; x.origin = other; w.setHeader("Authorization", x.String()); return true },
				"origin-unknown":     func(w *wireReq) bool { x := xm; x.origin = "nobody.example"; w.setHeader("Authorization", x.String()); return true },
				"origin-invalid":     func(w *wireReq) bool { x := xm; x.origin = "not a server name"; w.setHeader("Authorization", x.String()); return true },
				"origin-empty":       func(w *wireReq) bool { x := xm; x.origin = ""; w.setHeader("Authorization", x.String()); return true },
				"destination-foreign": func(w *wireReq) bool { x := xm; x.dest = "elsewhere.example"; w.setHeader("Authorization", x.String()); return true },
				"destination-other-local": func(w *wireReq) bool {
					if !multiLocal {
						return false
					}
					x := xm
					x.dest = "second-local.example"
					w.setHeader("Authorization", x.String())
					return true
				},
				"key-id":        func(w *wireReq) bool { x := xm; x.key = xm.key + "x"; w.setHeader("Authorization", x.String()); return true },
				"key-empty":     func(w *wireReq) bool { x := xm; x.key = ""; w.setHeader("Authorization", x.String()); return true },
				"sig-bitflip": func(w *wireReq) bool {
					b, err := base64.RawStdEncoding.DecodeString(xm.sig)
					if err != nil {
						return false
					}
					b[tr.Intn(len(b))] ^= 1 << uint(tr.Intn(8))
					x := xm
					x.sig = base64.RawStdEncoding.EncodeToString(b)
					w.setHeader("Authorization", x.String())
					return true
				},
				"sig-empty":       func(w *wireReq) bool { x := xm; x.sig = ""; w.setHeader("Authorization", x.String()); return true },
				"sig-truncated":   func(w *wireReq) bool { x := xm; x.sig = xm.sig[:len(xm.sig)-4]; w.setHeader("Authorization", x.String()); return true },
				"header-absent":   func(w *wireReq) bool { w.delHeader("Authorization"); return true },
				"header-basic":    func(w *wireReq) bool { w.setHeader("Authorization", "Basic dXNlcjpwYXNz"); return true },
				"header-no-params": func(w *wireReq) bool { w.setHeader("Authorization", "X-Matrix"); return true },
				"header-garbage":  func(w *wireReq) bool { w.setHeader("Authorization", "X-Matrix origin,key,sig"); return true },
				// correct values in a parameter list that is not a list of name=token / name="quoted-string" pairs
				"header-origin-unterminated-quote": func(w *wireReq) bool {
					w.setHeader("Authorization", fmt.Sprintf("X-Matrix origin=\"%s,key=\"%s\",sig=\"%s\",destination=\"%s\"", xm.origin, xm.key, xm.sig, xm.dest))
					return true
				},
				"header-origin-unopened-quote": func(w *wireReq) bool {
					w.setHeader("Authorization", fmt.Sprintf("X-Matrix origin=%s\",key=\"%s\",sig=\"%s\",destination=\"%s\"", xm.origin, xm.key, xm.sig, xm.dest))
					return true
				},
				"header-doubled-quotes": func(w *wireReq) bool {
					w.setHeader("Authorization", fmt.Sprintf("X-Matrix origin=\"\"%s\"\",key=\"%s\",sig=\"%s\",destination=\"%s\"", xm.origin, xm.key, xm.sig, xm.dest))
					return true
				},
				"header-sig-unterminated-quote": func(w *wireReq) bool {
					w.setHeader("Authorization", fmt.Sprintf("X-Matrix origin=\"%s\",key=\"%s\",sig=\"%s,destination=\"%s\"", xm.origin, xm.key, xm.sig, xm.dest))
					return true
				},
				"header-destination-unterminated-quote": func(w *wireReq) bool {
					w.setHeader("Authorization", fmt.Sprintf("X-Matrix origin=\"%s\",key=\"%s\",sig=\"%s\",destination=\"%s", xm.origin, xm.key, xm.sig, xm.dest))
					return true
				},
				"header-junk-member": func(w *wireReq) bool {
					w.setHeader("Authorization", xm.String()+",!!! not a parameter !!!")
					return true
				},
				"header-lone-quote-member": func(w *wireReq) bool { w.setHeader("Authorization", xm.String()+",\""); return true },
				// a parameter name is a token: white space that is not SP / HTAB around it makes the header malformed
				"header-odd-space-around-param-name": func(w *wireReq) bool {
					sp := gen.Pick(tr, []string{"\u00a0", "\u0085", "\u2003", "\u3000"})
					h := xm.String()
					if tr.Chance(0.5) {
						h = strings.Replace(h, ",key=", ","+sp+"key=", 1)
					} else {
						h = strings.Replace(h, "origin=", "origin"+sp+"=", 1)
					}
					w.setHeader("Authorization", h)
					return true
				},
				// every parameter occurs once: a second origin / destination / key / sig in front of the real one
				"header-repeated-parameter": func(w *wireReq) bool {
					decoy := gen.Pick(tr, []string{`origin="` + other + `"`, `destination="somewhere.else.example"`, `key="ed25519:zzz"`, `sig="AAAA"`,
						`origin=""`, `origin=`, `destination=""`, `key=""`, `sig=""`, `sig=`})
					w.setHeader("Authorization", "X-Matrix "+decoy+","+strings.TrimPrefix(xm.String(), "X-Matrix "))
					return true
				},
				// several X-Matrix lines (one per key) all speak about one request: a line naming another destination,
				// in front of the genuine one or behind it
				"header-second-line-names-another-destination": func(w *wireReq) bool {
					x := xm
					x.dest, x.key, x.sig = gen.Pick(tr, []string{"not.mine.example", other}), "ed25519:zzz", "AAAA"
					if multiLocal && x.dest == other {
						x.dest = "not.mine.example"
					}
					if tr.Chance(0.7) {
						w.delHeader("Authorization")
						w.headers = append(w.headers, [2]string{"Authorization", x.String()}, [2]string{"Authorization", xm.String()})
					} else {
						w.headers = append(w.headers, [2]string{"Authorization", x.String()})
					}
					return true
				},
				// ... and a line in the older form (no destination parameter) does not take back what another line said: a
				// request one of whose lines names a foreign destination is for that server, whatever the order of the lines
				"header-foreign-destination-next-to-line-without-destination": func(w *wireReq) bool {
					x := xm
					x.dest = "not.mine.example"
					older := fmt.Sprintf("X-Matrix origin=\"%s\",key=\"%s\",sig=\"%s\"", xm.origin, xm.key, xm.sig)
					w.delHeader("Authorization")
					if tr.Chance(0.5) {
						w.headers = append(w.headers, [2]string{"Authorization", x.String()}, [2]string{"Authorization", older})
					} else {
						w.headers = append(w.headers, [2]string{"Authorization", older}, [2]string{"Authorization", x.String()})
					}
					return true
				},
				// two lines for the same key ID that disagree on the signature: one set of headers, one verdict - and no
				// reading of it makes the request well-formed
				"header-same-key-on-two-lines": func(w *wireReq) bool {
					x := xm
					x.sig = strings.Repeat("A", 86)
					if tr.Chance(0.5) {
						w.delHeader("Authorization")
						w.headers = append(w.headers, [2]string{"Authorization", x.String()}, [2]string{"Authorization", xm.String()})
					} else {
						w.headers = append(w.headers, [2]string{"Authorization", x.String()})
					}
					return true
				},
				// a second line whose origin is the first one's in another letter case: another origin (or, to a reader that
				// folds case, the same one - then with a key of its own); never a reason to fall over
				"header-second-line-origin-in-another-case": func(w *wireReq) bool {
					x := xm
					x.origin = strings.ToUpper(xm.origin[:1]) + xm.origin[1:]
					if x.origin == xm.origin {
						x.origin = strings.ToUpper(xm.origin)
					}
					if x.origin == xm.origin {
						return false
					}
					x.key = "ed25519:other"
					w.headers = append(w.headers, [2]string{"Authorization", x.String()})
					return true
				},
				// an unquoted parameter value is a token (older servers also leave the colon of a port unquoted): blanks, an
				// empty value or non-ASCII make the header malformed, also on a parameter nobody reads
				"header-unquoted-value-not-a-token": func(w *wireReq) bool {
					switch tr.Intn(3) {
					case 0:
						w.setHeader("Authorization", xm.String()+gen.Pick(tr, []string{",x=a b c", ",x=a\tb", ",x=", ",x=é", ",x=a;b"}))
					case 1:
						w.setHeader("Authorization", fmt.Sprintf("X-Matrix origin=\"%s\",key=\"%s\",sig=\"%s\",destination=", xm.origin, xm.key, xm.sig))
					default:
						w.setHeader("Authorization", fmt.Sprintf("X-Matrix origin=\"%s\",key=\"%s\",sig=\"%s\",destination= ,x=1", xm.origin, xm.key, xm.sig))
					}
					return true
				},
				"header-conflicting-origins": func(w *wireReq) bool {
					x := xm
					x.origin = other
					w.headers = append(w.headers, [2]string{"Authorization", x.String()})
					return true
				},
				"body-value-changed": func(w *wireReq) bool {
					if body == nil || body.K != ref.Obj {
						return false
					}
					b := body.Clone()
					b.Set("zz_injected", ref.B(true))
					w.body = gen.Plain().Bytes(b)
					return true
				},
				"body-byte-changed": func(w *wireReq) bool {
					if body == nil {
						return false
					}
					// change one byte so that the JSON value changes but stays JSON
					m := mutations(tr, ref.O("b", body))
					for _, v := range m {
						if nb := v.Get("b"); nb != nil && !ref.Equal(nb, body) {
							w.body = gen.Plain().Bytes(nb)
							return true
						}
					}
					return false
				},
				"body-removed": func(w *wireReq) bool {
					if body == nil {
						return false
					}
					w.body = nil
					return true
				},
				"body-added": func(w *wireReq) bool {
					if body != nil {
						return false
					}
					w.body = []byte(`{"injected":true}`)
					w.setHeader("Content-Type", "application/json")
					return true
				},
				"content-type-text": func(w *wireReq) bool {
					if body == nil {
						return false
					}
					w.setHeader("Content-Type", "text/plain")
					return true
				},
				"content-type-missing": func(w *wireReq) bool {
					if body == nil {
						return false
					}
					w.delHeader("Content-Type")
					return true
				},
				// an escape of half a surrogate pair denotes no character: the canonical form drops it, so the body with and
				// without it would share a signature although they are different texts (and decode differently)
				"body-lone-surrogate-escape-inserted": func(w *wireReq) bool {
					if body == nil || body.K != ref.Obj || len(body.O) == 0 {
						return false
					}
					i := bytes.IndexByte(w.body, '"')
					if i < 0 {
						return false
					}
					esc := gen.Pick(tr, []string{`\ud800`, `\udc00`, `\uDBFF`})
					w.body = append(append(append([]byte{}, w.body[:i+1]...), esc...), w.body[i+1:]...)
					return true
				},
				"body-not-utf8": func(w *wireReq) bool {
					if body == nil {
						return false
					}
					w.body = append(append([]byte{}, w.body[:len(w.body)-1]...), 0xff, w.body[len(w.body)-1])
					return true
				},
				"body-not-json": func(w *wireReq) bool {
					if body == nil {
						return false
					}
					w.body = []byte("{not json")
					return true
				},
			}
			for kind, f := range tampers {
				w := base.clone()
				if !f(&w) {
					continue
				}
				c.Count("verified_tampered")
				g, code, err := verify(w, ring)
				if err != nil {
					continue // net/http itself refused the request
				}
				if g != nil || code == 200 {
					c.Failf("verify:accepts-tampered:"+kind, "VerifyHTTPRequest accepted a request after %s (code %d): %s %s auth=%q body=%q", kind, code, w.method, w.uri, w.header("Authorization"), trunc(w.body))
				}
			}
			// key validity at the time of receipt
			for kind, set := range map[string]func(d *memKeyDB){
				"key-valid-until-past": func(d *memKeyDB) { d.set(origin, keyID, id.Pub, nowMs-3600*1000, 0) },
				"key-expired":          func(d *memKeyDB) { d.set(origin, keyID, id.Pub, 0, nowMs-3600*1000) },
				"key-wrong":            func(d *memKeyDB) { d.set(origin, keyID, otherID.Pub, nowMs+24*3600*1000, 0) },
				"key-unknown":          func(d *memKeyDB) { delete(d.keys, keyReq{ServerName: spec.ServerName(origin), KeyID: gmsl.KeyID(keyID)}) },
			} {
				d2 := newMemKeyDB()
				d2.set(origin, keyID, id.Pub, nowMs+24*3600*1000, 0)
				set(d2)
				c.Count("verified_key_faults")
				if g, code, _ := verify(base, &gmsl.KeyRing{KeyDatabase: d2}); g != nil || code == 200 {
					c.Failf("verify:accepts-with:"+kind, "VerifyHTTPRequest accepted a request although the signing key is %s", kind)
				}
			}
			// receipt when the receiver does not own the destination at all
			{
				req, _ := base.parse()
				g, resp := fclient.VerifyHTTPRequest(req, now, "somebody-else.example", nil, ring)
				if g != nil || resp.Code == 200 {
					c.Failf("verify:accepts-tampered:receiver-not-destination", "a server that does not own %q accepted the request", dest)
				}
				// the same with a receiver that owns several names, none of them the destination
				req, _ = base.parse()
				owns := func(s spec.ServerName) bool { return s == "somebody-else.example" || s == "alias.example" || string(s) == other }
				g, resp = fclient.VerifyHTTPRequest(req, now, "somebody-else.example", owns, ring)
				if g != nil || resp.Code == 200 {
					c.Failf("verify:accepts-tampered:multi-name-receiver-not-destination", "a server owning several names but not %q accepted the request", dest)
				}
				c.Count("verified_foreign_receiver")
			}
			if c.WantSample() && len(base.body) < 300 {
				c.Sample(map[string]any{"request_line": base.method + " " + base.uri, "host": base.host, "headers": base.headers, "body": string(base.body)})
			}
		})
	}
	// genuine signatures by origins whose name is not a server name
	for _, bad := range c13invalidOrigins {
		if v, _, _ := ref.ServerName(bad); v == ref.Valid {
			panic("harness bug: reference grammar accepts " + bad)
		}
	}
	nBad := c.Scale(60, 6000)
	for k := 0; k < nBad; k++ {
		origin := c13invalidOrigins[k%len(c13invalidOrigins)]
		dest := gen.Pick(r, c13names)
		method := gen.Pick(r, []string{"GET", "PUT", "POST"})
		uri := gen.Pick(r, c13paths) + gen.Pick(r, c13queries)
		id := gen.NewIdentity(kr, origin, "ed25519:1")
		c.Case("invalid-origin", map[string]any{"method": method, "uri": uri, "origin": origin, "destination": dest}, func() {
			fr := fclient.NewFederationRequest(method, spec.ServerName(origin), spec.ServerName(dest), uri)
			if method != "GET" {
				if err := fr.SetContent(spec.RawJSON(`{"a":1}`)); err != nil {
					return
				}
			}
			if err := fr.Sign(spec.ServerName(origin), "ed25519:1", id.Priv); err != nil {
				c.Count("invalid_origin_sign_refused")
				return
			}
			hr, err := fr.HTTPRequest()
			if err != nil {
				c.Count("invalid_origin_request_refused")
				return
			}
			var buf bytes.Buffer
			if err := hr.Write(&buf); err != nil {
				return
			}
			req, err := http.ReadRequest(bufio.NewReader(bytes.NewReader(buf.Bytes())))
			if err != nil {
				c.Count("invalid_origin_unframeable")
				return
			}
			db := newMemKeyDB()
			db.set(origin, "ed25519:1", id.Pub, nowMs+24*3600*1000, 0)
			got, resp := fclient.VerifyHTTPRequest(req, now, spec.ServerName(dest), nil, &gmsl.KeyRing{KeyDatabase: db})
			c.Count("verified_invalid_origin")
			c.Nontrivial("invalid-origin|" + origin + "|" + method + uri)
			if got != nil || resp.Code == 200 {
				c.Failf("verify:accepts-invalid-origin", "VerifyHTTPRequest accepted a request whose X-Matrix origin %q is not a valid server name", origin)
			}
		})
	}
	// what is no method: the request is refused when it is built, or what is sent is what was signed
	if c.Shard == 0 {
		id := gen.NewIdentity(c.RandShared("method-signer"), "origin.example", "ed25519:m1")
		for _, method := range []string{"", " ", "GE T", "G\x00T", "GET\r\nX-Injected: 1"} {
			c.Case("request:odd-method", map[string]any{"method": method}, func() {
				c.Nontrivial("odd-method|" + method)
				fr := fclient.NewFederationRequest(method, "origin.example", "dest.example", "/_matrix/federation/v1/version")
				if err := fr.Sign("origin.example", gmsl.KeyID(id.KeyID), id.Priv); err != nil {
					return
				}
				hr, err := fr.HTTPRequest()
				c.Count("odd_method_requests")
				if err != nil {
					return
				}
				var buf bytes.Buffer
				if err := hr.Write(&buf); err != nil {
					return
				}
				parsed, err := http.ReadRequest(bufio.NewReader(bytes.NewReader(buf.Bytes())))
				if err != nil {
					c.Failf("sign:http-request-cannot-be-read-back", "HTTPRequest builds a request with the method %q that no HTTP server can read (%v)", method, err)
					return
				}
				db := newMemKeyDB()
				db.set("origin.example", id.KeyID, id.Pub, time.Now().UnixMilli()+24*3600*1000, 0)
				got, resp := fclient.VerifyHTTPRequest(parsed, time.Now(), "dest.example", nil, &gmsl.KeyRing{KeyDatabase: db})
				if got == nil || resp.Code != 200 || got.Method() != fr.Method() {
					c.Failf("sign:http-request-is-not-the-request-that-was-signed:method", "a request signed with the method %q is built by HTTPRequest, goes out as %q and is answered %d by VerifyHTTPRequest: neither refused when built nor delivered as signed", method, parsed.Method, resp.Code)
				}
			})
		}
	}
	c.Floor("verified_untampered", 100)
	c.Floor("verified_tampered", 1000)
	c.Floor("verified_invalid_origin", 30)
}

func trunc(b []byte) string {
	if len(b) > 200 {
		return string(b[:200]) + "…"
	}
	return string(b)
}
