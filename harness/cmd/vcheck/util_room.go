package main

import (
	"crypto/ed25519"
	"encoding/base64"
	"fmt"
	"strings"

	gmsl "github.com/matrix-org/gomatrixserverlib"

	"verif/gen"
	"verif/mon"
	"verif/ref"
)

// toRefEv converts a library event into the view the reference auth model reads.
func toRefEv(p gmsl.PDU) *ref.Ev {
	e := &ref.Ev{ID: p.EventID(), Type: p.Type(), Sender: string(p.SenderID()), StateKey: p.StateKey(), Prev: p.PrevEventIDs(), Redacts: p.Redacts()}
	mon.Guard(func() { e.Room = p.RoomID().String() })
	if cv, _, err := ref.Parse(p.Content()); err == nil {
		e.Content = cv
	}
	if jv, _, err := ref.Parse(p.JSON()); err == nil {
		e.RawRoomID, _ = jv.Get("room_id").Str()
	}
	return e
}

var authUsers = []string{"@creator:origin.example", "@alice:origin.example", "@bob:other.example", "@carol:third.example:8448", "@dave:origin.example"}

var authServers = map[string]*gen.Identity{}

func serverIdentity(server string) *gen.Identity {
	if id, ok := authServers[server]; ok {
		return id
	}
	id := gen.NewIdentity(gen.NewRand(99, "server", server), server, "ed25519:a")
	authServers[server] = id
	return id
}

func serverOf(user string) string {
	i := strings.IndexByte(user, ':')
	if i < 0 {
		return "origin.example"
	}
	return user[i+1:]
}

// world is one room skeleton (a create event and pools of candidate state
// events built for it) for one room version.
type world struct {
	ver     gmsl.RoomVersion
	t       *ref.VersionTraits
	create  gmsl.PDU
	roomID  string
	variant string
	pls     []gmsl.PDU            // candidate power-level events
	jrs     map[string]gmsl.PDU   // by join rule
	members map[[2]string]gmsl.PDU // (user, membership)
	tpi     gmsl.PDU
	tpiNoTok gmsl.PDU // a third-party-invite event whose state key (the token) is the empty string
	tpiKey  ed25519.PrivateKey
	seq     int64
}

func (w *world) build(typ string, sk *string, sender string, content *ref.Value, prev []string, redacts string) (gmsl.PDU, error) {
	w.seq++
	ps := protoSpec{Type: typ, StateKey: sk, Sender: sender, RoomID: w.roomID, Content: gen.Plain().Bytes(content), Prev: prev, Depth: w.seq + 1, Redacts: redacts}
	if prev == nil {
		ps.Prev = []string{w.create.EventID()}
	}
	if !w.t.Domainless {
		ps.Auth = []string{w.create.EventID()}
	}
	return buildEvent(w.ver, ps, serverIdentity(serverOf(sender)), baseTime.Add(0))
}

func (w *world) mustBuild(typ string, sk *string, sender string, content *ref.Value) gmsl.PDU {
	p, err := w.build(typ, sk, sender, content, nil, "")
	if err != nil {
		panic(fmt.Sprintf("harness: cannot build %s for v%s: %v", typ, w.ver, err))
	}
	return p
}

// plLevels are the values thresholds and user levels are drawn from.
var plLevels = []int64{0, 25, 50, 75, 100}

func lvl(r *gen.Rand, t *ref.VersionTraits) *ref.Value {
	n := gen.Pick(r, plLevels)
	if !t.IntegerPLs && r.Chance(0.08) {
		return ref.S(fmt.Sprintf(" %d", n)) // D10: integer-like strings
	}
	return ref.I(n)
}

func randPLContent(r *gen.Rand, t *ref.VersionTraits, creators []string) *ref.Value {
	c := ref.O()
	for _, k := range []string{"ban", "kick", "invite", "redact", "state_default", "events_default", "users_default"} {
		if r.Chance(0.5) {
			c.Set(k, lvl(r, t))
		}
	}
	if r.Chance(0.85) {
		u := ref.O()
		for _, user := range authUsers {
			if r.Chance(0.55) {
				isCreator := false
				for _, cr := range creators {
					if cr == user {
						isCreator = true
					}
				}
				if isCreator && t.PLCreatorCheck {
					continue
				}
				u.Set(user, lvl(r, t))
			}
		}
		c.Set("users", u)
	}
	if r.Chance(0.6) {
		e := ref.O()
		for _, typ := range []string{"m.room.topic", "m.room.message", "m.room.power_levels", "m.room.third_party_invite", "com.example.custom", "m.room.redaction", "m.room.name"} {
			if r.Chance(0.35) {
				e.Set(typ, lvl(r, t))
			}
		}
		c.Set("events", e)
	}
	if r.Chance(0.4) {
		n := ref.O()
		for _, k := range []string{"room", "custom"} {
			if r.Chance(0.6) {
				n.Set(k, lvl(r, t))
			}
		}
		c.Set("notifications", n)
	}
	return c
}

// newWorld builds the create event and the pools.
func newWorld(r *gen.Rand, ver gmsl.RoomVersion, variant string, nPL int) *world {
	t := ref.Traits(string(ver))
	w := &world{ver: ver, t: t, variant: variant, jrs: map[string]gmsl.PDU{}, members: map[[2]string]gmsl.PDU{}}
	creator := authUsers[0]
	cc := ref.O("creator", ref.S(creator), "room_version", ref.S(string(ver)))
	creators := []string{creator}
	switch variant {
	case "plain":
	case "unfederated":
		cc.Set("m.federate", ref.B(false))
	case "federated-explicit":
		cc.Set("m.federate", ref.B(true))
		if t.PrivCreators {
			cc.Set("additional_creators", ref.A(ref.S(authUsers[1])))
			creators = append(creators, authUsers[1])
		}
	case "no-room-version":
		cc.Del("room_version")
	}
	ps := protoSpec{Type: "m.room.create", StateKey: strp(""), Sender: creator, RoomID: "!room" + variant + ":origin.example", Content: gen.Plain().Bytes(cc), Depth: 1}
	if t.Domainless {
		ps.RoomID = ""
	}
	ce, err := buildEvent(ver, ps, serverIdentity("origin.example"), baseTime)
	if err != nil {
		panic(fmt.Sprintf("harness: cannot build create event for v%s: %v", ver, err))
	}
	w.create = ce
	w.roomID = ce.RoomID().String()
	for i := 0; i < nPL; i++ {
		w.pls = append(w.pls, w.mustBuild("m.room.power_levels", strp(""), creator, randPLContent(r, t, creators)))
	}
	for _, jr := range []string{"public", "invite", "knock", "restricted", "knock_restricted", "private"} {
		c := ref.O("join_rule", ref.S(jr))
		if strings.Contains(jr, "restricted") {
			c.Set("allow", ref.A(ref.O("type", ref.S("m.room_membership"), "room_id", ref.S("!other:origin.example"))))
		}
		w.jrs[jr] = w.mustBuild("m.room.join_rules", strp(""), creator, c)
	}
	for _, u := range authUsers {
		for _, m := range []string{"join", "leave", "invite", "ban", "knock"} {
			sender := u
			if m == "invite" || m == "ban" {
				sender = creator
			}
			w.members[[2]string{u, m}] = w.mustBuild("m.room.member", strp(u), sender, ref.O("membership", ref.S(m)))
		}
	}
	w.tpiKey = ed25519.NewKeyFromSeed(r.Bytes(32))
	pub := base64.RawStdEncoding.EncodeToString(w.tpiKey.Public().(ed25519.PublicKey))
	w.tpi = w.mustBuild("m.room.third_party_invite", strp("tok1"), creator, ref.O("display_name", ref.S("b...@example.org"), "key_validity_url", ref.S("https://id.example/valid"),
		"public_key", ref.S(pub), "public_keys", ref.A(ref.O("public_key", ref.S(pub), "key_validity_url", ref.S("https://id.example/valid")))))
	w.tpiNoTok = w.mustBuild("m.room.third_party_invite", strp(""), creator, ref.O("display_name", ref.S("c...@example.org"), "key_validity_url", ref.S("https://id.example/valid"),
		"public_key", ref.S(pub), "public_keys", ref.A(ref.O("public_key", ref.S(pub), "key_validity_url", ref.S("https://id.example/valid")))))
	return w
}

// signedTPI builds the third_party_invite member-content object.
func (w *world) signedTPI(mxid, token string, good bool) *ref.Value {
	payload := ref.Canon(ref.O("mxid", ref.S(mxid), "token", ref.S(token)))
	key := w.tpiKey
	if !good {
		key = ed25519.NewKeyFromSeed(make([]byte, 32))
	}
	sig := base64.RawStdEncoding.EncodeToString(ed25519.Sign(key, payload))
	return ref.O("display_name", ref.S("b...@example.org"), "signed", ref.O("mxid", ref.S(mxid), "token", ref.S(token), "signatures", ref.O("id.example", ref.O("ed25519:0", ref.S(sig)))))
}

var worldVariants = []string{"plain", "unfederated", "federated-explicit", "no-room-version"}
