package ref

import (
	"crypto/sha1"
	"bytes"
	"sort"
)

// Reference state resolution (DESIGN.md appendix C, refinements R1-R7).
// Plain maps and slices, nothing cached, every event authorised through a
// callback on a fresh state.

// SEv is the view of a state event the resolvers need.
type SEv struct {
	ID       string
	Type     string
	StateKey string
	Sender   string
	Auth     []string
	TS       int64
	Depth    int64
	// Membership is content.membership of member events ("" when unreadable).
	Membership string
	// Content is the parsed content (used for power levels).
	Content *Value
}

// SKey is a (type, state_key) pair.
type SKey struct{ Type, Key string }

func (e *SEv) Key() SKey { return SKey{e.Type, e.StateKey} }

// ResInput is one resolution problem.
type ResInput struct {
	T        *VersionTraits
	Sets     [][]string          // state sets (event IDs)
	Events   map[string]*SEv     // every event mentioned anywhere
	AuthMap  map[string]bool     // IDs supplied in the auth-events list (links are only followed inside it)
	Rejected func(string) bool   // caller's rejected-event oracle
	Creators []string            // for versions with privileged creators
	// Allowed authorises an event against a state (key -> event ID).
	Allowed func(ev string, state map[SKey]string) bool
	// Needed returns the (type, state_key) pairs the event's auth check reads.
	Needed func(ev string) []SKey
}

// ResTrace reports which paths an execution exercised.
type ResTrace struct {
	ConflictedPower, ConflictedOther int
	FallbackUsed                     bool
	AuthDiff, Subgraph               int
	PowerOrder, OtherOrder           []string
	Rejected                         []string
}

func isPower(e *SEv) bool {
	switch e.Type {
	case "m.room.power_levels", "m.room.join_rules":
		return e.StateKey == ""
	case "m.room.member":
		return e.StateKey != "" && e.StateKey != e.Sender && (e.Membership == "leave" || e.Membership == "ban")
	}
	return false
}

// ResolveV2 implements state resolution v2 (alg 2) and v2.1 (alg 3).
func ResolveV2(in *ResInput) (map[SKey]string, *ResTrace) {
	tr := &ResTrace{}
	alg := in.T.StateRes
	// 1. split
	unconf := map[SKey]string{}
	conflicted := map[string]bool{}
	byKey := map[SKey]map[string]int{}
	for _, set := range in.Sets {
		for _, id := range set {
			e := in.Events[id]
			if byKey[e.Key()] == nil {
				byKey[e.Key()] = map[string]int{}
			}
			byKey[e.Key()][id]++
		}
	}
	for k, ids := range byKey {
		if len(ids) == 1 {
			for id, n := range ids {
				if n == len(in.Sets) {
					unconf[k] = id
				} else {
					conflicted[id] = true
				}
			}
			continue
		}
		for id := range ids {
			conflicted[id] = true
		}
	}
	unconfIDs := map[string]bool{}
	for _, id := range unconf {
		unconfIDs[id] = true
	}
	// 2. auth difference
	chain := func(set []string) map[string]bool {
		seen := map[string]bool{}
		var walk func(id string)
		walk = func(id string) {
			for _, a := range in.Events[id].Auth {
				if !in.AuthMap[a] || seen[a] {
					continue
				}
				seen[a] = true
				walk(a)
			}
		}
		for _, id := range set {
			walk(id)
		}
		return seen
	}
	chains := make([]map[string]bool, len(in.Sets))
	union := map[string]bool{}
	for i, set := range in.Sets {
		chains[i] = chain(set)
		for id := range chains[i] {
			union[id] = true
		}
	}
	full := map[string]bool{}
	for id := range conflicted {
		full[id] = true
	}
	for id := range union {
		inAll := true
		for _, c := range chains {
			if !c[id] {
				inAll = false
			}
		}
		if !inAll {
			full[id] = true
			tr.AuthDiff++
		}
	}
	// 3. conflicted subgraph (v2.1): events on an auth path from a conflicted event to a conflicted event
	if alg == 3 {
		// reaches[x] = x can reach a conflicted event (itself included) along auth links inside AuthMap
		memo := map[string]int{}
		var reaches func(id string) bool
		reaches = func(id string) bool {
			if v, ok := memo[id]; ok {
				return v == 1
			}
			memo[id] = 0
			r := conflicted[id]
			for _, a := range in.Events[id].Auth {
				if in.AuthMap[a] && reaches(a) {
					r = true
				}
			}
			if r {
				memo[id] = 1
			}
			return r
		}
		seen := map[string]bool{}
		var down func(id string)
		down = func(id string) {
			if seen[id] {
				return
			}
			seen[id] = true
			if reaches(id) {
				if !full[id] {
					tr.Subgraph++
				}
				full[id] = true
			}
			for _, a := range in.Events[id].Auth {
				if in.AuthMap[a] {
					down(a)
				}
			}
		}
		for id := range conflicted {
			down(id)
		}
	}
	for id := range unconfIDs {
		delete(full, id)
	}
	// 4. power set with conflicted auth ancestry (R3)
	power := map[string]bool{}
	var pull func(id string)
	pull = func(id string) {
		if power[id] {
			return
		}
		power[id] = true
		for _, a := range in.Events[id].Auth {
			if conflicted[a] {
				pull(a)
			}
		}
	}
	for id := range full {
		if isPower(in.Events[id]) {
			pull(id)
		}
	}
	others := []string{}
	for id := range full {
		if !power[id] && !isPower(in.Events[id]) {
			others = append(others, id)
		}
	}
	tr.ConflictedPower, tr.ConflictedOther = len(power), len(others)
	// 5. reverse topological power ordering (R1, R2)
	senderPower := func(e *SEv) int64 {
		if in.T.PrivCreators {
			for _, c := range in.Creators {
				if c == e.Sender {
					return creatorLevel
				}
			}
		}
		for _, a := range e.Auth {
			if !in.AuthMap[a] {
				continue
			}
			ae := in.Events[a]
			if ae.Type != "m.room.power_levels" || ae.StateKey != "" {
				continue
			}
			pl, st := ParsePL(in.T, ae.Content)
			if st == plBad {
				return 0
			}
			return pl.userLevel(e.Sender)
		}
		return 0
	}
	type pe struct {
		id    string
		power int64
		ts    int64
	}
	less := func(a, b pe) bool { // a sorts before b: higher power, earlier ts, smaller id
		if a.power != b.power {
			return a.power > b.power
		}
		if a.ts != b.ts {
			return a.ts < b.ts
		}
		return a.id < b.id
	}
	remaining := map[string]pe{}
	for id := range power {
		e := in.Events[id]
		remaining[id] = pe{id, senderPower(e), e.TS}
	}
	var rev []string // built from the newest end
	for len(remaining) > 0 {
		referenced := map[string]bool{}
		for id := range remaining {
			for _, a := range in.Events[id].Auth {
				if _, ok := remaining[a]; ok {
					referenced[a] = true
				}
			}
		}
		var pick *pe
		for id := range remaining {
			if referenced[id] {
				continue
			}
			p := remaining[id]
			if pick == nil || less(*pick, p) {
				q := p
				pick = &q
			}
		}
		if pick == nil {
			// a cycle cannot occur in a DAG; emit the rest in sort order to terminate
			rest := []pe{}
			for _, p := range remaining {
				rest = append(rest, p)
			}
			sort.Slice(rest, func(i, j int) bool { return less(rest[j], rest[i]) })
			for _, p := range rest {
				rev = append(rev, p.id)
			}
			break
		}
		rev = append(rev, pick.id)
		delete(remaining, pick.id)
	}
	powerOrder := make([]string, len(rev))
	for i, id := range rev {
		powerOrder[len(rev)-1-i] = id
	}
	tr.PowerOrder = powerOrder
	// 6. iterative auth
	partial := map[SKey]string{}
	if alg == 2 {
		for k, id := range unconf {
			partial[k] = id
		}
	}
	apply := func(list []string) {
		for _, id := range list {
			e := in.Events[id]
			st := map[SKey]string{}
			for _, k := range in.Needed(id) {
				if have, ok := partial[k]; ok {
					st[k] = have
					continue
				}
				for _, a := range e.Auth { // R5: the event's own auth event of that type/key unless rejected
					if in.Rejected != nil && in.Rejected(a) {
						continue
					}
					if !in.AuthMap[a] {
						continue
					}
					ae := in.Events[a]
					if ae.Type == k.Type && ae.StateKey == k.Key {
						st[k] = a
						tr.FallbackUsed = true
					}
				}
			}
			if in.Allowed(id, st) {
				partial[e.Key()] = id
			} else {
				tr.Rejected = append(tr.Rejected, id)
			}
		}
	}
	apply(powerOrder)
	// 7. mainline ordering (R4)
	mainPos := map[string]int{}
	if plID, ok := partial[SKey{"m.room.power_levels", ""}]; ok {
		var line []string
		var walk func(id string)
		walk = func(id string) {
			line = append([]string{id}, line...)
			for _, a := range in.Events[id].Auth {
				if in.AuthMap[a] {
					ae := in.Events[a]
					if ae.Type == "m.room.power_levels" && ae.StateKey == "" {
						walk(a)
					}
				}
			}
		}
		walk(plID)
		for i, id := range line {
			mainPos[id] = i
		}
	}
	type oe struct {
		id         string
		pos, steps int
		ts         int64
	}
	var os []oe
	for _, id := range others {
		pos, steps, found := 0, 0, false
		var walk func(id string)
		walk = func(id string) {
			for _, a := range in.Events[id].Auth {
				if !in.AuthMap[a] {
					continue
				}
				ae := in.Events[a]
				if ae.Type != "m.room.power_levels" || ae.StateKey != "" {
					continue
				}
				if p, ok := mainPos[a]; ok {
					if !found {
						pos, found = p, true
					} else {
						pos = p
					}
					return
				}
				steps++
				walk(a)
			}
		}
		walk(id)
		os = append(os, oe{id, pos, steps, in.Events[id].TS})
	}
	sort.SliceStable(os, func(i, j int) bool {
		a, b := os[i], os[j]
		if a.pos != b.pos {
			return a.pos < b.pos
		}
		if a.steps != b.steps {
			return a.steps < b.steps
		}
		if a.ts != b.ts {
			return a.ts < b.ts
		}
		return a.id < b.id
	})
	otherOrder := []string{}
	for _, o := range os {
		otherOrder = append(otherOrder, o.id)
	}
	tr.OtherOrder = otherOrder
	apply(otherOrder)
	// 8. unconflicted state wins
	for k, id := range unconf {
		partial[k] = id
	}
	return partial, tr
}

// ResolveV1 implements state resolution v1 (R6). authState is the auth state the caller supplies (one event per key):
// as the resolver documents the unconflicted one, but callers also pass events for keys that are in conflict.
func ResolveV1(in *ResInput, authState map[SKey]string) map[SKey]string {
	byKey := map[SKey]map[string]bool{}
	for _, set := range in.Sets {
		for _, id := range set {
			e := in.Events[id]
			if byKey[e.Key()] == nil {
				byKey[e.Key()] = map[string]bool{}
			}
			byKey[e.Key()][id] = true
		}
	}
	result := map[SKey]string{}
	auth := map[SKey]string{}
	for k, id := range authState {
		auth[k] = id
	}
	type blk struct {
		key SKey
		ids []string
	}
	sorted := func(ids map[string]bool) []string {
		out := []string{}
		for id := range ids {
			out = append(out, id)
		}
		sort.Slice(out, func(i, j int) bool {
			a, b := in.Events[out[i]], in.Events[out[j]]
			if a.Depth != b.Depth {
				return a.Depth < b.Depth
			}
			ha, hb := sha1.Sum([]byte(a.ID)), sha1.Sum([]byte(b.ID))
			return bytes.Compare(ha[:], hb[:]) > 0
		})
		return out
	}
	var conflictedBlocks []blk
	for k, ids := range byKey {
		if len(ids) > 1 {
			conflictedBlocks = append(conflictedBlocks, blk{k, sorted(ids)})
		} else {
			for id := range ids {
				result[k] = id
			}
		}
	}
	isAuthType := func(t string) bool {
		switch t {
		case "m.room.create", "m.room.power_levels", "m.room.join_rules", "m.room.member", "m.room.third_party_invite":
			return true
		}
		return false
	}
	typeBlocks := func(match func(SKey) bool) []blk {
		out := []blk{}
		for _, b := range conflictedBlocks {
			if match(b.key) {
				out = append(out, b)
			}
		}
		return out
	}
	stages := []func(SKey) bool{
		func(k SKey) bool { return k.Type == "m.room.create" && k.Key == "" },
		func(k SKey) bool { return k.Type == "m.room.power_levels" && k.Key == "" },
		func(k SKey) bool { return k.Type == "m.room.join_rules" && k.Key == "" },
		func(k SKey) bool { return k.Type == "m.room.third_party_invite" },
		func(k SKey) bool { return k.Type == "m.room.member" },
	}
	inAuthStage := func(k SKey) bool {
		for _, s := range stages {
			if s(k) {
				return true
			}
		}
		return false
	}
	for _, stage := range stages {
		stageRes := map[SKey]string{}
		for _, b := range typeBlocks(stage) {
			// (the caller may have supplied an auth event for a key that is in conflict: it is in force for the other
			// blocks of the stage, and for this key it is back in force once the block is done)
			prev, had := auth[b.key]
			cand := b.ids[0]
			auth[b.key] = cand
			for _, id := range b.ids[1:] {
				if in.Allowed(id, auth) {
					cand = id
					auth[b.key] = cand
				} else {
					break
				}
			}
			if had {
				auth[b.key] = prev
			} else {
				delete(auth, b.key)
			}
			stageRes[b.key] = cand
		}
		for k, id := range stageRes {
			auth[k] = id
			result[k] = id
		}
	}
	_ = isAuthType
	for _, b := range conflictedBlocks {
		if inAuthStage(b.key) {
			continue
		}
		pick := b.ids[0]
		for i := len(b.ids) - 1; i > 0; i-- {
			if in.Allowed(b.ids[i], auth) {
				pick = b.ids[i]
				break
			}
		}
		result[b.key] = pick
	}
	return result
}
