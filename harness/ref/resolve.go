package ref

import (
	"net"
	"net/netip"
	"strconv"
	"strings"
)

// Server-name resolution as the Matrix specification prescribes it
// (server-server API, "Resolving server names"), as a decision table.

type Target struct {
	Destination string
	Host        string
	TLSName     string
}

type WellKnown struct {
	OK        bool   // a valid reply naming an m.server was obtained
	Delegated string // the m.server value
}

type SRVRecord struct {
	Target string
	Port   int
}

type SRVAnswer struct {
	Fed, Legacy           []SRVRecord
	FedError, LegacyError bool // lookup error other than "not found"
}

func literalIP(host string) (string, bool) {
	h := strings.TrimSuffix(strings.TrimPrefix(host, "["), "]")
	if _, err := netip.ParseAddr(h); err == nil {
		return h, true
	}
	return "", false
}

// Resolve returns the connection targets for a server name. abstain reports
// that the table does not decide the case (a well-known reply delegating to an
// invalid name).
func Resolve(name string, wk WellKnown, srv SRVAnswer) (targets []Target, invalid bool, usedWellKnown, usedSRV bool) {
	v, host, port := ServerName(name)
	if v != Valid {
		return nil, true, false, false
	}
	direct := func(full, host string, port int) ([]Target, bool) {
		if ip, ok := literalIP(host); ok {
			dest := full
			if port < 0 {
				dest = net.JoinHostPort(ip, "8448")
			}
			return []Target{{dest, full, ip}}, true
		}
		if port >= 0 {
			return []Target{{full, full, host}}, true
		}
		return nil, false
	}
	if t, ok := direct(name, host, port); ok {
		return t, false, false, false
	}
	viaSRV := func(n string) []Target {
		recs := srv.Fed
		if len(srv.Fed) == 0 && !srv.FedError {
			recs = srv.Legacy
			if srv.LegacyError {
				recs = nil
			}
		}
		if srv.FedError {
			recs = nil
		}
		if len(recs) > 0 {
			out := []Target{}
			for _, r := range recs {
				out = append(out, Target{strings.TrimSuffix(r.Target, ".") + ":" + strconv.Itoa(r.Port), n, n})
			}
			return out
		}
		return []Target{{n + ":8448", n, n}}
	}
	if wk.OK {
		dv, dhost, dport := ServerName(wk.Delegated)
		if dv != Valid {
			return nil, true, true, false
		}
		if t, ok := direct(wk.Delegated, dhost, dport); ok {
			return t, false, true, false
		}
		return viaSRV(wk.Delegated), false, true, true
	}
	return viaSRV(name), false, true, true
}
