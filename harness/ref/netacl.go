package ref

import (
	"math/big"
	"net"
)

// NetAllowed is the network policy of the property: an address may be
// connected to iff it lies in no (parsable) denied range and in at least one
// (parsable) allowed range.
func NetAllowed(ip net.IP, allow, deny []string) bool {
	in := func(list []string) bool {
		for _, c := range list {
			_, n, err := net.ParseCIDR(c)
			if err != nil {
				continue
			}
			if n.Contains(ip) {
				return true
			}
		}
		return false
	}
	return !in(deny) && in(allow)
}

// CIDREdges returns addresses on and around the edges of a range: first,
// last, just before, just after, and one in the middle.
func CIDREdges(cidr string) []string {
	_, n, err := net.ParseCIDR(cidr)
	if err != nil {
		return nil
	}
	size := len(n.IP)
	first := new(big.Int).SetBytes(n.IP)
	ones, bits := n.Mask.Size()
	span := new(big.Int).Lsh(big.NewInt(1), uint(bits-ones))
	last := new(big.Int).Sub(new(big.Int).Add(first, span), big.NewInt(1))
	max := new(big.Int).Sub(new(big.Int).Lsh(big.NewInt(1), uint(bits)), big.NewInt(1))
	out := []string{}
	add := func(v *big.Int) {
		if v.Sign() < 0 || v.Cmp(max) > 0 {
			return
		}
		b := v.Bytes()
		ip := make(net.IP, size)
		copy(ip[size-len(b):], b)
		out = append(out, ip.String())
	}
	add(first)
	add(last)
	add(new(big.Int).Sub(first, big.NewInt(1)))
	add(new(big.Int).Add(last, big.NewInt(1)))
	add(new(big.Int).Add(first, new(big.Int).Rsh(span, 1)))
	return out
}
