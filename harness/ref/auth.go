package ref

import (
	"crypto/ed25519"
	"encoding/base64"
	"strconv"
	"strings"
)

// This file is the reference model of the Matrix event authorization rules
// (DESIGN.md appendix B): a rule-by-rule transcription of the "Authorization
// rules" sections of the room-version specifications with the library's
// documented departures D1-D12 applied. It reads events through the reference
// JSON parser only.

// Ev is the view of an event the auth rules need.
type Ev struct {
	ID       string
	Type     string
	Sender   string
	Room     string
	StateKey *string
	Content  *Value
	Prev     []string
	Redacts  string
	// RawRoomID is the room_id member of the event JSON ("" when absent).
	RawRoomID string
}

// State maps (type, state_key) to the auth event.
type State map[[2]string]*Ev

// Outcome of the model.
type Outcome int

const (
	Reject Outcome = iota
	Allow
	NoOpinion // abstention region (DESIGN.md 5.3)
)

func (o Outcome) String() string { return [...]string{"reject", "allow", "abstain"}[o] }

const creatorLevel = int64(1) << 53

// PL is parsed power-level content with defaults applied.
type PL struct {
	Ban, Invite, Kick, Redact, UsersDefault, EventsDefault, StateDefault int64
	Users, Events, Notifications                                         map[string]int64
}

func defaultPL() PL {
	return PL{Ban: 50, Kick: 50, Redact: 50, Invite: 0, UsersDefault: 0, EventsDefault: 0, StateDefault: 50,
		Users: map[string]int64{}, Events: map[string]int64{}, Notifications: map[string]int64{"room": 50}}
}

type plStatus int

const (
	plOK plStatus = iota
	plBad
	plAbstain
)

func parseLevel(v *Value, integerOnly bool) (int64, plStatus) {
	switch v.K {
	case Num:
		if PlainInt(v.N) {
			n, err := strconv.ParseInt(v.N, 10, 64)
			if err != nil || n > creatorLevel || n < -creatorLevel {
				return 0, plAbstain
			}
			return n, plOK
		}
		if integerOnly {
			return 0, plBad
		}
		return 0, plAbstain // floats are truncated Python-style (D10); not modelled
	case Str:
		if integerOnly {
			return 0, plBad
		}
		n, err := strconv.ParseInt(strings.TrimSpace(v.S), 10, 64)
		if err != nil {
			return 0, plBad
		}
		if n > creatorLevel || n < -creatorLevel {
			return 0, plAbstain
		}
		return n, plOK
	case Null:
		if integerOnly {
			return 0, plBad // present and not an integer
		}
		return 0, plAbstain
	}
	return 0, plBad
}

// ParsePL parses power-levels content under the version's parsing rule.
func ParsePL(t *VersionTraits, c *Value) (PL, plStatus) {
	pl := defaultPL()
	if c == nil || c.K != Obj {
		return pl, plBad
	}
	st := plOK
	merge := func(s plStatus) {
		if s == plBad {
			st = plBad
		} else if s == plAbstain && st == plOK {
			st = plAbstain
		}
	}
	for _, m := range c.O {
		var dst *int64
		switch m.Key {
		case "ban":
			dst = &pl.Ban
		case "invite":
			dst = &pl.Invite
		case "kick":
			dst = &pl.Kick
		case "redact":
			dst = &pl.Redact
		case "users_default":
			dst = &pl.UsersDefault
		case "events_default":
			dst = &pl.EventsDefault
		case "state_default":
			dst = &pl.StateDefault
		case "users", "events", "notifications":
			mp := map[string]map[string]int64{"users": pl.Users, "events": pl.Events, "notifications": pl.Notifications}[m.Key]
			switch m.Val.K {
			case Obj:
				for _, e := range m.Val.O {
					n, s := parseLevel(e.Val, t.IntegerPLs)
					merge(s)
					if s == plOK {
						mp[e.Key] = n
					}
				}
			case Null:
				if t.IntegerPLs {
					merge(plBad) // present and not an object
				} else {
					merge(plAbstain)
				}
			default:
				merge(plBad)
			}
			continue
		default:
			continue
		}
		n, s := parseLevel(m.Val, t.IntegerPLs)
		merge(s)
		if s == plOK {
			*dst = n
		}
	}
	return pl, st
}

func (p *PL) userLevel(u string) int64 {
	if l, ok := p.Users[u]; ok {
		return l
	}
	return p.UsersDefault
}

func (p *PL) eventLevel(typ string, isState bool) int64 {
	if typ == "m.room.third_party_invite" {
		return p.Invite // D11
	}
	if l, ok := p.Events[typ]; ok {
		return l
	}
	if isState {
		return p.StateDefault
	}
	return p.EventsDefault
}

func (p *PL) notifLevel(k string) int64 {
	if l, ok := p.Notifications[k]; ok {
		return l
	}
	return 50
}

// auth is one evaluation.
type auth struct {
	t       *VersionTraits
	st      State
	create  *Ev
	pl      PL
	hasPL   bool
	abstain bool
	rule    string
}

func (a *auth) get(typ, key string) *Ev { return a.st[[2]string{typ, key}] }

func domainOf(id string) (string, bool) {
	i := strings.IndexByte(id, ':')
	if i < 0 {
		return "", false
	}
	return id[i+1:], true
}

func (a *auth) creators() []string {
	out := []string{a.create.Sender}
	if ac := a.create.Content.Get("additional_creators"); ac != nil && ac.K == Arr {
		for _, e := range ac.A {
			if e.K == Str {
				out = append(out, e.S)
			}
		}
	}
	return out
}

func (a *auth) level(u string) int64 {
	if a.t.PrivCreators {
		for _, c := range a.creators() {
			if c == u {
				return creatorLevel
			}
		}
	}
	if !a.hasPL {
		if u == a.create.Sender {
			return creatorLevel - 1 // D4
		}
		return 0
	}
	return a.pl.userLevel(u)
}

func membershipOf(e *Ev) (string, bool) {
	if e == nil {
		return "leave", true
	}
	if e.Content == nil || e.Content.K != Obj {
		return "", false
	}
	m := e.Content.Get("membership")
	if m == nil {
		return "", true
	}
	if m.K != Str {
		return "", false
	}
	return m.S, true
}

// federateOK implements the m.federate rule for a user.
func (a *auth) federateOK(user string) bool {
	d, _ := domainOf(user)
	cd, _ := domainOf(a.create.Sender)
	if d == cd {
		return true
	}
	f := a.create.Content.Get("m.federate")
	if f == nil || f.K == Null {
		return true
	}
	if f.K != Bool {
		a.abstain = true
		return true
	}
	return f.B
}

// Allowed is the reference verdict. multiRoom says whether the supplied auth
// events come from more than one room. The returned string names the rule
// that decided.
func Allowed(t *VersionTraits, ev *Ev, st State, multiRoom bool, knownVersion func(string) bool) (Outcome, string) {
	a := &auth{t: t, st: st}
	if multiRoom {
		return Reject, "0:auth-events-from-several-rooms"
	}
	ok, rule := a.run(ev, knownVersion)
	if a.abstain {
		return NoOpinion, rule
	}
	if ok {
		return Allow, rule
	}
	return Reject, rule
}

func (a *auth) run(ev *Ev, known func(string) bool) (bool, string) {
	a.create = a.get("m.room.create", "")
	if ple := a.get("m.room.power_levels", ""); ple != nil {
		pl, s := ParsePL(a.t, ple.Content)
		switch s {
		case plOK:
			a.pl, a.hasPL = pl, true
		default:
			// an unparsable power-levels event in the auth state: not modelled
			a.abstain = true
			a.pl = defaultPL()
		}
	} else {
		a.pl = defaultPL()
		if a.create != nil {
			a.pl.Users[a.create.Sender] = creatorLevel - 1
		}
	}
	if a.create != nil && (a.create.Content == nil || a.create.Content.K != Obj) {
		a.abstain = true
		return false, "create-content-not-an-object"
	}
	if v, _, _ := UserID(ev.Sender, true); v != Valid && a.t.Version != "org.matrix.msc4014" {
		a.abstain = true // senders that are not user IDs are not generated on purpose
		return false, "sender-not-a-user-id"
	}
	switch ev.Type {
	case "m.room.create":
		return a.createRules(ev, known)
	case "m.room.aliases":
		return a.aliasRules(ev)
	case "m.room.member":
		return a.memberRules(ev)
	}
	if ok, rule := a.common(ev); !ok {
		return false, rule
	}
	switch ev.Type {
	case "m.room.power_levels":
		return a.powerLevelRules(ev)
	case "m.room.redaction":
		return a.redactionRules(ev)
	}
	return true, "4:other-event-allowed"
}

func (a *auth) createRules(ev *Ev, known func(string) bool) (bool, string) {
	if ev.StateKey == nil || *ev.StateKey != "" {
		return false, "1:create-state-key-not-empty"
	}
	if len(ev.Prev) > 0 {
		return false, "1:create-has-prev-events"
	}
	c := ev.Content
	if c == nil || c.K != Obj {
		if a.t.CreateCheck == 2 {
			// C2 never reads the content
		} else {
			return false, "1:create-content-invalid"
		}
	}
	ver := func() (bool, string) {
		rv := c.Get("room_version")
		if rv == nil {
			return true, ""
		}
		if rv.K == Null {
			return false, "1:create-unknown-room-version" // present, and not a recognised version
		}
		if rv.K != Str {
			return false, "1:create-content-invalid"
		}
		if !known(rv.S) {
			return false, "1:create-unknown-room-version"
		}
		return true, ""
	}
	switch a.t.CreateCheck {
	case 1, 2:
		rd, _ := domainOf(ev.Room)
		sd, _ := domainOf(ev.Sender)
		if rd != sd {
			return false, "1:create-room-domain-differs-from-sender"
		}
		if a.t.CreateCheck == 2 {
			if rv := c.Get("room_version"); rv != nil && (rv.K == Null || rv.K == Str && !known(rv.S)) {
				a.abstain = true // the v11 text asks for a recognised version; the library does not look
			}
			return true, "1:create-allowed"
		}
		cr := c.Get("creator")
		if cr != nil && cr.K != Str && cr.K != Null {
			return false, "1:create-content-invalid"
		}
		if ok, r := ver(); !ok && r == "1:create-content-invalid" {
			return false, r
		}
		if cr == nil || cr.K == Null {
			return false, "1:create-no-creator"
		}
		if ok, r := ver(); !ok {
			return false, r
		}
		return true, "1:create-allowed"
	default:
		if ac := c.Get("additional_creators"); ac != nil {
			if ac.K != Arr { // null included: present, and not an array of user IDs
				return false, "1:create-content-invalid"
			}
			for _, e := range ac.A {
				if e.K != Str {
					return false, "1:create-content-invalid"
				}
			}
		}
		if ok, r := ver(); !ok {
			return false, r
		}
		if ac := c.Get("additional_creators"); ac != nil && ac.K == Arr {
			for _, e := range ac.A {
				v, _, _ := UserID(e.S, true)
				if v == Abstain {
					a.abstain = true
				}
				if v == Invalid {
					return false, "1:create-additional-creator-invalid"
				}
			}
		}
		if ev.RawRoomID != "" {
			return false, "1:create-has-room-id"
		}
		return true, "1:create-allowed"
	}
}

func (a *auth) aliasRules(ev *Ev) (bool, string) {
	if a.create == nil || ev.Room != a.create.Room {
		return false, "2:alias-room-differs-from-create"
	}
	if !a.federateOK(ev.Sender) {
		return false, "2:alias-federation-denied"
	}
	if ev.StateKey == nil {
		a.abstain = true // the library crashes here (C18's business)
		return false, "2:alias-no-state-key"
	}
	want, _ := domainOf(ev.Sender)
	if a.t.Version == "org.matrix.msc4014" {
		want = ev.Sender
	}
	if *ev.StateKey != want {
		return false, "2:alias-state-key-not-sender-domain"
	}
	return true, "2:alias-allowed"
}

func (a *auth) common(ev *Ev) (bool, string) {
	if a.create == nil || ev.Room != a.create.Room {
		return false, "4:room-differs-from-create"
	}
	if !a.federateOK(ev.Sender) {
		return false, "4:federation-denied"
	}
	ms, ok := membershipOf(a.get("m.room.member", ev.Sender))
	if !ok {
		return false, "4:sender-member-content-invalid"
	}
	if ms != "join" {
		return false, "4:sender-not-joined"
	}
	if a.level(ev.Sender) < a.pl.eventLevel(ev.Type, ev.StateKey != nil) {
		return false, "4:sender-level-below-required"
	}
	if ev.Type == "m.room.third_party_invite" {
		// its rule is terminal ("allow if and only if the sender's level is at least the invite level"): the '@'
		// state-key rule further down the list is never reached
		return true, ""
	}
	if ev.StateKey != nil && strings.HasPrefix(*ev.StateKey, "@") && *ev.StateKey != ev.Sender {
		return false, "4:at-state-key-of-another-user"
	}
	return true, ""
}

func (a *auth) redactionRules(ev *Ev) (bool, string) {
	rv := a.create.Content.Get("room_version")
	if rv != nil && rv.K == Str && rv.S != "1" && rv.S != "2" {
		return true, "4:redaction-v3plus-allowed"
	}
	if rv != nil && rv.K != Str {
		a.abstain = true
	}
	rd, ok := domainOf(ev.Redacts)
	if !ok {
		a.abstain = true
		return false, "4:redaction-redacts-without-domain"
	}
	sd, _ := domainOf(ev.Sender)
	if sd == rd {
		return true, "4:redaction-own-domain"
	}
	if a.level(ev.Sender) >= a.pl.Redact {
		return true, "4:redaction-by-power"
	}
	return false, "4:redaction-insufficient-power"
}

func (a *auth) powerLevelRules(ev *Ev) (bool, string) {
	if u := ev.Content.Get("users"); u != nil && u.K == Null {
		// "if the users property in content is not an object ..., reject": in every version, for the event under test
		return false, "4:pl-content-invalid"
	}
	np, s := ParsePL(a.t, ev.Content)
	if s == plAbstain {
		a.abstain = true
		return false, "4:pl-content-abstain"
	}
	if s == plBad {
		return false, "4:pl-content-invalid"
	}
	for u := range np.Users {
		v, _, _ := UserID(u, true)
		if v == Abstain {
			a.abstain = true
		}
		if v == Invalid {
			return false, "4:pl-users-key-not-a-user-id"
		}
	}
	old := a.pl
	sl := a.level(ev.Sender)
	type pair struct {
		o, n int64
		name string
	}
	pairs := []pair{{old.Ban, np.Ban, "ban"}, {old.Invite, np.Invite, "invite"}, {old.Kick, np.Kick, "kick"}, {old.Redact, np.Redact, "redact"},
		{old.StateDefault, np.StateDefault, "state_default"}, {old.EventsDefault, np.EventsDefault, "events_default"}, {old.UsersDefault, np.UsersDefault, "users_default"}}
	seen := map[string]bool{}
	for _, m := range []map[string]int64{np.Events, old.Events} {
		for k := range m {
			if !seen[k] {
				seen[k] = true
				// the entries of the events map themselves are compared (D11 is about what it takes to send a
				// third-party-invite event, not about who may rewrite its map entry)
				// Where there is no entry the type falls back to events_default when sent as a message event and to
				// state_default when sent as a state event: both effective levels are compared (D5), so that adding or
				// removing an entry equal to one default is still judged as the change of the other.
				raw := func(p PL, asState bool) int64 {
					if l, ok := p.Events[k]; ok {
						return l
					}
					if asState {
						return p.StateDefault
					}
					return p.EventsDefault
				}
				pairs = append(pairs, pair{raw(old, false), raw(np, false), "events"}, pair{raw(old, true), raw(np, true), "events"})
			}
		}
	}
	for _, p := range pairs {
		if p.o == p.n {
			continue
		}
		if sl < p.n {
			return false, "4:pl-threshold-raised-above-sender:" + p.name
		}
		if sl < p.o {
			return false, "4:pl-threshold-above-sender-changed:" + p.name
		}
	}
	if a.t.PLNotifChecks {
		seen := map[string]bool{}
		for _, m := range []map[string]int64{np.Notifications, old.Notifications} {
			for k := range m {
				if seen[k] {
					continue
				}
				seen[k] = true
				o, n := old.notifLevel(k), np.notifLevel(k)
				if k != "room" {
					// only "room" has a default; an entry of another key that is added or removed is judged on itself
					_, had := old.Notifications[k]
					_, has := np.Notifications[k]
					if !had && has {
						if sl < n {
							return false, "4:pl-notification-raised-above-sender"
						}
						continue
					}
					if had && !has {
						if sl < o {
							return false, "4:pl-notification-above-sender-changed"
						}
						if sl == o {
							a.abstain = true
						}
						continue
					}
				}
				if o == n {
					continue
				}
				if sl < n {
					return false, "4:pl-notification-raised-above-sender"
				}
				if sl < o {
					return false, "4:pl-notification-above-sender-changed"
				}
				if sl == o {
					a.abstain = true // the code rejects, its comment and the specification allow
				}
			}
		}
	}
	if a.t.PLCreatorCheck {
		for _, c := range a.creators() {
			if _, ok := np.Users[c]; ok {
				return false, "4:pl-names-a-creator"
			}
		}
	}
	// the entry of another user at or above the sender's level may not be removed, whatever users_default becomes
	for u, l := range old.Users {
		if _, kept := np.Users[u]; !kept && u != ev.Sender && sl <= l {
			return false, "4:pl-user-entry-of-peer-removed"
		}
	}
	// nor may an entry be added with a level above the sender's, also where users_default gives that user as much
	// today (ninth audit round: the entry outlives the default)
	for u, l := range np.Users {
		if _, had := old.Users[u]; !had && sl < l {
			return false, "4:pl-user-entry-added-above-sender"
		}
	}
	useen := map[string]bool{}
	for _, m := range []map[string]int64{np.Users, old.Users} {
		for u := range m {
			if useen[u] {
				continue
			}
			useen[u] = true
			o, n := old.userLevel(u), np.userLevel(u)
			if o == n {
				continue
			}
			if sl < n {
				return false, "4:pl-user-raised-above-sender"
			}
			if u == ev.Sender {
				continue
			}
			if sl <= o {
				return false, "4:pl-user-at-or-above-sender-changed"
			}
		}
	}
	return true, "4:pl-allowed"
}

func (a *auth) memberRules(ev *Ev) (bool, string) {
	if ev.StateKey == nil {
		return false, "3:member-no-state-key"
	}
	target := *ev.StateKey
	c := ev.Content
	if c == nil || c.K != Obj {
		return false, "3:member-content-invalid"
	}
	newM, ok := membershipOf(ev)
	if !ok {
		return false, "3:member-content-invalid"
	}
	// members of the content the library's structs read; anything of the wrong JSON type there is not modelled
	for _, k := range []string{"third_party_invite", "join_authorised_via_users_server", "mxid_mapping"} {
		if v := c.Get(k); v != nil {
			want := Str
			if k != "join_authorised_via_users_server" {
				want = Obj
			}
			if v.K != want && !(k == "third_party_invite" && v.K == Null && newM == "invite") {
				a.abstain = true
			}
		}
	}
	oldM, ok := membershipOf(a.get("m.room.member", target))
	if !ok {
		return false, "3:target-member-content-invalid"
	}
	senderM, ok := membershipOf(a.get("m.room.member", ev.Sender))
	if !ok {
		return false, "3:sender-member-content-invalid"
	}
	tpi := c.Get("third_party_invite")
	var tpiEvent *Ev
	if tpi != nil && tpi.K == Obj {
		tok, _ := tpi.Get("signed").Get("token").Str()
		if tok == "" {
			a.abstain = true // the library reads an empty token as a missing one (5.3)
		}
		tpiEvent = a.get("m.room.third_party_invite", tok)
		if tpiEvent == nil {
			return false, "3:third-party-invite-event-missing"
		}
	}
	if a.create == nil || a.create.Room != ev.Room {
		return false, "3:room-differs-from-create"
	}
	fedUser := ev.Sender
	if mm := c.Get("mxid_mapping"); mm != nil && mm.K == Obj && a.t.Version == "org.matrix.msc4014" {
		u, _ := mm.Get("user_id").Str()
		if v, _, _ := UserID(u, true); v != Valid {
			if v == Abstain {
				a.abstain = true
			}
			return false, "3:mxid-mapping-user-invalid"
		}
		fedUser = u
	}
	if !a.federateOK(fedUser) {
		return false, "3:federation-denied"
	}
	switch oldM {
	case "leave", "join", "invite", "ban", "knock":
	default:
		a.abstain = true // unknown previous membership strings
	}
	if oldM == "knock" && !a.t.Knock {
		a.abstain = true
	}
	// creator's first join (D9)
	if target == a.create.Sender && newM == "join" && ev.Sender == target && len(ev.Prev) == 1 && ev.Prev[0] == a.create.ID {
		return true, "3:creator-first-join"
	}
	if target == a.create.Sender && newM == "join" && ev.Sender != target && len(ev.Prev) == 1 && ev.Prev[0] == a.create.ID {
		a.abstain = true
	}
	if newM == "invite" && tpi != nil && tpi.K == Null {
		// "if content has a third_party_invite property": it has, and there is no signed block in it
		return false, "3:tpi-malformed"
	}
	if newM == "invite" && tpi != nil && tpi.K == Obj {
		return a.thirdPartyInvite(ev, target, tpi, tpiEvent, oldM)
	}
	jr := "invite"
	if j := a.get("m.room.join_rules", ""); j != nil {
		if j.Content == nil || j.Content.K != Obj {
			a.abstain = true
		} else if v := j.Content.Get("join_rule"); v != nil {
			if v.K == Str {
				jr = v.S
			} else {
				a.abstain = true
			}
		} else {
			jr = "" // present event without the key
			a.abstain = true
		}
	}
	if target == ev.Sender {
		return a.memberSelf(ev, newM, oldM, jr)
	}
	return a.memberOther(ev, target, newM, oldM, senderM)
}

func (a *auth) memberSelf(ev *Ev, newM, oldM, jr string) (bool, string) {
	if oldM == "leave" && newM == "leave" {
		return true, "3:self-leave-to-leave" // D1
	}
	if oldM == "ban" {
		return false, "3:self-banned"
	}
	switch newM {
	case "knock":
		if !a.t.Knock {
			return false, "3:knock-unsupported-version"
		}
		if jr != "knock" && jr != "knock_restricted" {
			return false, "3:knock-join-rule-forbids"
		}
		if jr == "knock_restricted" && !(a.t.Restricted && a.t.Knock && (a.t.IntegerPLs || a.t.Version == "org.matrix.msc3787")) {
			a.abstain = true // knock_restricted exists from v10 (and MSC3787) only
		}
		if oldM == "join" || oldM == "invite" {
			return false, "3:knock-already-in-room"
		}
		return true, "3:knock-allowed"
	case "join":
		if jr == "restricted" || jr == "knock_restricted" {
			if !a.t.Restricted {
				return false, "3:restricted-unsupported-version"
			}
			if jr == "knock_restricted" && !(a.t.IntegerPLs || a.t.Version == "org.matrix.msc3787") {
				a.abstain = true
			}
			via := ""
			if v := ev.Content.Get("join_authorised_via_users_server"); v != nil && v.K == Str {
				via = v.S
			}
			if !(oldM == "join" || oldM == "invite" || via == "") {
				if a.t.Version != "org.matrix.msc4014" {
					if !strings.HasPrefix(via, "@") || !strings.Contains(via, ":") {
						return false, "3:restricted-authoriser-not-a-user-id"
					}
				}
				am := a.get("m.room.member", via)
				if am == nil {
					return false, "3:restricted-authoriser-not-in-state"
				}
				m, ok := membershipOf(am)
				if !ok || m != "join" {
					return false, "3:restricted-authoriser-not-joined"
				}
				if a.level(via) < a.pl.Invite {
					return false, "3:restricted-authoriser-cannot-invite"
				}
				return true, "3:restricted-join-authorised"
			}
			jr = "invite"
		}
		if oldM == "invite" {
			return true, "3:join-invited" // D3
		}
		if oldM == "join" {
			return true, "3:join-already-joined"
		}
		if oldM == "knock" && jr == "public" {
			// "if the join_rule is public, allow": a user who knocked and then finds the room public may join
			return true, "3:join-public-after-knock"
		}
		if oldM == "leave" && jr == "public" {
			return true, "3:join-public"
		}
		return false, "3:join-rule-forbids"
	case "leave":
		switch oldM {
		case "join":
			return true, "3:leave-from-join"
		case "invite":
			return true, "3:leave-reject-invite"
		case "knock":
			return true, "3:leave-cancel-knock"
		}
		return false, "3:leave-not-in-room"
	case "invite", "ban":
		return false, "3:self-invite-or-ban"
	}
	return false, "3:self-unknown-membership"
}

func (a *auth) memberOther(ev *Ev, target, newM, oldM, senderM string) (bool, string) {
	sl, tl := a.level(ev.Sender), a.level(target)
	if senderM != "join" {
		return false, "3:other-sender-not-joined"
	}
	switch newM {
	case "ban":
		if sl >= a.pl.Ban && sl > tl {
			return true, "3:ban-allowed"
		}
		return false, "3:ban-insufficient-power"
	case "leave":
		if oldM == "ban" {
			if sl >= a.pl.Ban {
				return true, "3:unban-allowed" // D2
			}
			return false, "3:unban-insufficient-power"
		}
		if sl >= a.pl.Kick && sl > tl {
			return true, "3:kick-allowed"
		}
		return false, "3:kick-insufficient-power"
	case "invite":
		if sl < a.pl.Invite {
			return false, "3:invite-insufficient-power"
		}
		if oldM == "join" || oldM == "ban" {
			return false, "3:invite-target-joined-or-banned"
		}
		return true, "3:invite-allowed"
	case "knock", "join":
		return false, "3:other-join-or-knock"
	}
	return false, "3:other-unknown-membership"
}

// thirdPartyInvite implements D12 for the cases the generator produces.
func (a *auth) thirdPartyInvite(ev *Ev, target string, tpi *Value, tpiEvent *Ev, oldM string) (bool, string) {
	signed := tpi.Get("signed")
	if signed == nil || signed.K != Obj {
		a.abstain = true
		return false, "3:tpi-malformed"
	}
	if oldM == "ban" {
		a.abstain = true
	}
	if tpiEvent.Sender != ev.Sender {
		a.abstain = true
	}
	mxid, _ := signed.Get("mxid").Str()
	if mxid != target {
		return false, "3:tpi-mxid-differs-from-target"
	}
	tok, _ := signed.Get("token").Str()
	payload := Canon(O("mxid", S(mxid), "token", S(tok)))
	for _, m := range signed.O {
		if m.Key != "mxid" && m.Key != "token" && m.Key != "signatures" {
			a.abstain = true // extra members of "signed" are dropped by the library's struct
		}
	}
	keys := tpiEvent.Content.Get("public_keys")
	if tpiEvent.Content.Get("public_key") != nil && (keys == nil || keys.K != Arr || len(keys.A) == 0) {
		a.abstain = true
	}
	if keys != nil && keys.K == Arr {
		for _, k := range keys.A {
			ks, _ := k.Get("public_key").Str()
			pub, err := base64.RawStdEncoding.DecodeString(ks)
			if err != nil {
				pub, err = base64.RawURLEncoding.DecodeString(ks)
			}
			if err != nil || len(pub) != ed25519.PublicKeySize {
				continue
			}
			sigs := signed.Get("signatures")
			if sigs == nil || sigs.K != Obj {
				continue
			}
			for _, dom := range sigs.O {
				if dom.Val.K != Obj {
					a.abstain = true
					continue
				}
				for _, ks := range dom.Val.O {
					if !strings.HasPrefix(ks.Key, "ed25519") || ks.Val.K != Str {
						continue
					}
					sig, err := base64.RawStdEncoding.DecodeString(ks.Val.S)
					if err != nil {
						sig, err = base64.RawURLEncoding.DecodeString(ks.Val.S)
					}
					if err == nil && len(sig) == ed25519.SignatureSize && ed25519.Verify(ed25519.PublicKey(pub), payload, sig) {
						return true, "3:tpi-signature-valid"
					}
				}
			}
		}
	}
	return false, "3:tpi-no-valid-signature"
}
