package ref

// VersionTraits is one row of the room-version table, transcribed from the
// room-version pages of the Matrix specification (stable versions) and from
// the MSC texts plus the library's doc comments (unstable versions). See
// DESIGN.md appendix A.
type VersionTraits struct {
	Version        string
	Stable         bool
	StateRes       int // 1 = v1, 2 = v2, 3 = v2.1
	EventFormat    int // 1 = references, 2 = event IDs
	EventIDFormat  int // 1 = $local:server, 2 = std base64 hash, 3 = url-safe base64 hash
	Redaction      int // R1..R5
	StrictValidity bool
	EnforceCanon   bool
	PLNotifChecks  bool // notifications levels checked (v6+)
	PLCreatorCheck bool // creators may not appear in users (v12)
	IntegerPLs     bool // power levels must be JSON integers
	Knock          bool
	Restricted     bool
	CreateCheck    int // 1, 2, 3 (C1..C3)
	Domainless     bool
	PrivCreators   bool
}

// Versions is the reference table in a fixed order.
var Versions = []VersionTraits{
	{"1", true, 1, 1, 1, 1, false, false, false, false, false, false, false, 1, false, false},
	{"2", true, 2, 1, 1, 1, false, false, false, false, false, false, false, 1, false, false},
	{"3", true, 2, 2, 2, 1, false, false, false, false, false, false, false, 1, false, false},
	{"4", true, 2, 2, 3, 1, false, false, false, false, false, false, false, 1, false, false},
	{"5", true, 2, 2, 3, 1, true, false, false, false, false, false, false, 1, false, false},
	{"6", true, 2, 2, 3, 2, true, true, true, false, false, false, false, 1, false, false},
	{"7", true, 2, 2, 3, 2, true, true, true, false, false, true, false, 1, false, false},
	{"8", true, 2, 2, 3, 3, true, true, true, false, false, true, true, 1, false, false},
	{"9", true, 2, 2, 3, 4, true, true, true, false, false, true, true, 1, false, false},
	{"10", true, 2, 2, 3, 4, true, true, true, false, true, true, true, 1, false, false},
	{"11", true, 2, 2, 3, 5, true, true, true, false, true, true, true, 2, false, false},
	{"12", true, 3, 2, 3, 5, true, true, true, true, true, true, true, 3, true, true},
	{"org.matrix.msc3667", false, 2, 2, 3, 2, true, true, true, false, true, true, false, 1, false, false},
	{"org.matrix.msc3787", false, 2, 2, 3, 4, true, true, true, false, false, true, true, 1, false, false},
	{"org.matrix.msc4014", false, 2, 2, 3, 4, true, true, true, false, true, true, true, 1, false, false},
	{"org.matrix.hydra.11", false, 3, 2, 3, 5, true, true, true, true, true, true, true, 3, true, true},
}

// Traits returns the row for a version (nil if the reference does not know it).
func Traits(v string) *VersionTraits {
	for i := range Versions {
		if Versions[i].Version == v {
			return &Versions[i]
		}
	}
	return nil
}

// VersionNames lists the reference versions in table order.
func VersionNames() []string {
	out := make([]string, len(Versions))
	for i, v := range Versions {
		out[i] = v.Version
	}
	return out
}
