package ref

import (
	"crypto/sha256"
	"encoding/base64"
)

// Redaction algorithms R1..R5, transcribed from the "Redactions" sections of
// the room-version specifications:
//
//	R1 (v1-5)  R2 (v6-7: aliases no longer protected)  R3 (v8: join_rules.allow)
//	R4 (v9-10: member.join_authorised_via_users_server)
//	R5 (v11+: origin/membership/prev_state dropped at top level; create keeps
//	    everything; power_levels.invite; redaction.redacts)
var topKeepOld = []string{"event_id", "type", "room_id", "sender", "state_key", "content", "hashes", "signatures", "depth",
	"prev_events", "prev_state", "auth_events", "origin", "origin_server_ts", "membership"}
var topKeepV11 = []string{"event_id", "type", "room_id", "sender", "state_key", "content", "hashes", "signatures", "depth",
	"prev_events", "auth_events", "origin_server_ts"}

var plKeep = []string{"ban", "events", "events_default", "kick", "redact", "state_default", "users", "users_default"}

// TopLevelKeep returns the top-level keys an algorithm keeps.
func TopLevelKeep(alg int) []string {
	if alg >= 5 {
		return topKeepV11
	}
	return topKeepOld
}

// ContentKeep returns the content keys kept for an event type and whether
// the whole content is kept.
func ContentKeep(alg int, evType string) (keys []string, all bool) {
	switch evType {
	case "m.room.member":
		if alg >= 4 {
			return []string{"membership", "join_authorised_via_users_server"}, false
		}
		return []string{"membership"}, false
	case "m.room.create":
		if alg >= 5 {
			return nil, true
		}
		return []string{"creator"}, false
	case "m.room.join_rules":
		if alg >= 3 {
			return []string{"join_rule", "allow"}, false
		}
		return []string{"join_rule"}, false
	case "m.room.power_levels":
		if alg >= 5 {
			return append(append([]string{}, plKeep...), "invite"), false
		}
		return plKeep, false
	case "m.room.aliases":
		if alg == 1 {
			return []string{"aliases"}, false
		}
	case "m.room.history_visibility":
		return []string{"history_visibility"}, false
	case "m.room.redaction":
		if alg >= 5 {
			return []string{"redacts"}, false
		}
	}
	return nil, false
}

// Redact returns the redacted form of an event object under algorithm alg.
func Redact(alg int, ev *Value) *Value {
	out := &Value{K: Obj}
	evType, _ := ev.Get("type").Str()
	for _, k := range TopLevelKeep(alg) {
		v := ev.Get(k)
		if v == nil {
			continue
		}
		if k == "content" {
			keys, all := ContentKeep(alg, evType)
			nc := &Value{K: Obj}
			if all {
				nc = v.Clone()
			} else {
				for _, ck := range keys {
					if cv := v.Get(ck); cv != nil {
						nc.Set(ck, cv.Clone())
					}
				}
			}
			out.Set("content", nc)
			continue
		}
		out.Set(k, v.Clone())
	}
	return out
}

// ReferenceHash is sha256 over the canonical JSON of the redacted event
// without signatures, unsigned and age_ts.
func ReferenceHash(alg int, ev *Value) [32]byte {
	r := Redact(alg, ev)
	r.Del("signatures")
	r.Del("unsigned")
	r.Del("age_ts")
	return sha256.Sum256(Canon(r))
}

// EventID computes the event ID the room version prescribes. For event-ID
// format 1 it is the event_id member.
func EventID(t *VersionTraits, ev *Value) string {
	switch t.EventIDFormat {
	case 1:
		s, _ := ev.Get("event_id").Str()
		return s
	case 2:
		h := ReferenceHash(t.Redaction, ev)
		return "$" + base64.RawStdEncoding.EncodeToString(h[:])
	default:
		h := ReferenceHash(t.Redaction, ev)
		return "$" + base64.RawURLEncoding.EncodeToString(h[:])
	}
}

// ContentHash is sha256 over the canonical event without signatures,
// unsigned and hashes (the value of hashes.sha256).
func ContentHash(ev *Value) [32]byte {
	c := ev.Clone()
	c.Del("signatures")
	c.Del("unsigned")
	c.Del("hashes")
	return sha256.Sum256(Canon(c))
}
