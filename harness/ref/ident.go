package ref

import (
	"net/netip"
	"regexp"
	"strings"
)

// Identifier grammars as written in the property statement (Matrix
// specification appendix "Identifier grammar").

// ServerNameVerdict: Valid/Invalid, or Abstain where the statement does not
// decide (unusual port spellings).
type Verdict int

const (
	Invalid Verdict = iota
	Valid
	Abstain
)

func isDNSChar(c byte) bool {
	return c >= 'a' && c <= 'z' || c >= 'A' && c <= 'Z' || c >= '0' && c <= '9' || c == '-' || c == '.'
}

func allDigits(s string) bool {
	if s == "" {
		return false
	}
	for i := 0; i < len(s); i++ {
		if s[i] < '0' || s[i] > '9' {
			return false
		}
	}
	return true
}

// ServerName judges a server name: host = DNS name (letters, digits, '-',
// '.', non-empty) | IPv4 | '[' IPv6 ']', optionally ':' port (0-65535).
func ServerName(s string) (v Verdict, host string, port int) {
	port = -1
	if s == "" {
		return Invalid, "", -1
	}
	host = s
	// split off a port: the part after the last ':' when it consists of digits only
	if i := strings.LastIndexByte(s, ':'); i >= 0 && !strings.HasSuffix(s, "]") {
		p := s[i+1:]
		if p == "" {
			return Invalid, "", -1
		}
		if allDigits(p) {
			if len(p) > 5 || (len(p) > 1 && p[0] == '0') {
				return Abstain, "", -1 // unusual port spelling
			}
			n := 0
			for _, c := range p {
				n = n*10 + int(c-'0')
			}
			if n > 65535 {
				return Invalid, "", -1
			}
			host, port = s[:i], n
		} else if !strings.HasPrefix(s, "[") {
			return Invalid, "", -1 // ':' inside a non-literal host
		} else {
			return Invalid, "", -1 // "[..]:junk"
		}
	}
	if host == "" {
		return Invalid, "", -1
	}
	if host[0] == '[' {
		if host[len(host)-1] != ']' {
			return Invalid, "", -1
		}
		a, err := netip.ParseAddr(host[1 : len(host)-1])
		if err != nil || a.Zone() != "" {
			return Invalid, "", -1
		}
		if !strings.Contains(host, ":") {
			return Invalid, "", -1 // a bracketed IPv4 address is not an IPv6 literal
		}
		return Valid, host, port
	}
	for i := 0; i < len(host); i++ {
		if !isDNSChar(host[i]) {
			return Invalid, "", -1
		}
	}
	return Valid, host, port
}

var strictLocalpart = regexp.MustCompile(`^[0-9a-z_\-=./]+$`)

// UserID judges a user ID. historical selects the lenient localpart rule
// (any characters, but still non-empty).
func UserID(s string, historical bool) (v Verdict, local, domain string) {
	if len(s) > 255 || len(s) < 4 {
		return Invalid, "", ""
	}
	if s[0] != '@' {
		return Invalid, "", ""
	}
	i := strings.IndexByte(s, ':')
	if i < 0 {
		return Invalid, "", ""
	}
	local, domain = s[1:i], s[i+1:]
	if local == "" {
		return Invalid, "", ""
	}
	sv, _, _ := ServerName(domain)
	if sv != Valid {
		return sv, "", ""
	}
	if !historical && !strictLocalpart.MatchString(local) {
		return Invalid, "", ""
	}
	return Valid, local, domain
}

var domainless = regexp.MustCompile(`^[A-Za-z0-9_-]{43}$`)

// RoomID judges a room ID: "!" opaque ":" domain, or "!" + 43 url-safe base64
// characters.
func RoomID(s string) (v Verdict, opaque, domain string, isDomainless bool) {
	if s == "" || s[0] != '!' {
		return Invalid, "", "", false
	}
	if len(s) > 255 {
		return Invalid, "", "", false // "the length of a room ID ... MUST NOT exceed 255 bytes"
	}
	i := strings.IndexByte(s, ':')
	if i < 0 {
		if domainless.MatchString(s[1:]) {
			return Valid, s[1:], "", true
		}
		return Invalid, "", "", false
	}
	opaque, domain = s[1:i], s[i+1:]
	if opaque == "" {
		return Invalid, "", "", false
	}
	sv, _, _ := ServerName(domain)
	if sv != Valid {
		return sv, "", "", false
	}
	return Valid, opaque, domain, false
}
