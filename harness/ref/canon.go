// Package ref holds the reference models (oracles). They are written from the
// Matrix specification, share no code with the library and keep everything in
// plain, sequential data structures.
package ref

import (
	"bytes"
	"errors"
	"fmt"
	"math/big"
	"sort"
	"strconv"
	"strings"
	"unicode/utf16"
	"unicode/utf8"
)

// Kind of a JSON value.
type Kind int

const (
	Null Kind = iota
	Bool
	Num
	Str
	Arr
	Obj
)

// Member of an object, in source order.
type Member struct {
	Key string
	Val *Value
}

// Value is a parsed JSON value. Numbers keep their literal verbatim.
type Value struct {
	K   Kind
	B   bool
	N   string // number literal as written
	S   string // decoded string
	A   []*Value
	O   []Member
}

// Info reports features of a text on which the properties do not speak.
type Info struct {
	DupKeys   bool // some object has two members with the same key
	IllFormed bool // lone surrogate escape or invalid UTF-8
	MaxDepth  int
}

type parser struct {
	b    []byte
	i    int
	info Info
}

// Parse is a strict RFC 8259 parser.
func Parse(text []byte) (*Value, Info, error) {
	p := &parser{b: text}
	p.ws()
	v, err := p.value(1)
	if err != nil {
		return nil, p.info, err
	}
	p.ws()
	if p.i != len(p.b) {
		return nil, p.info, fmt.Errorf("trailing data at %d", p.i)
	}
	return v, p.info, nil
}

// MustParse panics on invalid JSON (harness-internal use on own output).
func MustParse(text []byte) *Value {
	v, _, err := Parse(text)
	if err != nil {
		panic(fmt.Sprintf("ref.MustParse: %v in %q", err, text))
	}
	return v
}

func (p *parser) ws() {
	for p.i < len(p.b) {
		switch p.b[p.i] {
		case ' ', '\t', '\n', '\r':
			p.i++
		default:
			return
		}
	}
}

var errEOF = errors.New("unexpected end")

func (p *parser) value(depth int) (*Value, error) {
	if depth > p.info.MaxDepth {
		p.info.MaxDepth = depth
	}
	if depth > 10000 {
		return nil, errors.New("too deep")
	}
	if p.i >= len(p.b) {
		return nil, errEOF
	}
	switch c := p.b[p.i]; {
	case c == '{':
		p.i++
		v := &Value{K: Obj}
		p.ws()
		if p.i < len(p.b) && p.b[p.i] == '}' {
			p.i++
			return v, nil
		}
		seen := map[string]bool{}
		for {
			p.ws()
			if p.i >= len(p.b) {
				return nil, errEOF
			}
			if p.b[p.i] != '"' {
				return nil, fmt.Errorf("expected key at %d", p.i)
			}
			k, err := p.str()
			if err != nil {
				return nil, err
			}
			if seen[k] {
				p.info.DupKeys = true
			}
			seen[k] = true
			p.ws()
			if p.i >= len(p.b) || p.b[p.i] != ':' {
				return nil, fmt.Errorf("expected ':' at %d", p.i)
			}
			p.i++
			p.ws()
			val, err := p.value(depth + 1)
			if err != nil {
				return nil, err
			}
			v.O = append(v.O, Member{k, val})
			p.ws()
			if p.i >= len(p.b) {
				return nil, errEOF
			}
			if p.b[p.i] == ',' {
				p.i++
				continue
			}
			if p.b[p.i] == '}' {
				p.i++
				return v, nil
			}
			return nil, fmt.Errorf("expected ',' or '}' at %d", p.i)
		}
	case c == '[':
		p.i++
		v := &Value{K: Arr}
		p.ws()
		if p.i < len(p.b) && p.b[p.i] == ']' {
			p.i++
			return v, nil
		}
		for {
			p.ws()
			val, err := p.value(depth + 1)
			if err != nil {
				return nil, err
			}
			v.A = append(v.A, val)
			p.ws()
			if p.i >= len(p.b) {
				return nil, errEOF
			}
			if p.b[p.i] == ',' {
				p.i++
				continue
			}
			if p.b[p.i] == ']' {
				p.i++
				return v, nil
			}
			return nil, fmt.Errorf("expected ',' or ']' at %d", p.i)
		}
	case c == '"':
		s, err := p.str()
		if err != nil {
			return nil, err
		}
		return &Value{K: Str, S: s}, nil
	case c == 't':
		return p.lit("true", &Value{K: Bool, B: true})
	case c == 'f':
		return p.lit("false", &Value{K: Bool, B: false})
	case c == 'n':
		return p.lit("null", &Value{K: Null})
	case c == '-' || (c >= '0' && c <= '9'):
		return p.num()
	default:
		return nil, fmt.Errorf("unexpected byte %q at %d", c, p.i)
	}
}

func (p *parser) lit(s string, v *Value) (*Value, error) {
	if bytes.HasPrefix(p.b[p.i:], []byte(s)) {
		p.i += len(s)
		return v, nil
	}
	return nil, fmt.Errorf("bad literal at %d", p.i)
}

func (p *parser) num() (*Value, error) {
	st := p.i
	if p.b[p.i] == '-' {
		p.i++
	}
	if p.i >= len(p.b) {
		return nil, errEOF
	}
	if p.b[p.i] == '0' {
		p.i++
	} else if p.b[p.i] >= '1' && p.b[p.i] <= '9' {
		for p.i < len(p.b) && p.b[p.i] >= '0' && p.b[p.i] <= '9' {
			p.i++
		}
	} else {
		return nil, fmt.Errorf("bad number at %d", p.i)
	}
	if p.i < len(p.b) && p.b[p.i] == '.' {
		p.i++
		n := 0
		for p.i < len(p.b) && p.b[p.i] >= '0' && p.b[p.i] <= '9' {
			p.i++
			n++
		}
		if n == 0 {
			return nil, fmt.Errorf("bad fraction at %d", p.i)
		}
	}
	if p.i < len(p.b) && (p.b[p.i] == 'e' || p.b[p.i] == 'E') {
		p.i++
		if p.i < len(p.b) && (p.b[p.i] == '+' || p.b[p.i] == '-') {
			p.i++
		}
		n := 0
		for p.i < len(p.b) && p.b[p.i] >= '0' && p.b[p.i] <= '9' {
			p.i++
			n++
		}
		if n == 0 {
			return nil, fmt.Errorf("bad exponent at %d", p.i)
		}
	}
	return &Value{K: Num, N: string(p.b[st:p.i])}, nil
}

func hex4(b []byte) (rune, bool) {
	if len(b) < 4 {
		return 0, false
	}
	var r rune
	for _, c := range b[:4] {
		r <<= 4
		switch {
		case c >= '0' && c <= '9':
			r |= rune(c - '0')
		case c >= 'a' && c <= 'f':
			r |= rune(c-'a') + 10
		case c >= 'A' && c <= 'F':
			r |= rune(c-'A') + 10
		default:
			return 0, false
		}
	}
	return r, true
}

func (p *parser) str() (string, error) {
	p.i++ // opening quote
	var sb strings.Builder
	for {
		if p.i >= len(p.b) {
			return "", errEOF
		}
		c := p.b[p.i]
		switch {
		case c == '"':
			p.i++
			return sb.String(), nil
		case c < 0x20:
			return "", fmt.Errorf("raw control character at %d", p.i)
		case c == '\\':
			p.i++
			if p.i >= len(p.b) {
				return "", errEOF
			}
			e := p.b[p.i]
			p.i++
			switch e {
			case '"', '\\', '/':
				sb.WriteByte(e)
			case 'b':
				sb.WriteByte(8)
			case 'f':
				sb.WriteByte(12)
			case 'n':
				sb.WriteByte(10)
			case 'r':
				sb.WriteByte(13)
			case 't':
				sb.WriteByte(9)
			case 'u':
				r, ok := hex4(p.b[p.i:])
				if !ok {
					return "", fmt.Errorf("bad \\u escape at %d", p.i)
				}
				p.i += 4
				if utf16.IsSurrogate(r) {
					// needs a following low surrogate escape
					if r < 0xDC00 && p.i+6 <= len(p.b) && p.b[p.i] == '\\' && p.b[p.i+1] == 'u' {
						if r2, ok := hex4(p.b[p.i+2:]); ok && r2 >= 0xDC00 && r2 <= 0xDFFF {
							p.i += 6
							sb.WriteRune(utf16.DecodeRune(r, r2))
							continue
						}
					}
					p.info.IllFormed = true
					sb.WriteRune(utf8.RuneError)
					continue
				}
				sb.WriteRune(r)
			default:
				return "", fmt.Errorf("bad escape at %d", p.i)
			}
		case c < 0x80:
			sb.WriteByte(c)
			p.i++
		default:
			r, n := utf8.DecodeRune(p.b[p.i:])
			if r == utf8.RuneError && n <= 1 {
				p.info.IllFormed = true
				sb.WriteRune(utf8.RuneError)
				p.i++
				continue
			}
			sb.WriteRune(r)
			p.i += n
		}
	}
}

// lessRunes orders strings by Unicode code point.
func lessRunes(a, b string) bool {
	ra, rb := []rune(a), []rune(b)
	for i := 0; i < len(ra) && i < len(rb); i++ {
		if ra[i] != rb[i] {
			return ra[i] < rb[i]
		}
	}
	return len(ra) < len(rb)
}

const hexd = "0123456789abcdef"

// AppendString writes a string in the Matrix canonical spelling: only '"',
// '\' and C0 controls are escaped, with the two-character escape where one
// exists and \u00xx (lower-case) otherwise.
func AppendString(out []byte, s string) []byte {
	out = append(out, '"')
	for _, r := range s {
		switch {
		case r == '"' || r == '\\':
			out = append(out, '\\', byte(r))
		case r == 8:
			out = append(out, '\\', 'b')
		case r == 9:
			out = append(out, '\\', 't')
		case r == 10:
			out = append(out, '\\', 'n')
		case r == 12:
			out = append(out, '\\', 'f')
		case r == 13:
			out = append(out, '\\', 'r')
		case r < 0x20:
			out = append(out, '\\', 'u', '0', '0', hexd[r>>4], hexd[r&15])
		default:
			out = utf8.AppendRune(out, r)
		}
	}
	return append(out, '"')
}

// Canon encodes a value in Matrix canonical JSON. Number literals are kept
// as written except that "-0" becomes "0" (the only rewrite the property
// lists).
func Canon(v *Value) []byte { return appendCanon(nil, v, false) }

// CanonNorm is Canon with every number written as a normalised rational, so
// that two values are equal iff their CanonNorm bytes are equal.
func CanonNorm(v *Value) []byte { return appendCanon(nil, v, true) }

func appendCanon(out []byte, v *Value, norm bool) []byte {
	switch v.K {
	case Null:
		return append(out, "null"...)
	case Bool:
		if v.B {
			return append(out, "true"...)
		}
		return append(out, "false"...)
	case Num:
		if norm {
			return append(out, NumRat(v.N).RatString()...)
		}
		if v.N == "-0" {
			return append(out, '0')
		}
		return append(out, v.N...)
	case Str:
		return AppendString(out, v.S)
	case Arr:
		out = append(out, '[')
		for i, e := range v.A {
			if i > 0 {
				out = append(out, ',')
			}
			out = appendCanon(out, e, norm)
		}
		return append(out, ']')
	case Obj:
		ms := append([]Member(nil), v.O...)
		sort.SliceStable(ms, func(i, j int) bool { return lessRunes(ms[i].Key, ms[j].Key) })
		out = append(out, '{')
		for i, m := range ms {
			if i > 0 {
				out = append(out, ',')
			}
			out = AppendString(out, m.Key)
			out = append(out, ':')
			out = appendCanon(out, m.Val, norm)
		}
		return append(out, '}')
	}
	panic("bad kind")
}

// NumRat returns the exact value of a JSON number literal.
func NumRat(lit string) *big.Rat {
	r, ok := new(big.Rat).SetString(lit)
	if !ok {
		panic("bad number literal " + lit)
	}
	return r
}

// Equal compares two values (numbers numerically, objects as maps).
func Equal(a, b *Value) bool { return bytes.Equal(CanonNorm(a), CanonNorm(b)) }

// PlainInt reports whether a literal is an integer literal -?(0|[1-9][0-9]*).
func PlainInt(lit string) bool {
	s := strings.TrimPrefix(lit, "-")
	if s == "" {
		return false
	}
	for _, c := range s {
		if c < '0' || c > '9' {
			return false
		}
	}
	return s == "0" || s[0] != '0'
}

var maxSafe = big.NewInt(9007199254740991)

// EnforcedOK reports whether every number of v is an integer literal within
// ±(2^53−1) and not negative zero — the acceptance rule of the enforced
// canonical JSON of room versions 6 and later.
func EnforcedOK(v *Value) bool {
	ok := true
	Walk(v, func(x *Value) {
		if x.K != Num {
			return
		}
		if !PlainInt(x.N) || x.N == "-0" {
			ok = false
			return
		}
		n, _ := new(big.Int).SetString(x.N, 10)
		if n.CmpAbs(maxSafe) > 0 {
			ok = false
		}
	})
	return ok
}

// Walk visits every value of a tree.
func Walk(v *Value, f func(*Value)) {
	f(v)
	for _, e := range v.A {
		Walk(e, f)
	}
	for _, m := range v.O {
		Walk(m.Val, f)
	}
}

// Get returns the member of an object (nil if absent or not an object).
func (v *Value) Get(key string) *Value {
	if v == nil || v.K != Obj {
		return nil
	}
	for i := len(v.O) - 1; i >= 0; i-- {
		if v.O[i].Key == key {
			return v.O[i].Val
		}
	}
	return nil
}

// Keys returns the sorted key set of an object.
func (v *Value) Keys() []string {
	if v == nil || v.K != Obj {
		return nil
	}
	ks := make([]string, 0, len(v.O))
	for _, m := range v.O {
		ks = append(ks, m.Key)
	}
	sort.Strings(ks)
	return ks
}

// Set replaces or appends a member (returns the receiver).
func (v *Value) Set(key string, val *Value) *Value {
	for i := range v.O {
		if v.O[i].Key == key {
			v.O[i].Val = val
			return v
		}
	}
	v.O = append(v.O, Member{key, val})
	return v
}

// Del removes a member.
func (v *Value) Del(key string) {
	out := v.O[:0:0]
	for _, m := range v.O {
		if m.Key != key {
			out = append(out, m)
		}
	}
	v.O = out
}

// Clone deep-copies a value.
func (v *Value) Clone() *Value {
	if v == nil {
		return nil
	}
	c := *v
	if v.A != nil {
		c.A = make([]*Value, len(v.A))
		for i, e := range v.A {
			c.A[i] = e.Clone()
		}
	}
	if v.O != nil {
		c.O = make([]Member, len(v.O))
		for i, m := range v.O {
			c.O[i] = Member{m.Key, m.Val.Clone()}
		}
	}
	return &c
}

// Constructors.
func S(s string) *Value   { return &Value{K: Str, S: s} }
func I(n int64) *Value    { return &Value{K: Num, N: strconv.FormatInt(n, 10)} }
func NumLit(l string) *Value { return &Value{K: Num, N: l} }
func B(b bool) *Value     { return &Value{K: Bool, B: b} }
func NullV() *Value       { return &Value{K: Null} }
func O(kv ...any) *Value {
	v := &Value{K: Obj}
	for i := 0; i+1 < len(kv); i += 2 {
		v.O = append(v.O, Member{kv[i].(string), kv[i+1].(*Value)})
	}
	return v
}
func A(vs ...*Value) *Value { return &Value{K: Arr, A: append([]*Value{}, vs...)} }

// Int returns the integer value of a number literal if it is a plain integer
// that fits int64.
func (v *Value) Int() (int64, bool) {
	if v == nil || v.K != Num || !PlainInt(v.N) {
		return 0, false
	}
	n, err := strconv.ParseInt(v.N, 10, 64)
	return n, err == nil
}

// Str returns the string value.
func (v *Value) Str() (string, bool) {
	if v == nil || v.K != Str {
		return "", false
	}
	return v.S, true
}
