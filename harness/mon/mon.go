// Package mon is the monitor runtime: it numbers and logs cases, recovers
// panics, records violations with a signature and a replayable reference,
// counts what the monitors observed and writes the child's result file.
package mon

import (
	"encoding/json"
	"fmt"
	"os"
	"regexp"
	"runtime"
	"sort"
	"strconv"
	"strings"
	"sync"
	"time"

	"verif/gen"
)

// Violation is one refuting observation.
type Violation struct {
	Sig       string `json:"sig"`
	Detail    string `json:"detail"`
	Shard     int    `json:"shard"`
	CaseIndex int64  `json:"case_index"`
	CaseName  string `json:"case_name"`
	Input     any    `json:"input,omitempty"`
	Count     int64  `json:"count"`
}

// Result is what one child process reports.
type Result struct {
	Prop       string           `json:"prop"`
	Tier       string           `json:"tier"`
	Seed       uint64           `json:"seed"`
	Shard      int              `json:"shard"`
	NShards    int              `json:"nshards"`
	Evals      int64            `json:"evals"`
	Hashes     []uint64         `json:"hashes"` // distinct non-trivial case hashes
	Hist       map[string]int64 `json:"hist"`
	Floors     map[string]int64 `json:"floors"`
	Samples    []any            `json:"samples"`
	Violations []*Violation     `json:"violations"`
	Notes      []string         `json:"notes"`
	// Agree holds values that every shard (separate OS process) computing the
	// same key must agree on; the driver compares them across shards.
	Agree      map[string]string `json:"agree,omitempty"`
	Exhaustive bool             `json:"exhaustive"`
	Complete   bool             `json:"complete"`
	WallS      float64          `json:"wall_s"`
}

// Ctx is handed to a property workload.
type Ctx struct {
	Prop    string
	Tier    string
	Seed    uint64
	Shard   int
	NShards int
	// ReplayIndex >= 0 executes only that case.
	ReplayIndex int64
	// LogCases writes every case to the last-case file before running it
	// (needed where a case can kill the process).
	LogCases bool

	mu       sync.Mutex
	res      Result
	idx      int64
	curName  string
	curInput any
	hashes   map[uint64]struct{}
	vio      map[string]*Violation
	lastFile *os.File
	start    time.Time
	maxSamp  int
	kept     []*retained
}

// New creates a context.
func New(prop, tier string, seed uint64, shard, nshards int, lastCasePath string) *Ctx {
	c := &Ctx{Prop: prop, Tier: tier, Seed: seed, Shard: shard, NShards: nshards, ReplayIndex: -1,
		hashes: map[uint64]struct{}{}, vio: map[string]*Violation{}, start: time.Now(), maxSamp: 4}
	c.res = Result{Prop: prop, Tier: tier, Seed: seed, Shard: shard, NShards: nshards,
		Hist: map[string]int64{}, Floors: map[string]int64{}}
	if lastCasePath != "" {
		f, err := os.OpenFile(lastCasePath, os.O_CREATE|os.O_RDWR|os.O_TRUNC, 0o644)
		if err == nil {
			c.lastFile = f
		}
	}
	return c
}

// Thorough reports whether the thorough tier is running.
func (c *Ctx) Thorough() bool { return c.Tier == "thorough" }

// quickMult multiplies the seeded-random part of the quick tier for the checks
// that the sizes they were first written with left at one to four seconds (the
// factors bring them to 2 - 15 s on the 16-core sandbox; the thorough tier runs
// the same loops 100 times longer still). The
// factor is part of the definition of the case list, so a replay file stays
// valid; VERIF_QUICK_MULT overrides it for experiments only.
var quickMult = map[string]int{"C01": 10, "C12": 10, "C17": 10, "C02": 4, "C03": 4, "C13": 4, "C15": 4}

// QuickMult returns the factor for a property (1 if none is registered).
func QuickMult(prop string) int {
	if s := os.Getenv("VERIF_QUICK_MULT"); s != "" {
		if v, err := strconv.Atoi(s); err == nil && v > 0 {
			return v
		}
	}
	if m, ok := quickMult[prop]; ok && m > 0 {
		return m
	}
	return 1
}

// Scale picks a tier-dependent size and divides it over the shards.
func (c *Ctx) Scale(quick, thorough int) int {
	n := quick * QuickMult(c.Prop)
	if n > thorough && thorough >= quick {
		n = thorough
	}
	if c.Thorough() {
		n = thorough
	}
	per := n / c.NShards
	if c.Shard < n%c.NShards {
		per++
	}
	return per
}

// Mine reports whether item i of an enumerated space belongs to this shard.
func (c *Ctx) Mine(i int) bool { return i%c.NShards == c.Shard }

// Rand returns the PRNG stream for a label (stable per prop/seed/shard).
func (c *Ctx) Rand(label string) *gen.Rand {
	return gen.NewRand(c.Seed, c.Prop, fmt.Sprint(c.Shard), label)
}

// RandShared returns a PRNG stream that is identical in every shard.
func (c *Ctx) RandShared(label string) *gen.Rand {
	return gen.NewRand(c.Seed, c.Prop, label)
}

// Case runs one numbered case. input is kept for the replay file; it is
// marshalled only when needed.
func (c *Ctx) Case(name string, input any, fn func()) {
	c.mu.Lock()
	idx := c.idx
	c.idx++
	if c.ReplayIndex >= 0 && idx != c.ReplayIndex {
		c.mu.Unlock()
		return
	}
	c.curName, c.curInput = name, input
	c.res.Evals++
	if c.LogCases && c.lastFile != nil {
		b, _ := json.Marshal(map[string]any{"shard": c.Shard, "case_index": idx, "case_name": name, "input": input})
		b = append(b, '\n')
		c.lastFile.WriteAt(b, 0)
		c.lastFile.Truncate(int64(len(b)))
	}
	c.mu.Unlock()
	defer func() {
		if r := recover(); r != nil {
			site, stack := PanicSite()
			c.FailAt(idx, name, input, "panic:"+site+":"+panicClass(r), fmt.Sprintf("panic: %v\n%s", r, stack))
		}
	}()
	fn()
}

// Guard runs fn, converting a panic into a returned description (for
// workloads where a panic is the observed event itself).
func Guard(fn func()) (site string, msg string, panicked bool) {
	defer func() {
		if r := recover(); r != nil {
			s, _ := PanicSite()
			site, msg, panicked = s, fmt.Sprint(r), true
		}
	}()
	fn()
	return
}

var lineRe = regexp.MustCompile(`:\d+( \+0x[0-9a-f]+)?$`)

// PanicSite returns the innermost gomatrixserverlib frame of the current
// panic (function name without line numbers) and a trimmed stack.
func PanicSite() (string, string) {
	pcs := make([]uintptr, 64)
	n := runtime.Callers(2, pcs)
	frames := runtime.CallersFrames(pcs[:n])
	site := ""
	var sb strings.Builder
	seenPanic := false
	for {
		f, more := frames.Next()
		if strings.HasPrefix(f.Function, "runtime.gopanic") || strings.HasPrefix(f.Function, "runtime.panic") || strings.HasPrefix(f.Function, "runtime.goPanic") || strings.HasPrefix(f.Function, "runtime.sigpanic") {
			seenPanic = true
		} else if seenPanic {
			fmt.Fprintf(&sb, "  %s (%s:%d)\n", f.Function, shortFile(f.File), f.Line)
			if site == "" && strings.Contains(f.Function, "matrix-org/gomatrixserverlib") {
				site = shortFunc(f.Function)
			}
		}
		if !more {
			break
		}
	}
	if site == "" {
		site = "outside-library"
	}
	return site, sb.String()
}

func shortFile(f string) string {
	if i := strings.LastIndex(f, "/"); i >= 0 {
		return f[i+1:]
	}
	return f
}

func shortFunc(f string) string {
	f = strings.TrimPrefix(f, "github.com/matrix-org/gomatrixserverlib")
	f = strings.TrimPrefix(f, "/")
	f = strings.TrimPrefix(f, ".")
	// drop closure suffixes
	for {
		i := strings.LastIndex(f, ".func")
		if i < 0 {
			break
		}
		f = f[:i]
	}
	return f
}

func panicClass(r any) string {
	s := fmt.Sprint(r)
	switch {
	case strings.Contains(s, "nil map"):
		return "nil-map"
	case strings.Contains(s, "nil pointer"):
		return "nil-deref"
	case strings.Contains(s, "index out of range"):
		return "index"
	case strings.Contains(s, "slice bounds"):
		return "slice-bounds"
	case strings.Contains(s, "interface conversion"):
		return "type-assert"
	case strings.Contains(s, "divide by zero"):
		return "div-zero"
	}
	// explicit panic(...) in the library: first words, digits stripped
	s = regexp.MustCompile(`[^a-zA-Z ]+`).ReplaceAllString(s, "")
	w := strings.Fields(s)
	if len(w) > 4 {
		w = w[:4]
	}
	return "explicit-" + strings.Join(w, "-")
}

// Fail records a violation for the current case.
func (c *Ctx) Fail(sig, detail string) {
	c.mu.Lock()
	idx, name, input := c.idx-1, c.curName, c.curInput
	c.mu.Unlock()
	c.FailAt(idx, name, input, sig, detail)
}

// Failf is Fail with formatting.
func (c *Ctx) Failf(sig, format string, a ...any) { c.Fail(sig, fmt.Sprintf(format, a...)) }

// FailAt records a violation for a given case.
func (c *Ctx) FailAt(idx int64, name string, input any, sig, detail string) {
	c.mu.Lock()
	defer c.mu.Unlock()
	if v, ok := c.vio[sig]; ok {
		v.Count++
		return
	}
	if len(detail) > 6000 {
		detail = detail[:6000] + "…"
	}
	// round-trip the input now so later mutation cannot change it
	var frozen any
	if b, err := json.Marshal(input); err == nil {
		frozen = json.RawMessage(b)
	} else {
		frozen = fmt.Sprintf("%#v", input)
	}
	v := &Violation{Sig: sig, Detail: detail, Shard: c.Shard, CaseIndex: idx, CaseName: name, Input: frozen, Count: 1}
	c.vio[sig] = v
	c.res.Violations = append(c.res.Violations, v)
}

// Eval counts one evaluation made inside a case (a case that checks many
// inputs of its own, e.g. every address against one policy configuration).
func (c *Ctx) Eval() {
	c.mu.Lock()
	c.res.Evals++
	c.mu.Unlock()
}

// Count increments a histogram bucket.
func (c *Ctx) Count(key string) { c.CountN(key, 1) }

// CountN adds n to a histogram bucket.
func (c *Ctx) CountN(key string, n int64) {
	c.mu.Lock()
	c.res.Hist[key] += n
	c.mu.Unlock()
}

// Floor declares that the merged histogram bucket must reach min, else the
// run is inconclusive (the monitor observed too little to speak).
func (c *Ctx) Floor(key string, min int64) {
	c.mu.Lock()
	c.res.Floors[key] = min
	c.mu.Unlock()
}

// Nontrivial registers a distinct non-trivial case by its canonical key
// (process-independent hash, so shards can be merged).
func (c *Ctx) Nontrivial(key string) { c.NontrivialBytes([]byte(key)) }

// NontrivialBytes registers a distinct non-trivial case by bytes.
func (c *Ctx) NontrivialBytes(key []byte) {
	h := fnv64(key)
	c.mu.Lock()
	c.hashes[h] = struct{}{}
	c.mu.Unlock()
}

func fnv64(b []byte) uint64 {
	const (
		off   = 14695981039346656037
		prime = 1099511628211
	)
	h := uint64(off)
	for _, c := range b {
		h ^= uint64(c)
		h *= prime
	}
	return h
}

// Sample keeps a few written-out cases for the evidence file.
func (c *Ctx) Sample(s any) {
	c.mu.Lock()
	defer c.mu.Unlock()
	if len(c.res.Samples) < c.maxSamp {
		if b, err := json.Marshal(s); err == nil {
			if len(b) > 3000 {
				b, _ = json.Marshal(string(b[:3000]) + "…")
			}
			c.res.Samples = append(c.res.Samples, json.RawMessage(b))
		}
	}
}

// WantSample reports whether more samples are wanted (to avoid building them).
func (c *Ctx) WantSample() bool {
	c.mu.Lock()
	defer c.mu.Unlock()
	return len(c.res.Samples) < c.maxSamp
}

// Note adds a free-text note to the evidence.
func (c *Ctx) Note(format string, a ...any) {
	c.mu.Lock()
	c.res.Notes = append(c.res.Notes, fmt.Sprintf(format, a...))
	c.mu.Unlock()
}

// Agree publishes a value that other shards (other processes) computing the
// same key must reproduce exactly.
func (c *Ctx) Agree(key, value string) {
	c.mu.Lock()
	if c.res.Agree == nil {
		c.res.Agree = map[string]string{}
	}
	c.res.Agree[key] = value
	c.mu.Unlock()
}

// SetExhaustive flags that a finite sub-space was enumerated completely.
func (c *Ctx) SetExhaustive() { c.res.Exhaustive = true }

// Finish writes the result file.
func (c *Ctx) Finish(path string) error {
	c.mu.Lock()
	defer c.mu.Unlock()
	c.res.Complete = true
	c.res.WallS = time.Since(c.start).Seconds()
	c.res.Hashes = make([]uint64, 0, len(c.hashes))
	for h := range c.hashes {
		c.res.Hashes = append(c.res.Hashes, h)
	}
	sort.Slice(c.res.Hashes, func(i, j int) bool { return c.res.Hashes[i] < c.res.Hashes[j] })
	b, err := json.Marshal(&c.res)
	if err != nil {
		return err
	}
	return os.WriteFile(path, b, 0o644)
}

// Violations returns how many distinct signatures were recorded.
func (c *Ctx) Violations() int {
	c.mu.Lock()
	defer c.mu.Unlock()
	return len(c.vio)
}

// retained is one result of an earlier library call that the monitor keeps
// hold of: the slice as it was handed out and a private copy of its bytes.
type retained struct {
	live, copy []byte
	what       string
	idx        int64
	name       string
	input      any
}

// Retain keeps hold of a byte slice the library handed out (at most 48 at a
// time, oldest dropped first) and first re-examines everything retained so
// far: a result that a LATER call of the library changed - because it lives
// in a pooled or shared buffer - is reported as <sigPrefix>:earlier-result-
// changed-by-a-later-call, against the case that received it.
func (c *Ctx) Retain(sigPrefix, what string, b []byte) {
	c.CheckRetained(sigPrefix)
	if len(b) == 0 {
		return
	}
	c.mu.Lock()
	r := &retained{live: b, copy: append([]byte(nil), b...), what: what, idx: c.idx - 1, name: c.curName, input: c.curInput}
	c.kept = append(c.kept, r)
	if len(c.kept) > 48 {
		c.kept = c.kept[len(c.kept)-48:]
	}
	c.res.Hist["results_retained_across_later_calls"]++
	c.mu.Unlock()
}

// CheckRetained compares every retained result with its copy.
func (c *Ctx) CheckRetained(sigPrefix string) {
	c.mu.Lock()
	kept := c.kept
	c.mu.Unlock()
	for i, r := range kept {
		if r == nil || string(r.live) == string(r.copy) {
			continue
		}
		c.FailAt(r.idx, r.name, r.input, sigPrefix+":earlier-result-changed-by-a-later-call",
			fmt.Sprintf("%s was %q when it was returned and reads %q after later calls of the library", r.what, clip(r.copy), clip(r.live)))
		c.mu.Lock()
		if i < len(c.kept) && c.kept[i] == r {
			r.copy = append([]byte(nil), r.live...)
		}
		c.mu.Unlock()
	}
}

func clip(b []byte) []byte {
	if len(b) > 300 {
		return append(append([]byte(nil), b[:300]...), "..."...)
	}
	return b
}

// Guarded hands a text to the library the way a caller holding a larger buffer does: as a sub-slice whose capacity
// reaches into 64 bytes that belong to somebody else. The returned function reports (as a short description, "" if
// all is well) whether a call wrote into the caller's text or into the bytes behind it - which is what an in-place
// edit, or an append onto the slice it was given, does.
func Guarded(text []byte) ([]byte, func() string) {
	const n = 64
	buf := make([]byte, len(text)+n)
	copy(buf, text)
	for i := len(text); i < len(buf); i++ {
		buf[i] = 0xA5 ^ byte(i)
	}
	in := buf[:len(text) : len(buf)]
	return in, func() string {
		for i := len(text); i < len(buf); i++ {
			if buf[i] != 0xA5^byte(i) {
				return fmt.Sprintf("bytes behind the text it was given were overwritten (offset +%d)", i-len(text))
			}
		}
		if string(buf[:len(text)]) != string(text) {
			return "the text it was given was rewritten in place"
		}
		return ""
	}
}

// ConcurrentReplay asks n questions first one after the other and then from eight goroutines at once (each goroutine
// all of them, each twice in a row, four rounds - two spread out, two crowded around the same few questions) and reports every answer that differs from the one the
// sequential pass gave: a function of its arguments gives the same answer whoever else is calling at that moment.
// fn must be deterministic apart from what the library does and safe to call concurrently as far as the harness's own
// data goes.
func (c *Ctx) ConcurrentReplay(sigPrefix string, n int, fn func(i int) string) {
	if n == 0 {
		return
	}
	want := make([]string, n)
	for i := range want {
		want[i] = fn(i)
	}
	var wg sync.WaitGroup
	const g = 8
	var mu sync.Mutex
	reported := 0
	var calls int64
	for k := 0; k < g; k++ {
		wg.Add(1)
		go func(k int) {
			defer wg.Done()
			local := int64(0)
			for round := 0; round < 4; round++ {
				for j := 0; j < 2*n; j++ {
					// rounds 0 and 1: every goroutine all questions, from different starting points; rounds 2 and 3: all
					// goroutines crowd around the same few questions, each asked twice in a row (what one call leaves
					// behind is what the next one - of this goroutine or of another - finds)
					i := (j/2*7 + k*(n/g+1) + round) % n
					if round >= 2 {
						i = (j/16*3 + (j/2+k)%3) % n
					}
					var got string
					func() {
						defer func() {
							if r := recover(); r != nil {
								got = fmt.Sprintf("panic: %v", r)
							}
						}()
						got = fn(i)
					}()
					local++
					if got != want[i] {
						mu.Lock()
						if reported < 3 {
							reported++
							c.Failf(sigPrefix+":concurrent-call-differs", "question %d answered %q on its own and %q while seven other goroutines were calling", i, clip([]byte(want[i])), clip([]byte(got)))
						}
						mu.Unlock()
					}
				}
			}
			mu.Lock()
			calls += local
			mu.Unlock()
		}(k)
	}
	wg.Wait()
	c.CountN("calls_made_concurrently", calls)
}
