package gen

import (
	"fmt"
	"strings"
	"unicode/utf8"

	"verif/ref"
)

// Interesting runes for JSON strings: every escape class.
var strRunes = []rune{'a', 'b', 'z', 'A', '0', ' ', '"', '\\', '/', 0, 1, 8, 9, 10, 12, 13, 0x1f, 0x7f, 0xe9, 0x2028, 0xffff, 0x10000, 0x1f600, 'k', '_', '.', ':', '@', '$', '!', '<', '>', '&'}

// strFragments are texts that look like JSON escapes (a backslash and what follows it, as characters of the string itself):
// whatever un-escapes or re-escapes serialised JSON by text replacement trips over them.
var strFragments = []string{`\u0026`, `\u003c`, `\u003e`, `\u2028`, `\u0000`, `\n`, `\"`, `\\`, `\ud800`, `&amp;`}

// NumberAtoms are number literals around every boundary of interest.
var NumberAtoms = []string{"0", "-0", "1", "-1", "10", "42", "-17", "9007199254740991", "-9007199254740991", "9007199254740992", "-9007199254740992",
	"9007199254740993", "18446744073709551616", "0.5", "-0.5", "1.5", "-1.5", "1.0", "0.0", "-0.0", "1e2", "1E2", "1e+2", "1E-2", "0e1", "-0e1", "1.5e3", "2.5E-3", "1e400", "100", "-100", "50", "1e0", "123456789", "0.1", "-0.25",
	"1e-05", "1e-0", "3E-01", "5e+00", "2e05", "1.5e-00", "-2E-007", "0e-0", "10e-01"}

// RandNumberLit draws a literal from the whole JSON number grammar -?(0|[1-9][0-9]*)(\.[0-9]+)?([eE][+-]?[0-9]+)?,
// including zeros after the exponent sign, trailing fraction zeros and zero mantissas.
func RandNumberLit(r *Rand) string {
	var sb strings.Builder
	if r.Chance(0.4) {
		sb.WriteByte('-')
	}
	digits := func(n int, lead bool) {
		for i := 0; i < n; i++ {
			d := byte('0' + r.Intn(10))
			if r.Chance(0.35) {
				d = '0'
			}
			if i == 0 && lead && d == '0' {
				d = '1' + byte(r.Intn(9))
			}
			sb.WriteByte(d)
		}
	}
	if r.Chance(0.3) {
		sb.WriteByte('0')
	} else {
		digits(r.Range(1, 6), true)
	}
	if r.Chance(0.4) {
		sb.WriteByte('.')
		digits(r.Range(1, 4), false)
	}
	if r.Chance(0.6) {
		sb.WriteByte("eE"[r.Intn(2)])
		if r.Chance(0.7) {
			sb.WriteByte("+-"[r.Intn(2)])
		}
		digits(r.Range(1, 3), false)
	}
	return sb.String()
}


// RandString produces a string over the interesting alphabet.
func RandString(r *Rand, maxLen int) string {
	n := r.Intn(maxLen + 1)
	var sb strings.Builder
	for i := 0; i < n; i++ {
		if r.Chance(0.04) {
			sb.WriteString(Pick(r, strFragments))
			continue
		}
		sb.WriteRune(Pick(r, strRunes))
	}
	return sb.String()
}

// JSONOpts bound a generated value.
type JSONOpts struct {
	Depth    int
	Width    int
	Numbers  []string // literals to draw from; nil = NumberAtoms
	StrLen   int
	PlainKey bool // keys over [a-z0-9_.] only
}

// RandValue generates a JSON value tree.
func RandValue(r *Rand, o JSONOpts) *ref.Value {
	if o.StrLen == 0 {
		o.StrLen = 6
	}
	nums := o.Numbers
	if nums == nil {
		nums = NumberAtoms
	}
	k := r.Intn(10)
	if o.Depth <= 0 && k >= 6 {
		k = r.Intn(6)
	}
	switch k {
	case 0:
		return ref.NullV()
	case 1:
		return ref.B(r.Chance(0.5))
	case 2, 3:
		if o.Numbers == nil && r.Chance(0.25) {
			return ref.NumLit(RandNumberLit(r))
		}
		return ref.NumLit(Pick(r, nums))
	case 4, 5:
		return ref.S(RandString(r, o.StrLen))
	case 6, 7:
		n := r.Intn(o.Width + 1)
		v := &ref.Value{K: ref.Arr}
		sub := o
		sub.Depth--
		for i := 0; i < n; i++ {
			v.A = append(v.A, RandValue(r, sub))
		}
		return v
	default:
		return RandObject(r, o)
	}
}

// RandObject generates an object with distinct keys.
func RandObject(r *Rand, o JSONOpts) *ref.Value {
	if o.StrLen == 0 {
		o.StrLen = 6
	}
	n := r.Intn(o.Width + 1)
	v := &ref.Value{K: ref.Obj}
	sub := o
	sub.Depth--
	seen := map[string]bool{}
	for i := 0; i < n; i++ {
		var k string
		if o.PlainKey {
			k = plainKey(r)
		} else if r.Chance(0.5) {
			k = plainKey(r)
		} else {
			k = RandString(r, 4)
		}
		if seen[k] {
			continue
		}
		seen[k] = true
		v.O = append(v.O, ref.Member{Key: k, Val: RandValue(r, sub)})
	}
	return v
}

func plainKey(r *Rand) string {
	const al = "abcdefghijklmnopqrstuvwxyz0123456789_."
	n := r.Range(1, 5)
	b := make([]byte, n)
	for i := range b {
		b[i] = al[r.Intn(len(al))]
	}
	return string(b)
}

// Render writes a value as one of its many textual presentations: random
// insignificant whitespace, random key order, random legal escape spelling
// per character, "0" sometimes written "-0".
type Render struct {
	R          *Rand
	Whitespace bool
	Shuffle    bool
	Escapes    bool
	NegZero    bool
	// Solidus writes every "/" as "\/" and nothing else differently (what PHP's json_encode does by default)
	Solidus bool
}

// Scramble returns a renderer with every presentation freedom on.
func Scramble(r *Rand) *Render {
	return &Render{R: r, Whitespace: true, Shuffle: true, Escapes: true, NegZero: true}
}

// Plain returns a renderer that writes compact, source-ordered JSON with
// minimal escapes (deterministic).
func Plain() *Render { return &Render{} }

func (p *Render) ws(out []byte) []byte {
	if !p.Whitespace {
		return out
	}
	for p.R.Chance(0.3) {
		out = append(out, " \t\n\r"[p.R.Intn(4)])
	}
	return out
}

// Bytes renders the value.
func (p *Render) Bytes(v *ref.Value) []byte {
	out := p.ws(nil)
	out = p.val(out, v)
	return p.ws(out)
}

func (p *Render) val(out []byte, v *ref.Value) []byte {
	switch v.K {
	case ref.Null:
		return append(out, "null"...)
	case ref.Bool:
		if v.B {
			return append(out, "true"...)
		}
		return append(out, "false"...)
	case ref.Num:
		if p.NegZero && v.N == "0" && p.R.Chance(0.3) {
			return append(out, "-0"...)
		}
		return append(out, v.N...)
	case ref.Str:
		return p.str(out, v.S)
	case ref.Arr:
		out = append(out, '[')
		for i, e := range v.A {
			if i > 0 {
				out = append(out, ',')
			}
			out = p.ws(out)
			out = p.val(out, e)
			out = p.ws(out)
		}
		if len(v.A) == 0 {
			out = p.ws(out)
		}
		return append(out, ']')
	case ref.Obj:
		ms := v.O
		if p.Shuffle {
			ms = Shuffled(p.R, ms)
		}
		out = append(out, '{')
		for i, m := range ms {
			if i > 0 {
				out = append(out, ',')
			}
			out = p.ws(out)
			out = p.str(out, m.Key)
			out = p.ws(out)
			out = append(out, ':')
			out = p.ws(out)
			out = p.val(out, m.Val)
			out = p.ws(out)
		}
		if len(ms) == 0 {
			out = p.ws(out)
		}
		return append(out, '}')
	}
	panic("kind")
}

func (p *Render) hex4(out []byte, r rune) []byte {
	const lo, up = "0123456789abcdef", "0123456789ABCDEF"
	out = append(out, '\\', 'u')
	for s := 12; s >= 0; s -= 4 {
		d := (r >> uint(s)) & 15
		if p.R != nil && p.R.Chance(0.5) {
			out = append(out, up[d])
		} else {
			out = append(out, lo[d])
		}
	}
	return out
}

func (p *Render) str(out []byte, s string) []byte {
	out = append(out, '"')
	for _, r := range s {
		mustEscape := r == '"' || r == '\\' || r < 0x20
		short := byte(0)
		switch r {
		case '"':
			short = '"'
		case '\\':
			short = '\\'
		case '/':
			short = '/'
		case 8:
			short = 'b'
		case 9:
			short = 't'
		case 10:
			short = 'n'
		case 12:
			short = 'f'
		case 13:
			short = 'r'
		}
		choice := 0 // 0 raw, 1 short, 2 \u
		if !p.Escapes {
			if p.Solidus && r == '/' {
				choice = 1
			}
			if mustEscape {
				if short != 0 {
					choice = 1
				} else {
					choice = 2
				}
			}
		} else {
			opts := []int{}
			if !mustEscape {
				opts = append(opts, 0, 0, 0)
			}
			if short != 0 {
				opts = append(opts, 1)
			}
			opts = append(opts, 2)
			choice = opts[p.R.Intn(len(opts))]
		}
		switch choice {
		case 0:
			out = utf8.AppendRune(out, r)
		case 1:
			out = append(out, '\\', short)
		case 2:
			if r >= 0x10000 {
				r -= 0x10000
				out = p.hex4(out, 0xD800+(r>>10))
				out = p.hex4(out, 0xDC00+(r&0x3ff))
			} else {
				out = p.hex4(out, r)
			}
		}
	}
	return append(out, '"')
}

// EnumValues enumerates every value of depth <= depth and width <= width over
// small atom and key alphabets, calling f for each. Returns the count.
func EnumValues(depth, width int, atoms []*ref.Value, keys []string, f func(*ref.Value)) int {
	var build func(d int) []*ref.Value
	memo := map[int][]*ref.Value{}
	build = func(d int) []*ref.Value {
		if v, ok := memo[d]; ok {
			return v
		}
		out := append([]*ref.Value{}, atoms...)
		if d > 0 {
			sub := build(d - 1)
			// arrays of length 0..width
			out = append(out, ref.A())
			var rec func(cur []*ref.Value)
			rec = func(cur []*ref.Value) {
				if len(cur) > 0 {
					out = append(out, ref.A(cur...))
				}
				if len(cur) == width {
					return
				}
				for _, s := range sub {
					rec(append(append([]*ref.Value{}, cur...), s))
				}
			}
			rec(nil)
			// objects with 0..width distinct keys (key sets as ordered selections)
			out = append(out, ref.O())
			var reco func(start int, cur []ref.Member)
			reco = func(start int, cur []ref.Member) {
				if len(cur) > 0 {
					out = append(out, &ref.Value{K: ref.Obj, O: append([]ref.Member{}, cur...)})
				}
				if len(cur) == width {
					return
				}
				for ki := start; ki < len(keys); ki++ {
					for _, s := range sub {
						reco(ki+1, append(append([]ref.Member{}, cur...), ref.Member{Key: keys[ki], Val: s}))
					}
				}
			}
			reco(0, nil)
		}
		memo[d] = out
		return out
	}
	all := build(depth)
	for _, v := range all {
		f(v)
	}
	return len(all)
}

// BreakJSON applies one grammar-breaking edit to a valid text. The result is
// intended to be invalid; callers confirm with the reference parser.
func BreakJSON(r *Rand, text []byte) ([]byte, string) {
	b := append([]byte{}, text...)
	ins := func(i int, s string) []byte {
		return append(append(append([]byte{}, b[:i]...), s...), b[i:]...)
	}
	pos := func() int { return r.Intn(len(b) + 1) }
	switch k := r.Intn(16); k {
	case 0:
		if len(b) > 1 {
			return b[:r.Range(0, len(b)-1)], "truncate"
		}
		return []byte{}, "truncate"
	case 1:
		return ins(pos(), ","), "stray-comma"
	case 2:
		return ins(pos(), ":"), "stray-colon"
	case 3:
		return ins(pos(), "\\x"), "bad-escape"
	case 4:
		return ins(pos(), string([]byte{byte(r.Intn(0x20))})), "raw-control"
	case 5:
		return append(b, "x"...), "trailing-garbage"
	case 6:
		return append(b, b...), "doubled"
	case 7:
		return ins(pos(), "01"), "leading-zero"
	case 8:
		return ins(pos(), "+1"), "plus"
	case 9:
		return ins(pos(), "1."), "dangling-dot"
	case 10:
		return ins(pos(), "]"), "stray-close"
	case 11:
		return ins(pos(), "{"), "stray-open"
	case 12:
		return ins(pos(), "\""), "stray-quote"
	case 13:
		return ins(pos(), "\\u12"), "short-unicode"
	case 14:
		return ins(pos(), "tru"), "bad-literal"
	default:
		return ins(pos(), "'a'"), "single-quote"
	}
}

// Describe renders a value compactly for samples.
func Describe(v *ref.Value) string {
	s := string(Plain().Bytes(v))
	if len(s) > 300 {
		s = s[:300] + fmt.Sprintf("…(%d bytes)", len(s))
	}
	return s
}

// ScrambleStrict is Scramble without the "-0" spelling of zero (room versions
// 6+ refuse events containing it, so event texts must not use it).
func ScrambleStrict(r *Rand) *Render {
	return &Render{R: r, Whitespace: true, Shuffle: true, Escapes: true}
}

// FoldVariants returns spellings of an object key that Go's encoding/json matches to a struct field tagged with
// that key although they are different keys: other letter case, and the two non-ASCII letters that case-fold to
// ASCII (U+017F long s, U+212A Kelvin sign).
func FoldVariants(key string) []string {
	seen := map[string]bool{key: true}
	var out []string
	add := func(s string) {
		if !seen[s] {
			seen[s] = true
			out = append(out, s)
		}
	}
	add(strings.ToUpper(key))
	if len(key) > 0 {
		add(strings.ToUpper(key[:1]) + key[1:])
	}
	if i := strings.IndexByte(key, '_'); i >= 0 && i+1 < len(key) {
		add(key[:i+1] + strings.ToUpper(key[i+1:i+2]) + key[i+2:])
	}
	if i := strings.IndexByte(key, 's'); i >= 0 {
		add(key[:i] + "ſ" + key[i+1:])
	}
	if i := strings.IndexByte(key, 'k'); i >= 0 {
		add(key[:i] + "K" + key[i+1:])
	}
	return out
}
