package gen

import (
	"crypto/ed25519"
	"fmt"

	"verif/ref"
)

// ProtectedTypes are the event types some redaction algorithm treats
// specially; OtherTypes are ordinary ones.
var ProtectedTypes = []string{"m.room.member", "m.room.create", "m.room.join_rules", "m.room.power_levels", "m.room.aliases",
	"m.room.history_visibility", "m.room.redaction"}
var OtherTypes = []string{"m.room.message", "m.room.topic", "com.example.custom", "m.room.third_party_invite", "m.room.name"}

// every content key any redaction algorithm of any version keeps, per type
var keepKeysAllVersions = map[string][]string{
	"m.room.member":             {"membership", "join_authorised_via_users_server"},
	"m.room.create":             {"creator", "room_version", "m.federate", "predecessor", "additional_creators"},
	"m.room.join_rules":         {"join_rule", "allow"},
	"m.room.power_levels":       {"ban", "events", "events_default", "kick", "redact", "state_default", "users", "users_default", "invite", "notifications"},
	"m.room.aliases":            {"aliases"},
	"m.room.history_visibility": {"history_visibility"},
	"m.room.redaction":          {"redacts"},
}

// SafeNumbers are literals that survive a float64 round trip exactly.
var SafeNumbers = []string{"0", "1", "-1", "50", "100", "9007199254740991", "-9007199254740991", "42", "1234567", "-100"}

// SafeFractions additionally allow non-integers that survive float64 exactly.
var SafeFractions = []string{"0.5", "-1.5", "2.25", "1e2", "1E3"}

// ContentFor builds a content object for a type holding every keep-list key
// of every version (each with some probability) plus random extra keys.
func ContentFor(r *Rand, evType string, nums []string) *ref.Value {
	return contentFor(r, evType, nums, 0.8)
}

// FullContentFor is ContentFor with every content key that any redaction algorithm of any version keeps for the type
// present (and the random other keys as well).
func FullContentFor(r *Rand, evType string, nums []string) *ref.Value {
	return contentFor(r, evType, nums, 1.1)
}

func contentFor(r *Rand, evType string, nums []string, pKeep float64) *ref.Value {
	c := &ref.Value{K: ref.Obj}
	opts := JSONOpts{Depth: 2, Width: 3, Numbers: nums, PlainKey: false}
	for _, k := range keepKeysAllVersions[evType] {
		if !r.Chance(pKeep) {
			continue
		}
		var v *ref.Value
		switch k {
		case "membership":
			v = ref.S(Pick(r, []string{"join", "leave", "invite", "ban", "knock"}))
		case "join_authorised_via_users_server":
			v = ref.S("@auth:" + Pick(r, []string{"a.example", "b.example:8448"}))
		case "creator":
			v = ref.S("@creator:a.example")
		case "join_rule":
			v = ref.S(Pick(r, []string{"public", "invite", "restricted", "knock"}))
		case "users", "events", "notifications":
			v = &ref.Value{K: ref.Obj}
			for i := r.Intn(3); i > 0; i-- {
				v.Set(Pick(r, []string{"@a:x", "@b:y", "m.room.name", "room", "m.room.power_levels"}), ref.NumLit(Pick(r, nums)))
			}
		case "ban", "kick", "redact", "invite", "events_default", "state_default", "users_default":
			v = ref.NumLit(Pick(r, nums))
		default:
			v = RandValue(r, opts)
		}
		c.Set(k, v)
	}
	for i := r.Intn(4); i > 0; i-- {
		k := Pick(r, []string{"body", "msgtype", "topic", "name", "displayname", "avatar_url", "reason", "third_party_invite", "x.y", "a\"b", "é", "is_direct", "redacts", "url"})
		if c.Get(k) == nil {
			c.Set(k, RandValue(r, opts))
		}
	}
	return c
}

// RawEvent assembles an event object directly as JSON (not through the
// builder), so that arbitrary top-level keys can be present. Format follows
// the version (references vs IDs).
func RawEvent(r *Rand, t *ref.VersionTraits, evType string, nums []string) *ref.Value {
	ev := &ref.Value{K: ref.Obj}
	set := func(k string, v *ref.Value, p float64) {
		if r.Chance(p) {
			ev.Set(k, v)
		}
	}
	ev.Set("type", ref.S(evType))
	ev.Set("content", ContentFor(r, evType, nums))
	set("room_id", ref.S("!room:a.example"), 0.95)
	set("sender", ref.S("@alice:a.example"), 0.95)
	if r.Chance(0.7) {
		ev.Set("state_key", ref.S(Pick(r, []string{"", "@bob:b.example", "@alice:a.example", "key"})))
	}
	set("depth", ref.NumLit(Pick(r, []string{"0", "1", "7", "9007199254740991"})), 0.9)
	set("origin_server_ts", ref.NumLit(Pick(r, []string{"0", "1700000000000", "1"})), 0.9)
	set("origin", ref.S("a.example"), 0.5)
	set("membership", ref.S("join"), 0.3)
	set("hashes", ref.O("sha256", ref.S("abcd")), 0.8)
	set("signatures", ref.O("a.example", ref.O("ed25519:1", ref.S("c2ln"))), 0.8)
	set("unsigned", ref.O("age", ref.I(5), "prev_content", ref.O("x", ref.I(1))), 0.5)
	set("redacts", ref.S("$someevent"), 0.3)
	set("age_ts", ref.I(12345), 0.2)
	set("outlier", ref.B(true), 0.1)
	set("prev_state", ref.A(), 0.4)
	if t.EventFormat == 1 {
		set("event_id", ref.S("$abc123:a.example"), 0.95)
		refv := func(id string) *ref.Value { return ref.A(ref.S(id), ref.O("sha256", ref.S("aGFzaA"))) }
		set("prev_events", ref.A(refv("$p1:a.example")), 0.9)
		set("auth_events", ref.A(refv("$c:a.example"), refv("$pl:a.example")), 0.9)
	} else {
		set("event_id", ref.S("$should-not-be-here"), 0.1)
		set("prev_events", ref.A(ref.S("$p1")), 0.9)
		set("auth_events", ref.A(ref.S("$c"), ref.S("$pl")), 0.9)
	}
	for i := r.Intn(3); i > 0; i-- {
		k := Pick(r, []string{"extra", "x.y", "replaces_state", "prev_content", "invite_room_state", "a\"b", "é", "msc4354_sticky", "zzz"})
		if ev.Get(k) == nil {
			ev.Set(k, RandValue(r, JSONOpts{Depth: 2, Width: 2, Numbers: nums}))
		}
	}
	return ev
}

// Identity is a signing server.
type Identity struct {
	Server string
	KeyID  string
	Pub    ed25519.PublicKey
	Priv   ed25519.PrivateKey
}

// NewIdentity derives a server identity from the PRNG.
func NewIdentity(r *Rand, server, keyID string) *Identity {
	priv := ed25519.NewKeyFromSeed(r.Bytes(32))
	return &Identity{Server: server, KeyID: keyID, Pub: priv.Public().(ed25519.PublicKey), Priv: priv}
}

func (i *Identity) String() string { return fmt.Sprintf("%s/%s", i.Server, i.KeyID) }

// protectedTopLevel are the top-level keys some redaction algorithm keeps.
var protectedTopLevel = []string{"event_id", "type", "room_id", "sender", "state_key", "content", "hashes", "signatures", "depth", "prev_events", "prev_state", "auth_events", "origin", "origin_server_ts", "membership", "unsigned"}

// AddFoldVariantKeys adds to an event object one or two keys that differ from a protected top-level key, or from a
// protected content key of the event's type, only by letter case or by a letter that case-folds to ASCII. They are
// ordinary unknown keys: redactable, covered by the content hash, and never a substitute for the protected key.
// Returns the keys added ("content." prefix for content keys).
func AddFoldVariantKeys(r *Rand, ev *ref.Value, evType string) []string {
	var added []string
	val := func(of *ref.Value) *ref.Value {
		if of != nil && r.Chance(0.6) {
			c := of.Clone()
			if c.K == ref.Str {
				c.S += "-variant"
			}
			return c
		}
		return RandValue(r, JSONOpts{Depth: 1, Width: 2, Numbers: SafeNumbers})
	}
	for n := r.Range(1, 2); n > 0; n-- {
		if keep := keepKeysAllVersions[evType]; len(keep) > 0 && r.Chance(0.4) && ev.Get("content") != nil && ev.Get("content").K == ref.Obj {
			k := Pick(r, keep)
			if vs := FoldVariants(k); len(vs) > 0 {
				v := Pick(r, vs)
				if ev.Get("content").Get(v) == nil {
					ev.Get("content").Set(v, val(ev.Get("content").Get(k)))
					added = append(added, "content."+v)
				}
			}
			continue
		}
		k := Pick(r, protectedTopLevel)
		v := Pick(r, FoldVariants(k))
		if ev.Get(v) == nil {
			ev.Set(v, val(ev.Get(k)))
			added = append(added, v)
		}
	}
	return added
}
