// Package gen holds the seeded generators shared by all property workloads.
// Everything random derives from one Rand so that the case list of a run is a
// pure function of (property, tier, seed, shard).
package gen

import (
	"hash/fnv"
	"math/rand/v2"
)

// Rand is a deterministic PRNG (PCG) with a few convenience helpers.
type Rand struct {
	*rand.Rand
}

// NewRand derives a generator from a seed and a list of stream labels.
func NewRand(seed uint64, labels ...string) *Rand {
	h := fnv.New64a()
	for _, l := range labels {
		h.Write([]byte(l))
		h.Write([]byte{0})
	}
	return &Rand{rand.New(rand.NewPCG(seed*0x9E3779B97F4A7C15+1, h.Sum64()))}
}

// Fork derives an independent generator (stable given the parent's state).
func (r *Rand) Fork(label string) *Rand {
	return NewRand(r.Uint64(), label)
}

// Intn returns a value in [0,n).
func (r *Rand) Intn(n int) int {
	if n <= 0 {
		return 0
	}
	return r.IntN(n)
}

// Range returns a value in [lo,hi].
func (r *Rand) Range(lo, hi int) int {
	if hi <= lo {
		return lo
	}
	return lo + r.IntN(hi-lo+1)
}

// Chance returns true with probability p.
func (r *Rand) Chance(p float64) bool { return r.Float64() < p }

// Pick returns a random element.
func Pick[T any](r *Rand, xs []T) T { return xs[r.Intn(len(xs))] }

// Shuffled returns a shuffled copy.
func Shuffled[T any](r *Rand, xs []T) []T {
	out := append([]T(nil), xs...)
	r.Shuffle(len(out), func(i, j int) { out[i], out[j] = out[j], out[i] })
	return out
}

// Bytes returns n random bytes.
func (r *Rand) Bytes(n int) []byte {
	b := make([]byte, n)
	for i := range b {
		b[i] = byte(r.Uint32())
	}
	return b
}
