// Belongs in the package root directory (package gomatrixserverlib), next to signing.go.
package gomatrixserverlib

import (
	"testing"

	"golang.org/x/crypto/ed25519"
)

// SignJSON signs "a JSON object". Every other non-object text ([], 1, "x",
// true) is refused with an error, but the JSON text null is accepted: the
// result is a freshly invented object {"signatures":{...}} whose signature is
// over the four bytes "null" and which SignJSON's own counterpart VerifyJSON
// rejects under the very name, key ID and key that were used.
func TestAuditFinding1(t *testing.T) {
	seed := make([]byte, ed25519.SeedSize)
	priv := ed25519.NewKeyFromSeed(seed)
	pub := priv.Public().(ed25519.PublicKey)

	for _, input := range []string{`null`, " null\n"} {
		signed, err := SignJSON("alice", "ed25519:1", priv, []byte(input))
		if err != nil {
			// the expected behaviour: null is not a JSON object, nothing to sign
			continue
		}
		// If SignJSON claims success, what it returns has to verify.
		if verr := VerifyJSON("alice", "ed25519:1", pub, signed); verr != nil {
			t.Errorf("SignJSON(%q) succeeded and returned %s, but VerifyJSON with the same name, key ID and key says: %v",
				input, signed, verr)
		}
	}

	// for comparison: the other non-object texts are refused
	for _, input := range []string{`[]`, `1`, `"x"`, `true`} {
		if _, err := SignJSON("alice", "ed25519:1", priv, []byte(input)); err == nil {
			t.Errorf("SignJSON(%q) should fail: not a JSON object", input)
		}
	}
}
