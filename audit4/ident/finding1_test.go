package gomatrixserverlib_test

// Audit finding 1 (property C18). Belongs in the root package directory
// (github.com/matrix-org/gomatrixserverlib), as an external test package so
// that it can also drive the fclient request type.

import (
	"crypto/sha256"
	"encoding/base64"
	"encoding/json"
	"fmt"
	"strings"
	"testing"

	"github.com/matrix-org/gomatrixserverlib"
	"github.com/matrix-org/gomatrixserverlib/fclient"
)

// Not JSON: the member name "event_id" is followed by a comma instead of a colon.
const auditFinding1NotJSON = `{"auth_events":[],"content":{"room_version":"12"},"depth":1,` +
	`"event_id","":"$",` +
	`"hashes":{"sha256":""},"origin_server_ts":1000,"prev_events":[],"sender":"@u:h",` +
	`"signatures":{},"state_key":"","type":"m.room.create"}`

// auditFinding1NotJSONFloat returns a byte string that is not JSON either: a
// number that canonical JSON forbids is hidden the same way in a room version
// 10 event (with a matching content hash, so that the event is kept as it is).
func auditFinding1NotJSONFloat(t *testing.T) []byte {
	fields := `"auth_events":["$a"],"content":{"membership":"join"},"depth":1,"origin_server_ts":1000,` +
		`"outlier":1.5,"prev_events":["$b"],"room_id":"!r:h","sender":"@u:h","state_key":"@u:h","type":"m.room.member"`
	hashable, err := gomatrixserverlib.CanonicalJSON([]byte("{" + fields + "}"))
	if err != nil {
		t.Fatal(err)
	}
	sum := sha256.Sum256(hashable)
	event := "{" + fields + `,"hashes":{"sha256":"` + base64.RawStdEncoding.EncodeToString(sum[:]) + `"},"signatures":{}}`
	return []byte(strings.Replace(event, `"outlier":1.5`, `"outlier","":1.5`, 1))
}

func auditFinding1Call(f func()) (panicked interface{}) {
	defer func() { panicked = recover() }()
	f()
	return nil
}

func TestAuditFinding1(t *testing.T) {
	notJSONFloat := auditFinding1NotJSONFloat(t)
	if json.Valid([]byte(auditFinding1NotJSON)) || json.Valid(notJSONFloat) {
		t.Fatal("test inputs are supposed to be invalid JSON")
	}

	// (a) room version 12 (and org.matrix.hydra.11): the byte string is accepted as a create event
	// whose event ID is the smuggled "$", and RoomID() - hence also Allowed,
	// VerifyEventSignatures, AuthEvents.AddEvent, HandleInvite ... - panics.
	for _, ver := range []gomatrixserverlib.RoomVersion{gomatrixserverlib.RoomVersionV12, gomatrixserverlib.RoomVersionHydra} {
		verImpl := gomatrixserverlib.MustGetRoomVersion(ver)
		ev, err := verImpl.NewEventFromUntrustedJSON([]byte(auditFinding1NotJSON))
		if err == nil {
			t.Errorf("room version %s: a byte string that is not JSON was accepted as an event with ID %q", ver, ev.EventID())
			if p := auditFinding1Call(func() { _ = ev.RoomID() }); p != nil {
				t.Errorf("room version %s: RoomID() of the accepted event panics: %v", ver, p)
			}
		}
	}

	// (b) the same bytes arrive over the network in a /v2/invite request: the
	// request body is valid JSON, its "event" member is a JSON string.
	body, _ := json.Marshal(map[string]interface{}{"room_version": "12", "event": auditFinding1NotJSON})
	var req fclient.InviteV2Request
	if err := json.Unmarshal(body, &req); err == nil {
		t.Errorf("/v2/invite request whose event is not JSON was decoded, event ID %q", req.Event().EventID())
		if p := auditFinding1Call(func() { _ = req.Event().RoomID() }); p != nil {
			t.Errorf("RoomID() of the invite request's event panics: %v", p)
		}
	}

	// (c) room versions 6 and later: a number that canonical JSON forbids gets
	// past the check, and signing the accepted event (as HandleSendJoin and
	// HandleInvite do) panics.
	verImpl := gomatrixserverlib.MustGetRoomVersion(gomatrixserverlib.RoomVersionV10)
	ev, err := verImpl.NewEventFromUntrustedJSON(notJSONFloat)
	if err == nil {
		t.Errorf("room version 10: a byte string that is not JSON was accepted as event %s", ev.JSON())
		seed := make([]byte, 32)
		if p := auditFinding1Call(func() {
			// any 64-byte ed25519 private key
			key := append(append([]byte{}, seed...), seed...)
			_ = ev.Sign("localhost", "ed25519:1", key)
		}); p != nil {
			t.Errorf("room version 10: Sign() of the accepted event panics: %.120s", fmt.Sprint(p))
		}
	}
}
