package gomatrixserverlib_test

// Audit finding 2 (property C18). Belongs in the root package directory
// (github.com/matrix-org/gomatrixserverlib), external test package.

import (
	"encoding/json"
	"os"
	"os/exec"
	"strings"
	"testing"

	"github.com/matrix-org/gomatrixserverlib/fclient"
)

const auditFinding2Depth = 60000

// auditFinding2Body is the body of a PUT /_matrix/federation/v2/invite request.
// It is valid JSON with a nesting depth of 1; its "event" member is a JSON
// *string* whose text is {"a":{"a":{"a": ... 1 ... }}}.
func auditFinding2Body() []byte {
	text := strings.Repeat(`{"a":`, auditFinding2Depth) + "1" + strings.Repeat("}", auditFinding2Depth)
	body, _ := json.Marshal(map[string]interface{}{"room_version": "10", "event": text})
	return body
}

func TestAuditFinding2(t *testing.T) {
	if os.Getenv("AUDIT_FINDING2_CHILD") == "1" {
		// The stack overflow this provokes is a fatal error that recover()
		// cannot catch, hence the child process.
		var req fclient.InviteV2Request
		err := json.Unmarshal(auditFinding2Body(), &req)
		if err == nil {
			t.Errorf("a JSON string was decoded as the invite event")
		}
		return
	}

	body := auditFinding2Body()
	if !json.Valid(body) {
		t.Fatal("the request body is supposed to be valid JSON")
	}
	var generic map[string]interface{}
	if err := json.Unmarshal(body, &generic); err != nil {
		t.Fatalf("encoding/json has no objection to the request body, but: %v", err)
	}
	if _, isString := generic["event"].(string); !isString {
		t.Fatal("the event member is supposed to be a JSON string")
	}

	cmd := exec.Command(os.Args[0], "-test.run", "^TestAuditFinding2$")
	cmd.Env = append(os.Environ(), "AUDIT_FINDING2_CHILD=1")
	out, err := cmd.CombinedOutput()
	if err != nil {
		msg := string(out)
		if i := strings.Index(msg, "fatal error"); i >= 0 {
			msg = msg[i:]
		}
		if len(msg) > 300 {
			msg = msg[:300]
		}
		t.Errorf("decoding a %d byte /v2/invite request body (valid JSON, nesting depth 1) into fclient.InviteV2Request killed the process: %v\n%s", len(body), err, msg)
	}
}
