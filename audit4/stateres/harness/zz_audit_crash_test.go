package gomatrixserverlib

import (
	"fmt"
	"math/rand"
	"os"
	"testing"
	"time"

	"github.com/matrix-org/gomatrixserverlib/spec"
)

// random junk graphs: check for panics / hangs on all entry points
func TestZZCrash(t *testing.T) {
	iters := zzIters(300)
	devnull, _ := os.OpenFile(os.DevNull, os.O_WRONLY, 0)
	old := os.Stdout
	os.Stdout = devnull
	defer func() { os.Stdout = old }()
	types := []string{spec.MRoomCreate, spec.MRoomMember, spec.MRoomPowerLevels, spec.MRoomJoinRules, spec.MRoomThirdPartyInvite, spec.MRoomAliases, spec.MRoomRedaction, "m.room.topic", "m.room.message"}
	contents := []string{`{}`, `{"membership":"join"}`, `{"membership":"ban"}`, `{"membership":"leave"}`, `{"membership":"invite","third_party_invite":{"signed":{"mxid":"@b:ex.org","token":"tok","signatures":{}}}}`,
		`{"users":{"@a:ex.org":100}}`, `{"users":{"@a:ex.org":"x"}}`, `{"join_rule":"public"}`, `{"join_rule":"restricted","allow":[]}`, `{"membership":"join","join_authorised_via_users_server":"@a:ex.org"}`,
		`{"creator":"@a:ex.org"}`, `{"room_version":"12","additional_creators":["@b:ex.org"]}`, `{"membership":5}`, `{"users":null}`, `{"public_keys":[{"public_key":"AAAA"}]}`}
	for _, ver := range []RoomVersion{RoomVersionV1, RoomVersionV2, RoomVersionV5, RoomVersionV10, RoomVersionV12} {
		for seed := int64(0); seed < int64(iters); seed++ {
			rnd := rand.New(rand.NewSource(seed))
			s := zzNewSim(ver, rnd)
			tip := s.start(zzUsers[0], 1)
			var evs []PDU
			evs = append(evs, s.create)
			_ = tip
			n := 3 + rnd.Intn(12)
			ids := []string{s.create.EventID()}
			// for v1/v2 predict future ids so cycles are possible
			for i := 0; i < n; i++ {
				typ := types[rnd.Intn(len(types))]
				var sk *string
				switch rnd.Intn(5) {
				case 0:
					sk = nil
				case 1, 2:
					sk = zzStr("")
				case 3:
					sk = zzStr(zzUsers[rnd.Intn(3)])
				case 4:
					sk = zzStr("tok")
				}
				var auth, prev []string
				for j := 0; j < rnd.Intn(5); j++ {
					auth = append(auth, ids[rnd.Intn(len(ids))])
				}
				for j := 0; j < rnd.Intn(3); j++ {
					prev = append(prev, ids[rnd.Intn(len(ids))])
				}
				if s.impl.EventFormat() == EventFormatV1 && rnd.Intn(3) == 0 {
					// cite self or a future event
					auth = append(auth, fmt.Sprintf("$x_%d:ex.org", s.n+1+rnd.Intn(3)))
				}
				if typ == spec.MRoomCreate && s.impl.DomainlessRoomIDs() {
					continue
				}
				ev := s.mk("x", typ, sk, zzUsers[rnd.Intn(3)], contents[rnd.Intn(len(contents))], auth, prev, int64(rnd.Intn(4)), int64(rnd.Intn(4)))
				evs = append(evs, ev)
				ids = append(ids, ev.EventID())
			}
			// random state sets
			pick := func(stateOnly bool) []PDU {
				var r []PDU
				for _, e := range evs {
					if rnd.Intn(2) == 0 && (!stateOnly || e.StateKey() != nil) {
						r = append(r, e)
					}
				}
				return r
			}
			sets := [][]PDU{pick(false), pick(false)}
			if rnd.Intn(2) == 0 {
				sets = append(sets, pick(false))
			}
			auth := pick(false)
			done := make(chan string, 1)
			go func() {
				defer func() {
					if r := recover(); r != nil {
						done <- fmt.Sprintf("panic: %v", r)
					}
				}()
				_, _ = ResolveConflictsNew(ver, sets, auth, zzUserIDForSender, func(string) bool { return false })
				var flat []PDU
				for _, ss := range sets {
					flat = append(flat, ss...)
				}
				_, _ = ResolveConflicts(ver, flat, auth, zzUserIDForSender, func(string) bool { return false })
				ReverseTopologicalOrdering(flat, TopologicalOrderByAuthEvents)
				ReverseTopologicalOrdering(flat, TopologicalOrderByPrevEvents)
				HeaderedReverseTopologicalOrdering(flat, TopologicalOrderByPrevEvents)
				if ver != RoomVersionV1 {
					ResolveStateConflictsV2(pick(true), pick(true), auth, zzUserIDForSender, func(string) bool { return false })
				} 
				done <- ""
			}()
			select {
			case msg := <-done:
				if msg != "" {
					t.Fatalf("ver %s seed %d: %s", ver, seed, msg)
				}
			case <-time.After(20 * time.Second):
				t.Fatalf("ver %s seed %d: hang", ver, seed)
			}
		}
	}
}
