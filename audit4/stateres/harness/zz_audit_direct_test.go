package gomatrixserverlib

import (
	"math/rand"
	"os"
	"testing"
)

func TestZZDirectPermutations(t *testing.T) {
	iters := zzIters(300)
	devnull, _ := os.OpenFile(os.DevNull, os.O_WRONLY, 0)
	old := os.Stdout
	os.Stdout = devnull
	defer func() { os.Stdout = old }()
	for _, ver := range zzAllVersions {
		algo := MustGetRoomVersion(ver).StateResAlgorithm()
		for seed := int64(0); seed < int64(iters); seed++ {
			c := zzGen(ver, seed, seed%2 == 1)
			rnd := rand.New(rand.NewSource(seed))
			conf, unconf := splitConflictedUnconflicted(algo, c.stateSets)
			var base []PDU
			run := func(conf, unconf, auth []PDU) []PDU {
				if algo == StateResV1 {
					return append(ResolveStateConflicts(conf, auth, zzUserIDForSender), unconf...)
				}
				return ResolveStateConflictsV2(conf, unconf, auth, zzUserIDForSender, c.isRejected)
			}
			base = run(conf, unconf, c.auth)
			for p := 0; p < 4; p++ {
				auth := zzShuffled(rnd, append(append([]PDU{}, c.auth...), c.auth...))
				got := run(zzShuffled(rnd, conf), zzShuffled(rnd, unconf), auth)
				if !zzSameSet(base, got) {
					t.Fatalf("ver %s seed %d: direct permutation changed result\nbase %s\ngot  %s\n%s", ver, seed, zzEvNames(c.sim, base), zzEvNames(c.sim, got), zzDump(c))
				}
			}
		}
	}
}
