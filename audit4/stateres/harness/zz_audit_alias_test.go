package gomatrixserverlib

import (
	"math/rand"
	"testing"

	"github.com/matrix-org/gomatrixserverlib/spec"
)

func TestZZAlias(t *testing.T) {
	for _, ver := range []RoomVersion{RoomVersionV5, RoomVersionV6, RoomVersionV10, RoomVersionV12} {
		s := zzNewSim(ver, rand.New(rand.NewSource(1)))
		tip := s.start("@a:ex.org", 1)
		s.add(tip, "joinA", spec.MRoomMember, zzStr("@a:ex.org"), "@a:ex.org", `{"membership":"join"}`, 2, false)
		_, ok := s.add(tip, "alias", spec.MRoomAliases, zzStr("evil.org"), "@m:evil.org", `{"aliases":["#x:evil.org"]}`, 3, false)
		t.Logf("ver %s: alias by non-member allowed=%v", ver, ok)
		_, ok = s.add(tip, "alias", spec.MRoomAliases, zzStr("other.org"), "@a:ex.org", `{"aliases":["#x:evil.org"]}`, 3, false)
		t.Logf("ver %s: alias by member with other state key allowed=%v", ver, ok)
	}
}
