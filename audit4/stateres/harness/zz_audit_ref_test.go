package gomatrixserverlib

import (
	"bytes"
	"crypto/sha1"
	"os"
	"sort"
	"testing"

	"github.com/matrix-org/gomatrixserverlib/spec"
)

// ---------------------------------------------------------------- reference v2 / v2.1

type zzRef struct {
	algo     StateResAlgorithm
	authMap  map[string]PDU
	rejected func(string) bool
	partial  map[StateKeyTuple]PDU
	trace    []string
}

func zzKey(e PDU) StateKeyTuple { return StateKeyTuple{e.Type(), *e.StateKey()} }

func zzIsPower(e PDU) bool {
	if e.StateKey() == nil {
		return false
	}
	switch e.Type() {
	case spec.MRoomPowerLevels, spec.MRoomJoinRules:
		return *e.StateKey() == ""
	case spec.MRoomMember:
		if *e.StateKey() == "" || *e.StateKey() == string(e.SenderID()) {
			return false
		}
		m, err := e.Membership()
		return err == nil && (m == spec.Leave || m == spec.Ban)
	}
	return false
}

func zzRefResolveV2(algo StateResAlgorithm, stateSets [][]PDU, authEvents []PDU, rejected func(string) bool) []PDU {
	r := &zzRef{algo: algo, authMap: map[string]PDU{}, rejected: rejected, partial: map[StateKeyTuple]PDU{}}
	for _, a := range authEvents {
		if _, ok := r.authMap[a.EventID()]; !ok {
			r.authMap[a.EventID()] = a
		}
	}
	// split
	byID := map[string]PDU{}
	inSets := map[string]int{}
	perKey := map[StateKeyTuple]map[string]bool{}
	for _, ss := range stateSets {
		seen := map[string]bool{}
		for _, e := range ss {
			if e.StateKey() == nil || seen[e.EventID()] {
				continue
			}
			seen[e.EventID()] = true
			byID[e.EventID()] = e
			inSets[e.EventID()]++
			k := zzKey(e)
			if perKey[k] == nil {
				perKey[k] = map[string]bool{}
			}
			perKey[k][e.EventID()] = true
		}
	}
	unconf := map[string]PDU{}
	conf := map[string]PDU{}
	for _, ids := range perKey {
		for id := range ids {
			if len(ids) == 1 && inSets[id] == len(stateSets) {
				unconf[id] = byID[id]
			} else {
				conf[id] = byID[id]
			}
		}
	}
	// full auth chains
	chains := make([]map[string]bool, len(stateSets))
	for i, ss := range stateSets {
		ch := map[string]bool{}
		var walk func(e PDU)
		walk = func(e PDU) {
			for _, a := range e.AuthEventIDs() {
				ae, ok := r.authMap[a]
				if !ok || ch[a] {
					continue
				}
				ch[a] = true
				walk(ae)
			}
		}
		for _, e := range ss {
			walk(e)
		}
		chains[i] = ch
	}
	full := map[string]PDU{}
	for id, e := range conf {
		full[id] = e
	}
	for _, ch := range chains {
		for id := range ch {
			inAll := true
			for _, o := range chains {
				if !o[id] {
					inAll = false
				}
			}
			if !inAll {
				full[id] = r.authMap[id]
			}
		}
	}
	if algo == StateResV2_1 {
		// node lookup: auth map first, else conflicted
		node := func(id string) PDU {
			if e, ok := r.authMap[id]; ok {
				return e
			}
			return nil
		}
		// desc: reachable from conflicted events (walking through authMap nodes)
		desc := map[string]bool{}
		var down func(e PDU)
		down = func(e PDU) {
			for _, a := range e.AuthEventIDs() {
				ae := node(a)
				if ae == nil || desc[a] {
					continue
				}
				desc[a] = true
				down(ae)
			}
		}
		for id, e := range conf {
			desc[id] = true
			_ = id
			down(e)
		}
		// anc: can reach a conflicted event
		memo := map[string]int{}
		var reaches func(id string, e PDU) bool
		reaches = func(id string, e PDU) bool {
			if _, ok := conf[id]; ok {
				return true
			}
			if v, ok := memo[id]; ok {
				return v == 1
			}
			memo[id] = 0
			res := false
			for _, a := range e.AuthEventIDs() {
				ae := node(a)
				if ae == nil {
					continue
				}
				if reaches(a, ae) {
					res = true
				}
			}
			if res {
				memo[id] = 1
			}
			return res
		}
		// A conflicted event c is an end point; intermediate nodes must be below some
		// conflicted event and above some conflicted event.
		for id := range desc {
			var e PDU
			if ce, ok := conf[id]; ok {
				e = ce
			} else {
				e = node(id)
			}
			if e == nil {
				continue
			}
			if _, isConf := conf[id]; isConf {
				continue // already in
			}
			if reaches(id, e) {
				full[id] = e
			}
		}
	}
	// R8
	for id := range unconf {
		delete(full, id)
	}
	// R3 power set
	control := map[string]PDU{}
	var pull func(e PDU)
	pull = func(e PDU) {
		for _, a := range e.AuthEventIDs() {
			ce, ok := conf[a]
			if !ok {
				continue
			}
			if _, done := control[a]; done {
				continue
			}
			control[a] = ce
			pull(ce)
		}
	}
	for id, e := range full {
		if zzIsPower(e) {
			control[id] = e
		}
	}
	for _, e := range full {
		if zzIsPower(e) {
			pull(e)
		}
	}
	var others []PDU
	for id, e := range full {
		if _, ok := control[id]; !ok {
			others = append(others, e)
		}
	}
	// start state
	if algo == StateResV2 {
		for _, e := range unconf {
			r.partial[zzKey(e)] = e
		}
	}
	// order power events (R1, R2, R7)
	ctl := make([]PDU, 0, len(control))
	for _, e := range control {
		ctl = append(ctl, e)
	}
	ordered := r.powerOrder(ctl)
	r.iterAuth(ordered)
	// mainline
	mainPos := map[string]int{}
	if pl, ok := r.partial[StateKeyTuple{spec.MRoomPowerLevels, ""}]; ok {
		var chain []PDU
		cur := pl
		for cur != nil {
			chain = append(chain, cur)
			var next PDU
			for _, a := range cur.AuthEventIDs() {
				if ae, ok := r.authMap[a]; ok && ae.Type() == spec.MRoomPowerLevels && ae.StateKeyEquals("") {
					next = ae
					break
				}
			}
			cur = next
		}
		for i, e := range chain {
			mainPos[e.EventID()] = len(chain) - 1 - i
		}
	}
	type ord struct {
		pos, steps int
		ts         spec.Timestamp
		id         string
		e          PDU
	}
	var os_ []ord
	for _, e := range others {
		o := ord{ts: e.OriginServerTS(), id: e.EventID(), e: e}
		cur := e
		for {
			var next PDU
			for _, a := range cur.AuthEventIDs() {
				if ae, ok := r.authMap[a]; ok && ae.Type() == spec.MRoomPowerLevels && ae.StateKeyEquals("") {
					next = ae
					break
				}
			}
			if next == nil {
				break
			}
			if p, ok := mainPos[next.EventID()]; ok {
				o.pos = p
				break
			}
			o.steps++
			cur = next
		}
		os_ = append(os_, o)
	}
	sort.Slice(os_, func(i, j int) bool {
		a, b := os_[i], os_[j]
		if a.pos != b.pos {
			return a.pos < b.pos
		}
		if a.steps != b.steps {
			return a.steps < b.steps
		}
		if a.ts != b.ts {
			return a.ts < b.ts
		}
		return a.id < b.id
	})
	var oo []PDU
	for _, o := range os_ {
		oo = append(oo, o.e)
	}
	r.iterAuth(oo)
	for _, e := range unconf {
		r.partial[zzKey(e)] = e
	}
	var res []PDU
	for _, e := range r.partial {
		res = append(res, e)
	}
	return res
}

func (r *zzRef) senderPower(e PDU) int64 {
	impl := MustGetRoomVersion(e.Version())
	if impl.PrivilegedCreators() {
		create := r.partial[StateKeyTuple{spec.MRoomCreate, ""}]
		if create == nil {
			for _, a := range e.AuthEventIDs() {
				if ae, ok := r.authMap[a]; ok && ae.Type() == spec.MRoomCreate && ae.StateKeyEquals("") {
					create = ae
					break
				}
			}
		}
		if create != nil {
			for _, c := range CreatorsFromCreateEvent(create) {
				if c == string(e.SenderID()) {
					return CreatorPowerLevel
				}
			}
		}
	}
	for _, a := range e.AuthEventIDs() {
		ae, ok := r.authMap[a]
		if !ok || ae.Type() != spec.MRoomPowerLevels || !ae.StateKeyEquals("") {
			continue
		}
		c, err := NewPowerLevelContentFromEvent(ae)
		if err != nil {
			return 0
		}
		return c.UserLevel(e.SenderID())
	}
	return 0
}

func (r *zzRef) powerOrder(evs []PDU) []PDU {
	type w struct {
		pl int64
		e  PDU
	}
	less := func(a, b w) bool { // a sorts before b
		if a.pl != b.pl {
			return a.pl > b.pl
		}
		if a.e.OriginServerTS() != b.e.OriginServerTS() {
			return a.e.OriginServerTS() < b.e.OriginServerTS()
		}
		return a.e.EventID() < b.e.EventID()
	}
	remaining := map[string]w{}
	for _, e := range evs {
		remaining[e.EventID()] = w{r.senderPower(e), e}
	}
	var tail []PDU // built from the newest end
	for {
		cited := map[string]bool{}
		for _, x := range remaining {
			for _, a := range x.e.AuthEventIDs() {
				cited[a] = true
			}
		}
		var best *w
		for id, x := range remaining {
			if cited[id] {
				continue
			}
			x := x
			if best == nil || less(*best, x) {
				best = &x
			}
		}
		if best == nil {
			break
		}
		tail = append([]PDU{best.e}, tail...)
		delete(remaining, best.e.EventID())
	}
	// strays
	var strays []w
	for _, x := range remaining {
		strays = append(strays, x)
	}
	sort.Slice(strays, func(i, j int) bool { return less(strays[i], strays[j]) })
	var res []PDU
	for _, x := range strays {
		res = append(res, x.e)
	}
	return append(res, tail...)
}

func (r *zzRef) iterAuth(evs []PDU) {
	for _, e := range evs {
		needed := StateNeededForAuth([]PDU{e})
		prov, _ := NewAuthEvents(nil)
		for _, t := range needed.Tuples() {
			if p, ok := r.partial[t]; ok {
				_ = prov.AddEvent(p)
				continue
			}
			for _, a := range e.AuthEventIDs() {
				if r.rejected(a) {
					continue
				}
				ae, ok := r.authMap[a]
				if !ok || ae.StateKey() == nil || ae.Type() != t.EventType || *ae.StateKey() != t.StateKey {
					continue
				}
				_ = prov.AddEvent(ae)
			}
		}
		if err := Allowed(e, prov, zzUserIDForSender); err != nil {
			continue
		}
		if e.StateKey() != nil {
			r.partial[zzKey(e)] = e
		}
	}
}

// ---------------------------------------------------------------- reference v1

type zzV1Prov struct {
	m map[StateKeyTuple]PDU
}

func (p *zzV1Prov) Create() (PDU, error)      { return p.m[StateKeyTuple{spec.MRoomCreate, ""}], nil }
func (p *zzV1Prov) JoinRules() (PDU, error)   { return p.m[StateKeyTuple{spec.MRoomJoinRules, ""}], nil }
func (p *zzV1Prov) PowerLevels() (PDU, error) { return p.m[StateKeyTuple{spec.MRoomPowerLevels, ""}], nil }
func (p *zzV1Prov) Member(k spec.SenderID) (PDU, error) {
	return p.m[StateKeyTuple{spec.MRoomMember, string(k)}], nil
}
func (p *zzV1Prov) ThirdPartyInvite(k string) (PDU, error) {
	return p.m[StateKeyTuple{spec.MRoomThirdPartyInvite, k}], nil
}
func (p *zzV1Prov) Valid() bool { return true }

func zzRefResolveV1(stateSets [][]PDU, authEvents []PDU) []PDU {
	perKey := map[StateKeyTuple]map[string]PDU{}
	for _, ss := range stateSets {
		for _, e := range ss {
			if e.StateKey() == nil {
				continue
			}
			k := zzKey(e)
			if perKey[k] == nil {
				perKey[k] = map[string]PDU{}
			}
			perKey[k][e.EventID()] = e
		}
	}
	prov := &zzV1Prov{m: map[StateKeyTuple]PDU{}}
	for _, a := range authEvents {
		if a.StateKey() != nil {
			prov.m[zzKey(a)] = a
		}
	}
	var res []PDU
	sorted := func(m map[string]PDU) []PDU {
		var l []PDU
		for _, e := range m {
			l = append(l, e)
		}
		sort.Slice(l, func(i, j int) bool {
			if l[i].Depth() != l[j].Depth() {
				return l[i].Depth() < l[j].Depth()
			}
			a, b := sha1.Sum([]byte(l[i].EventID())), sha1.Sum([]byte(l[j].EventID()))
			return bytes.Compare(a[:], b[:]) > 0
		})
		return l
	}
	isAuthType := func(k StateKeyTuple) int {
		switch {
		case k.EventType == spec.MRoomCreate && k.StateKey == "":
			return 0
		case k.EventType == spec.MRoomPowerLevels && k.StateKey == "":
			return 1
		case k.EventType == spec.MRoomJoinRules && k.StateKey == "":
			return 2
		case k.EventType == spec.MRoomThirdPartyInvite:
			return 3
		case k.EventType == spec.MRoomMember:
			return 4
		}
		return 5
	}
	for phase := 0; phase < 5; phase++ {
		picked := map[StateKeyTuple]PDU{}
		for k, m := range perKey {
			if len(m) < 2 || isAuthType(k) != phase {
				continue
			}
			l := sorted(m)
			saved, had := prov.m[k]
			cur := l[0]
			prov.m[k] = cur
			for _, e := range l[1:] {
				if Allowed(e, prov, zzUserIDForSender) != nil {
					break
				}
				cur = e
				prov.m[k] = cur
			}
			_ = saved
			_ = had
			delete(prov.m, k)
			picked[k] = cur
		}
		for k, e := range picked {
			prov.m[k] = e
			res = append(res, e)
		}
	}
	for k, m := range perKey {
		if len(m) == 1 {
			for _, e := range m {
				res = append(res, e)
			}
			continue
		}
		if isAuthType(k) != 5 {
			continue
		}
		l := sorted(m)
		pick := l[0]
		for i := len(l) - 1; i > 0; i-- {
			if Allowed(l[i], prov, zzUserIDForSender) == nil {
				pick = l[i]
				break
			}
		}
		res = append(res, pick)
	}
	return res
}

func TestZZDifferential(t *testing.T) {
	iters := zzIters(300)
	devnull, _ := os.OpenFile(os.DevNull, os.O_WRONLY, 0)
	old := os.Stdout
	os.Stdout = devnull
	defer func() { os.Stdout = old }()
	nconf := 0
	for _, ver := range zzAllVersions {
		algo := MustGetRoomVersion(ver).StateResAlgorithm()
		for seed := int64(0); seed < int64(iters); seed++ {
			c := zzGen(ver, seed, seed%2 == 1)
			got, err := ResolveConflictsNew(ver, c.stateSets, c.auth, zzUserIDForSender, c.isRejected)
			if err != nil {
				t.Fatal(err)
			}
			var want []PDU
			if algo == StateResV1 {
				want = zzRefResolveV1(c.stateSets, c.auth)
			} else {
				want = zzRefResolveV2(algo, c.stateSets, c.auth, c.isRejected)
			}
			if !zzSameSet(got, want) {
				t.Fatalf("ver %s seed %d: differs\ngot  %s\nwant %s\n%s", ver, seed, zzEvNames(c.sim, got), zzEvNames(c.sim, want), zzDump(c))
			}
			if !zzSameSet(got, c.stateSets[0]) {
				nconf++
			}
		}
	}
	t.Logf("cases whose result differs from state set 0: %d", nconf)
}
