package gomatrixserverlib

import (
	"fmt"
	"math/rand"
	"os"
	"testing"
	"time"

	"github.com/matrix-org/gomatrixserverlib/spec"
)

func TestZZCrash2(t *testing.T) {
	iters := zzIters(300)
	devnull, _ := os.OpenFile(os.DevNull, os.O_WRONLY, 0)
	old := os.Stdout
	os.Stdout = devnull
	defer func() { os.Stdout = old }()
	types := []string{spec.MRoomMember, spec.MRoomMember, spec.MRoomMember, spec.MRoomPowerLevels, spec.MRoomJoinRules, spec.MRoomThirdPartyInvite, spec.MRoomAliases, spec.MRoomRedaction, "m.room.topic", spec.MRoomCreate}
	contents := []string{`{}`, `{"membership":"join"}`, `{"membership":"ban"}`, `{"membership":"leave"}`, `{"membership":"knock"}`, `{"membership":"invite"}`,
		`{"membership":"invite","third_party_invite":{"display_name":"x","signed":{"mxid":"@b:ex.org","token":"tok","signatures":{"ex.org":{"ed25519:1":"AAAA"}}}}}`,
		`{"membership":"invite","third_party_invite":{"signed":{"mxid":"@b:ex.org","token":"tok","signatures":{"ex.org":{"ed25519:1":"!!!"}}}}}`,
		`{"membership":"invite","third_party_invite":{"signed":{"mxid":"@b:ex.org","token":"tok","signatures":null}}}`,
		`{"membership":"invite","third_party_invite":{"signed":null}}`,
		`{"membership":"invite","third_party_invite":null}`,
		`{"membership":"join","join_authorised_via_users_server":"@a:ex.org"}`,
		`{"membership":"join","join_authorised_via_users_server":"bogus"}`,
		`{"membership":"join","join_authorised_via_users_server":"@:"}`,
		`{"membership":"join","mxid_mapping":{"user_room_key":"x","user_id":"@a:ex.org","signatures":{"a":{"b":"!!"}}}}`,
		`{"users":{"@a:ex.org":100}}`, `{"users":{"@a:ex.org":"x"}}`, `{"users":{"bogus":1}}`, `{"users":{"@a:ex.org":100},"notifications":{"room":100}}`, `{"notifications":null}`, `{"events":{"m.room.topic":null}}`,
		`{"users":{"@a:ex.org":1e3}}`, `{"users":{"@a:ex.org":9007199254740993}}`,
		`{"join_rule":"public"}`, `{"join_rule":"restricted","allow":[{"type":"m.room_membership","room_id":"!x:y"}]}`, `{"join_rule":"knock_restricted","allow":[]}`, `{"join_rule":"knock"}`, `{"join_rule":null}`, `{"join_rule":"restricted","allow":null}`,
		`{"creator":"@a:ex.org"}`, `{"room_version":"12","additional_creators":["@b:ex.org"]}`, `{"membership":5}`, `{"users":null}`,
		`{"public_keys":[{"public_key":"AAAA"}]}`, `{"public_keys":[{"public_key":"!!"}]}`, `{"public_keys":null,"public_key":"AAAA"}`, `{"public_keys":[null]}`,
		`{"aliases":[]}`, `{"redacts":"$x"}`}
	sks := []*string{nil, zzStr(""), zzStr("@a:ex.org"), zzStr("@b:ex.org"), zzStr("@c:ex.org"), zzStr("tok"), zzStr("ex.org"), zzStr("bogus")}
	for _, ver := range []RoomVersion{RoomVersionV1, RoomVersionV2, RoomVersionV5, RoomVersionV7, RoomVersionV8, RoomVersionV9, RoomVersionV10, RoomVersionV11, RoomVersionV12} {
		for seed := int64(0); seed < int64(iters); seed++ {
			rnd := rand.New(rand.NewSource(seed))
			s := zzNewSim(ver, rnd)
			tip := s.start(zzUsers[0], 1)
			s.add(tip, "joinA", spec.MRoomMember, zzStr(zzUsers[0]), zzUsers[0], `{"membership":"join"}`, 2, false)
			if rnd.Intn(3) > 0 {
				s.add(tip, "pl0", spec.MRoomPowerLevels, zzStr(""), zzUsers[0], `{"users":{"@b:ex.org":50},"invite":0}`, 3, false)
			}
			if rnd.Intn(3) > 0 {
				s.add(tip, "jr0", spec.MRoomJoinRules, zzStr(""), zzUsers[0], []string{`{"join_rule":"public"}`, `{"join_rule":"restricted","allow":[]}`, `{"join_rule":"knock"}`, `{"join_rule":"invite"}`}[rnd.Intn(4)], 4, true)
			}
			s.add(tip, "joinB", spec.MRoomMember, zzStr(zzUsers[1]), zzUsers[1], `{"membership":"join"}`, 5, true)
			s.add(tip, "tpi", spec.MRoomThirdPartyInvite, zzStr("tok"), zzUsers[0], `{"display_name":"x","public_keys":[{"public_key":"AAAA"}],"public_key":"AAAA","key_validity_url":"https://x"}`, 5, true)
			base := tip.events()
			evs := append([]PDU{}, base...)
			ids := zzIDsUnsorted(evs)
			n := 3 + rnd.Intn(10)
			for i := 0; i < n; i++ {
				typ := types[rnd.Intn(len(types))]
				sk := sks[rnd.Intn(len(sks))]
				if typ == spec.MRoomCreate && sk != nil && *sk == "" && s.impl.DomainlessRoomIDs() {
					continue
				}
				auth := []string{}
				for _, id := range ids {
					if rnd.Intn(3) > 0 {
						auth = append(auth, id)
					}
				}
				ev := s.mk("x", typ, sk, append(zzUsers[:3:3], "bogus", "@:x", "")[rnd.Intn(6)], contents[rnd.Intn(len(contents))], auth, []string{ids[rnd.Intn(len(ids))]}, int64(rnd.Intn(4)), int64(rnd.Intn(4)))
				evs = append(evs, ev)
				ids = append(ids, ev.EventID())
			}
			pick := func() []PDU {
				var r []PDU
				for _, e := range base {
					if rnd.Intn(6) > 0 {
						r = append(r, e)
					}
				}
				for _, e := range evs[len(base):] {
					if rnd.Intn(2) == 0 && e.StateKey() != nil {
						r = append(r, e)
					}
				}
				return r
			}
			sets := [][]PDU{pick(), pick()}
			if rnd.Intn(2) == 0 {
				sets = append(sets, pick())
			}
			auth := evs
			done := make(chan string, 1)
			go func() {
				defer func() {
					if r := recover(); r != nil {
						done <- fmt.Sprintf("panic: %v", r)
					}
				}()
				_, _ = ResolveConflictsNew(ver, sets, auth, zzUserIDForSender, func(string) bool { return false })
				_, _ = ResolveConflictsNew(ver, sets, auth, func(roomID spec.RoomID, senderID spec.SenderID) (*spec.UserID, error) {
					u, err := spec.NewUserID(string(senderID), true)
					if err != nil {
						return nil, nil
					}
					return u, nil
				}, func(string) bool { return false })
				var flat []PDU
				for _, ss := range sets {
					flat = append(flat, ss...)
				}
				_, _ = ResolveConflicts(ver, flat, auth, zzUserIDForSender, func(string) bool { return false })
				done <- ""
			}()
			select {
			case msg := <-done:
				if msg != "" {
					t.Fatalf("ver %s seed %d: %s", ver, seed, msg)
				}
			case <-time.After(30 * time.Second):
				t.Fatalf("ver %s seed %d: hang", ver, seed)
			}
		}
	}
}

func zzIDsUnsorted(evs []PDU) []string {
	r := make([]string, 0, len(evs))
	for _, e := range evs {
		r = append(r, e.EventID())
	}
	return r
}
