package gomatrixserverlib

import (
	"math/rand"
	"testing"

	"github.com/matrix-org/gomatrixserverlib/spec"
)

func TestZZOrderings(t *testing.T) {
	iters := zzIters(300)
	for _, ver := range []RoomVersion{RoomVersionV1, RoomVersionV2, RoomVersionV5, RoomVersionV10, RoomVersionV12} {
		for seed := int64(0); seed < int64(iters); seed++ {
			rnd := rand.New(rand.NewSource(seed))
			s := zzNewSim(ver, rnd)
			s.start(zzUsers[0], int64(rnd.Intn(5)))
			evs := []PDU{s.create}
			ids := []string{s.create.EventID()}
			n := 2 + rnd.Intn(15)
			for i := 0; i < n; i++ {
				var auth, prev []string
				for j := 0; j < rnd.Intn(5); j++ {
					auth = append(auth, ids[rnd.Intn(len(ids))])
				}
				for j := 0; j < rnd.Intn(4); j++ {
					prev = append(prev, ids[rnd.Intn(len(ids))])
				}
				typ := []string{spec.MRoomMember, spec.MRoomPowerLevels, "m.room.message", "m.room.topic"}[rnd.Intn(4)]
				var sk *string
				if typ != "m.room.message" {
					sk = zzStr("")
				}
				content := `{}`
				if typ == spec.MRoomPowerLevels {
					content = `{"users":{"@a:ex.org":100,"@b:ex.org":50}}`
				}
				ev := s.mk("x", typ, sk, zzUsers[rnd.Intn(3)], content, auth, prev, int64(rnd.Intn(4)), int64(i))
				evs = append(evs, ev)
				ids = append(ids, ev.EventID())
			}
			// random subset, shuffled, with duplicates
			var input []PDU
			for _, e := range evs {
				if rnd.Intn(4) > 0 {
					input = append(input, e)
					if rnd.Intn(4) == 0 {
						input = append(input, e)
					}
				}
			}
			input = zzShuffled(rnd, input)
			distinct := map[string]bool{}
			for _, e := range input {
				distinct[e.EventID()] = true
			}
			for _, order := range []TopologicalOrder{TopologicalOrderByAuthEvents, TopologicalOrderByPrevEvents} {
				for _, f := range []func([]PDU, TopologicalOrder) []PDU{ReverseTopologicalOrdering, HeaderedReverseTopologicalOrdering} {
					out := f(input, order)
					if len(out) != len(distinct) {
						t.Fatalf("ver %s seed %d order %d: %d != %d", ver, seed, order, len(out), len(distinct))
					}
					pos := map[string]int{}
					for i, e := range out {
						if e == nil {
							t.Fatalf("nil")
						}
						if _, dup := pos[e.EventID()]; dup {
							t.Fatalf("dup")
						}
						pos[e.EventID()] = i
					}
					for _, e := range out {
						refs := e.AuthEventIDs()
						if order == TopologicalOrderByPrevEvents {
							refs = e.PrevEventIDs()
						}
						for _, r := range refs {
							if p, ok := pos[r]; ok && p >= pos[e.EventID()] {
								t.Fatalf("ver %s seed %d order %d: %s before its ancestor", ver, seed, order, s.names[e.EventID()])
							}
						}
					}
					// determinism under presentation order
					out2 := f(zzShuffled(rnd, input), order)
					for i := range out {
						if out[i].EventID() != out2[i].EventID() {
							t.Fatalf("ver %s seed %d order %d: presentation order changes the ordering", ver, seed, order)
						}
					}
				}
			}
		}
	}
}
