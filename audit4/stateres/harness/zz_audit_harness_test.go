package gomatrixserverlib

import (
	"encoding/json"
	"fmt"
	"math/rand"
	"os"
	"sort"
	"strconv"
	"strings"
	"testing"

	"github.com/matrix-org/gomatrixserverlib/spec"
)

// ---------------------------------------------------------------- simulator

func zzUserIDForSender(roomID spec.RoomID, senderID spec.SenderID) (*spec.UserID, error) {
	return spec.NewUserID(string(senderID), true)
}

type zzSim struct {
	ver    RoomVersion
	impl   IRoomVersion
	roomID string
	all    map[string]PDU
	names  map[string]string // event ID -> readable
	n      int
	rnd    *rand.Rand
	create PDU
	order  []PDU
	hostileAuth bool
}

type zzTip struct {
	state map[StateKeyTuple]PDU
	last  string
	depth int64
}

func (t *zzTip) clone() *zzTip {
	c := &zzTip{state: map[StateKeyTuple]PDU{}, last: t.last, depth: t.depth}
	for k, v := range t.state {
		c.state[k] = v
	}
	return c
}

func (t *zzTip) events() []PDU {
	res := make([]PDU, 0, len(t.state))
	for _, v := range t.state {
		res = append(res, v)
	}
	return res
}

func zzNewSim(ver RoomVersion, rnd *rand.Rand) *zzSim {
	return &zzSim{ver: ver, impl: MustGetRoomVersion(ver), all: map[string]PDU{}, names: map[string]string{}, rnd: rnd}
}

func (s *zzSim) mk(name, typ string, sk *string, sender, content string, auth, prev []string, ts, depth int64) PDU {
	s.n++
	m := map[string]interface{}{
		"type":             typ,
		"sender":           sender,
		"content":          json.RawMessage(content),
		"origin_server_ts": ts,
		"depth":            depth,
	}
	if sk != nil {
		m["state_key"] = *sk
	}
	isCreate := typ == spec.MRoomCreate && sk != nil && *sk == ""
	if !(s.impl.DomainlessRoomIDs() && isCreate) {
		m["room_id"] = s.roomID
	}
	var ev PDU
	var err error
	if s.impl.EventFormat() == EventFormatV1 {
		id := fmt.Sprintf("$%s_%d:ex.org", name, s.n)
		m["event_id"] = id
		refs := func(ids []string) [][]interface{} {
			r := [][]interface{}{}
			for _, i := range ids {
				r = append(r, []interface{}{i, map[string]string{}})
			}
			return r
		}
		m["auth_events"] = refs(auth)
		m["prev_events"] = refs(prev)
		b, _ := json.Marshal(m)
		ev, err = s.impl.NewEventFromTrustedJSON(b, false)
	} else {
		if auth == nil {
			auth = []string{}
		}
		if prev == nil {
			prev = []string{}
		}
		if s.impl.DomainlessRoomIDs() && s.create != nil {
			// v12: the create event is implied
			na := []string{}
			for _, a := range auth {
				if a != s.create.EventID() {
					na = append(na, a)
				}
			}
			auth = na
		}
		m["auth_events"] = auth
		m["prev_events"] = prev
		m["zz"] = s.n // make IDs unique
		b, _ := json.Marshal(m)
		ev, err = s.impl.NewEventFromTrustedJSON(b, false)
	}
	if err != nil {
		panic(fmt.Sprintf("mk %s: %v", name, err))
	}
	s.all[ev.EventID()] = ev
	s.order = append(s.order, ev)
	s.names[ev.EventID()] = fmt.Sprintf("%s_%d", name, s.n)
	return ev
}

func zzStr(s string) *string { return &s }

// authFor selects auth events for a proto event from a state.
func (s *zzSim) authFor(state map[StateKeyTuple]PDU, typ string, sk *string, sender, content string) []string {
	pe := ProtoEvent{SenderID: sender, RoomID: s.roomID, Type: typ, StateKey: sk, Content: []byte(content)}
	needed, err := StateNeededForProtoEvent(&pe)
	if err != nil {
		return nil
	}
	var ids []string
	for _, t := range needed.Tuples() {
		if e, ok := state[t]; ok {
			ids = append(ids, e.EventID())
		}
	}
	return ids
}

// add creates an event at the tip; if it passes auth (or force) it becomes part of the tip state.
func (s *zzSim) add(t *zzTip, name, typ string, sk *string, sender, content string, ts int64, force bool) (PDU, bool) {
	auth := s.authFor(t.state, typ, sk, sender, content)
	if s.hostileAuth && s.rnd.Intn(4) == 0 {
		// cite historical events of the needed keys instead of the current ones
		pe := ProtoEvent{SenderID: sender, RoomID: s.roomID, Type: typ, StateKey: sk, Content: []byte(content)}
		needed, _ := StateNeededForProtoEvent(&pe)
		auth = nil
		for _, tup := range needed.Tuples() {
			var cands []PDU
			for _, e := range s.order {
				if e.StateKey() != nil && e.Type() == tup.EventType && *e.StateKey() == tup.StateKey {
					cands = append(cands, e)
				}
			}
			if len(cands) == 0 || s.rnd.Intn(8) == 0 {
				continue
			}
			auth = append(auth, cands[s.rnd.Intn(len(cands))].EventID())
		}
	}
	var prev []string
	if t.last != "" {
		prev = []string{t.last}
	}
	ev := s.mk(name, typ, sk, sender, content, auth, prev, ts, t.depth+1)
	prov, _ := NewAuthEvents(nil)
	for _, a := range auth {
		_ = prov.AddEvent(s.all[a])
	}
	if s.impl.DomainlessRoomIDs() && s.create != nil && typ != spec.MRoomCreate {
		_ = prov.AddEvent(s.create)
	}
	err := Allowed(ev, prov, zzUserIDForSender)
	if err != nil && !force {
		delete(s.all, ev.EventID())
		s.order = s.order[:len(s.order)-1]
		return ev, false
	}
	t.last = ev.EventID()
	t.depth++
	if sk != nil {
		t.state[StateKeyTuple{typ, *sk}] = ev
	}
	return ev, err == nil
}

func (s *zzSim) start(creator string, ts int64) *zzTip {
	t := &zzTip{state: map[StateKeyTuple]PDU{}}
	content := `{"creator":"` + creator + `","room_version":"` + string(s.ver) + `"}`
	if s.impl.DomainlessRoomIDs() {
		content = `{"room_version":"` + string(s.ver) + `"}`
	} else if s.ver == RoomVersionV11 {
		content = `{"room_version":"` + string(s.ver) + `"}`
	}
	if !s.impl.DomainlessRoomIDs() {
		s.roomID = "!room:ex.org"
	}
	ev := s.mk("create", spec.MRoomCreate, zzStr(""), creator, content, nil, nil, ts, 1)
	s.create = ev
	if s.impl.DomainlessRoomIDs() {
		s.roomID = "!" + ev.EventID()[1:]
	}
	t.state[StateKeyTuple{spec.MRoomCreate, ""}] = ev
	t.last = ev.EventID()
	t.depth = 1
	return t
}

// closure returns the auth chain closure (excluding roots unless cited) of the events.
func (s *zzSim) closure(roots []PDU) []PDU {
	seen := map[string]bool{}
	var out []PDU
	var walk func(e PDU)
	walk = func(e PDU) {
		for _, a := range e.AuthEventIDs() {
			if seen[a] {
				continue
			}
			seen[a] = true
			if ae, ok := s.all[a]; ok {
				out = append(out, ae)
				walk(ae)
			}
		}
	}
	for _, r := range roots {
		walk(r)
	}
	return out
}

func (s *zzSim) name(e PDU) string {
	if e == nil {
		return "<nil>"
	}
	sk := "<nil>"
	if e.StateKey() != nil {
		sk = *e.StateKey()
	}
	return fmt.Sprintf("%s(%s,%s by %s ts=%d %s)", s.names[e.EventID()], e.Type(), sk, e.SenderID(), e.OriginServerTS(), string(e.Content()))
}

func zzIDs(evs []PDU) []string {
	r := make([]string, 0, len(evs))
	for _, e := range evs {
		r = append(r, e.EventID())
	}
	sort.Strings(r)
	return r
}

func zzSameSet(a, b []PDU) bool {
	x, y := zzIDs(a), zzIDs(b)
	if len(x) != len(y) {
		return false
	}
	for i := range x {
		if x[i] != y[i] {
			return false
		}
	}
	return true
}

func zzShuffled(rnd *rand.Rand, evs []PDU) []PDU {
	c := append([]PDU{}, evs...)
	rnd.Shuffle(len(c), func(i, j int) { c[i], c[j] = c[j], c[i] })
	return c
}

// ---------------------------------------------------------------- random history

var zzUsers = []string{"@a:ex.org", "@b:ex.org", "@c:ex.org", "@d:other.org", "@e:ex.org"}

type zzCase struct {
	sim       *zzSim
	stateSets [][]PDU
	auth      []PDU
	rejected  map[string]bool
}

func zzGen(ver RoomVersion, seed int64, hostile bool) *zzCase {
	rnd := rand.New(rand.NewSource(seed))
	s := zzNewSim(ver, rnd)
	s.hostileAuth = hostile && seed%4 == 3
	ts := func() int64 { return int64(rnd.Intn(6)) + 10 }
	tip := s.start(zzUsers[0], 1)
	s.add(tip, "joinA", spec.MRoomMember, zzStr(zzUsers[0]), zzUsers[0], `{"membership":"join"}`, 2, false)
	if rnd.Intn(4) > 0 {
		pl := `{"users":{"` + zzUsers[0] + `":100},"users_default":0,"state_default":50,"events_default":0,"ban":50,"kick":50,"invite":0,"redact":50}`
		if s.impl.PrivilegedCreators() {
			pl = `{"users":{},"users_default":0,"state_default":50,"events_default":0,"ban":50,"kick":50,"invite":0,"redact":50}`
		}
		s.add(tip, "pl0", spec.MRoomPowerLevels, zzStr(""), zzUsers[0], pl, 3, false)
	}
	if rnd.Intn(4) > 0 {
		s.add(tip, "jr0", spec.MRoomJoinRules, zzStr(""), zzUsers[0], `{"join_rule":"public"}`, 4, false)
	}
	tips := []*zzTip{tip}
	steps := 6 + rnd.Intn(30)
	for i := 0; i < steps; i++ {
		t := tips[rnd.Intn(len(tips))]
		if len(tips) < 5 && rnd.Intn(5) == 0 {
			t = t.clone()
			tips = append(tips, t)
		}
		u := zzUsers[rnd.Intn(len(zzUsers))]
		v := zzUsers[rnd.Intn(len(zzUsers))]
		force := hostile && rnd.Intn(12) == 0
		if s.hostileAuth && rnd.Intn(10) == 0 {
			switch rnd.Intn(4) {
			case 0:
				s.add(t, "plbad", spec.MRoomPowerLevels, zzStr(""), u, `{"users":"x"}`, ts(), true)
			case 1:
				s.add(t, "jrbad", spec.MRoomJoinRules, zzStr(""), u, `{"join_rule":"public","allow":"x"}`, ts(), true)
			case 2:
				s.add(t, "plstr", spec.MRoomPowerLevels, zzStr(""), u, `{"users":{"`+u+`":"100"},"state_default":"0"}`, ts(), true)
			case 3:
				s.add(t, "membad", spec.MRoomMember, zzStr(v), u, `{"membership":"ban","reason":5}`, ts(), rnd.Intn(2) == 0)
			}
			continue
		}
		switch rnd.Intn(12) {
		case 0, 1, 2:
			s.add(t, "join", spec.MRoomMember, zzStr(u), u, `{"membership":"join"}`, ts(), force)
		case 3:
			s.add(t, "leave", spec.MRoomMember, zzStr(u), u, `{"membership":"leave"}`, ts(), force)
		case 4:
			ms := []string{"leave", "ban", "invite", "leave", "ban"}[rnd.Intn(5)]
			s.add(t, ms, spec.MRoomMember, zzStr(v), u, `{"membership":"`+ms+`"}`, ts(), force)
		case 5, 6:
			// power level change
			users := map[string]int64{}
			if cur, ok := t.state[StateKeyTuple{spec.MRoomPowerLevels, ""}]; ok {
				var c struct {
					Users map[string]int64 `json:"users"`
				}
				_ = json.Unmarshal(cur.Content(), &c)
				for k, x := range c.Users {
					users[k] = x
				}
			} else if !s.impl.PrivilegedCreators() {
				users[zzUsers[0]] = 100
			}
			lv := []int64{0, 25, 50, 75, 100}[rnd.Intn(5)]
			if !(s.impl.PrivilegedCreators() && v == zzUsers[0]) {
				users[v] = lv
			}
			ub, _ := json.Marshal(users)
			sd := []int{0, 50, 50, 50, 100}[rnd.Intn(5)]
			pl := `{"users":` + string(ub) + `,"users_default":0,"state_default":` + strconv.Itoa(sd) + `,"events_default":0,"ban":50,"kick":50,"invite":` + strconv.Itoa([]int{0, 0, 50}[rnd.Intn(3)]) + `,"redact":50}`
			s.add(t, "pl", spec.MRoomPowerLevels, zzStr(""), u, pl, ts(), force)
		case 7:
			jr := []string{"public", "invite", "public", "knock"}[rnd.Intn(4)]
			s.add(t, "jr", spec.MRoomJoinRules, zzStr(""), u, `{"join_rule":"`+jr+`"}`, ts(), force)
		case 8, 9:
			s.add(t, "topic", "m.room.topic", zzStr(""), u, `{"topic":"t`+strconv.Itoa(i)+`"}`, ts(), force)
		case 10:
			s.add(t, "cust", "org.custom", zzStr([]string{"", "k1", u}[rnd.Intn(3)]), u, `{"x":`+strconv.Itoa(i)+`}`, ts(), force)
		case 11:
			s.add(t, "name", "m.room.name", zzStr(""), u, `{"name":"n`+strconv.Itoa(i)+`"}`, ts(), force)
		}
	}
	// choose 2..4 tips
	n := 2 + rnd.Intn(3)
	c := &zzCase{sim: s, rejected: map[string]bool{}}
	for i := 0; i < n; i++ {
		t := tips[rnd.Intn(len(tips))]
		c.stateSets = append(c.stateSets, t.events())
	}
	var roots []PDU
	for _, ss := range c.stateSets {
		roots = append(roots, ss...)
	}
	c.auth = s.closure(roots)
	if s.impl.StateResAlgorithm() == StateResV1 {
		// v1: the unconflicted auth events, one per state key
		perKey := map[StateKeyTuple]map[string]PDU{}
		for _, e := range roots {
			k := StateKeyTuple{e.Type(), *e.StateKey()}
			if perKey[k] == nil {
				perKey[k] = map[string]PDU{}
			}
			perKey[k][e.EventID()] = e
		}
		c.auth = nil
		for k, m := range perKey {
			if len(m) != 1 {
				continue
			}
			switch k.EventType {
			case spec.MRoomCreate, spec.MRoomPowerLevels, spec.MRoomJoinRules, spec.MRoomMember, spec.MRoomThirdPartyInvite:
				for _, e := range m {
					c.auth = append(c.auth, e)
				}
			}
		}
	}
	if hostile && seed%8 == 7 && s.impl.StateResAlgorithm() != StateResV1 {
		// incomplete inputs: drop some auth events and some state events
		var na []PDU
		for _, a := range c.auth {
			if rnd.Intn(8) > 0 {
				na = append(na, a)
			}
		}
		c.auth = na
		for i, ss := range c.stateSets {
			var ns []PDU
			for _, e := range ss {
				if rnd.Intn(10) > 0 {
					ns = append(ns, e)
				}
			}
			c.stateSets[i] = ns
		}
	}
	if hostile {
		for _, a := range c.auth {
			if rnd.Intn(15) == 0 {
				c.rejected[a.EventID()] = true
			}
		}
	}
	return c
}

func (c *zzCase) isRejected(id string) bool { return c.rejected[id] }

var zzAllVersions = []RoomVersion{RoomVersionV1, RoomVersionV2, RoomVersionV3, RoomVersionV6, RoomVersionV8, RoomVersionV10, RoomVersionV11, RoomVersionV12}

func zzIters(def int) int {
	if v := os.Getenv("ZZ_ITERS"); v != "" {
		n, _ := strconv.Atoi(v)
		return n
	}
	return def
}

func zzDump(c *zzCase) string {
	var sb strings.Builder
	for i, ss := range c.stateSets {
		fmt.Fprintf(&sb, "state set %d:\n", i)
		names := []string{}
		for _, e := range ss {
			names = append(names, "   "+c.sim.name(e)+" auth="+zzNames(c.sim, e.AuthEventIDs()))
		}
		sort.Strings(names)
		sb.WriteString(strings.Join(names, "\n") + "\n")
	}
	sb.WriteString("auth events:\n")
	names := []string{}
	for _, e := range c.auth {
		r := ""
		if c.rejected[e.EventID()] {
			r = " REJECTED"
		}
		names = append(names, "   "+c.sim.name(e)+" auth="+zzNames(c.sim, e.AuthEventIDs())+r)
	}
	sort.Strings(names)
	sb.WriteString(strings.Join(names, "\n") + "\n")
	return sb.String()
}

func zzNames(s *zzSim, ids []string) string {
	r := []string{}
	for _, i := range ids {
		if n, ok := s.names[i]; ok {
			r = append(r, n)
		} else {
			r = append(r, i)
		}
	}
	return "[" + strings.Join(r, ",") + "]"
}

func zzEvNames(s *zzSim, evs []PDU) string {
	r := []string{}
	for _, e := range evs {
		r = append(r, s.names[e.EventID()])
	}
	sort.Strings(r)
	return "[" + strings.Join(r, ",") + "]"
}

// ---------------------------------------------------------------- C11 invariants

func TestZZInvariants(t *testing.T) {
	iters := zzIters(300)
	devnull, _ := os.OpenFile(os.DevNull, os.O_WRONLY, 0)
	old := os.Stdout
	os.Stdout = devnull
	defer func() { os.Stdout = old }()
	for _, ver := range zzAllVersions {
		for seed := int64(0); seed < int64(iters); seed++ {
			c := zzGen(ver, seed, seed%2 == 1)
			rnd := rand.New(rand.NewSource(seed * 7))
			base, err := ResolveConflictsNew(ver, c.stateSets, c.auth, zzUserIDForSender, c.isRejected)
			if err != nil {
				t.Fatal(err)
			}
			// well-formedness
			keys := map[StateKeyTuple]PDU{}
			supplied := map[string]bool{}
			for _, ss := range c.stateSets {
				for _, e := range ss {
					supplied[e.EventID()] = true
				}
			}
			for _, e := range c.auth {
				supplied[e.EventID()] = true
			}
			for _, e := range base {
				k := StateKeyTuple{e.Type(), *e.StateKey()}
				if _, dup := keys[k]; dup {
					t.Fatalf("ver %s seed %d: duplicate key %v", ver, seed, k)
				}
				keys[k] = e
				if !supplied[e.EventID()] {
					t.Fatalf("ver %s seed %d: unsupplied event", ver, seed)
				}
			}
			// agreement kept
			cnt := map[string]int{}
			perKey := map[StateKeyTuple]map[string]bool{}
			for _, ss := range c.stateSets {
				for _, e := range ss {
					cnt[e.EventID()]++
					k := StateKeyTuple{e.Type(), *e.StateKey()}
					if perKey[k] == nil {
						perKey[k] = map[string]bool{}
					}
					perKey[k][e.EventID()] = true
				}
			}
			for k, ids := range perKey {
				if len(ids) == 1 {
					for id := range ids {
						if cnt[id] == len(c.stateSets) {
							if keys[k] == nil || keys[k].EventID() != id {
								t.Fatalf("ver %s seed %d: agreed key %v not kept\n%s", ver, seed, k, zzDump(c))
							}
						}
					}
				}
			}
			// permutations
			for p := 0; p < 3; p++ {
				sets := make([][]PDU, len(c.stateSets))
				for i, ss := range c.stateSets {
					sets[i] = zzShuffled(rnd, ss)
				}
				rnd.Shuffle(len(sets), func(i, j int) { sets[i], sets[j] = sets[j], sets[i] })
				auth := zzShuffled(rnd, c.auth)
				for i := 0; i < len(c.auth)/3; i++ {
					auth = append(auth, c.auth[rnd.Intn(len(c.auth))])
				}
				auth = zzShuffled(rnd, auth)
				got, _ := ResolveConflictsNew(ver, sets, auth, zzUserIDForSender, c.isRejected)
				if !zzSameSet(base, got) {
					t.Fatalf("ver %s seed %d: permutation changed result\nbase %s\ngot  %s\n%s", ver, seed, zzEvNames(c.sim, base), zzEvNames(c.sim, got), zzDump(c))
				}
			}
			// deprecated entry point: flat list
			var flat []PDU
			for _, ss := range c.stateSets {
				flat = append(flat, ss...)
			}
			d0, _ := ResolveConflicts(ver, flat, c.auth, zzUserIDForSender, c.isRejected)
			for p := 0; p < 3; p++ {
				d1, _ := ResolveConflicts(ver, zzShuffled(rnd, flat), zzShuffled(rnd, append(append([]PDU{}, c.auth...), c.auth...)), zzUserIDForSender, c.isRejected)
				if !zzSameSet(d0, d1) {
					t.Fatalf("ver %s seed %d: deprecated permutation changed result\nbase %s\ngot  %s\n%s", ver, seed, zzEvNames(c.sim, d0), zzEvNames(c.sim, d1), zzDump(c))
				}
			}
			dk := map[StateKeyTuple]bool{}
			for _, e := range d0 {
				k := StateKeyTuple{e.Type(), *e.StateKey()}
				if dk[k] {
					t.Fatalf("ver %s seed %d: deprecated duplicate key %v", ver, seed, k)
				}
				dk[k] = true
			}
			// equal sets
			eq, _ := ResolveConflictsNew(ver, [][]PDU{c.stateSets[0], zzShuffled(rnd, c.stateSets[0]), c.stateSets[0]}, c.auth, zzUserIDForSender, c.isRejected)
			if !zzSameSet(eq, c.stateSets[0]) {
				t.Fatalf("ver %s seed %d: equal sets not returned", ver, seed)
			}
		}
	}
}
