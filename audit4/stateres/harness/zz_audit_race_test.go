package gomatrixserverlib

import (
	"os"
	"sync"
	"testing"
)

func TestZZRace(t *testing.T) {
	devnull, _ := os.OpenFile(os.DevNull, os.O_WRONLY, 0)
	old := os.Stdout
	os.Stdout = devnull
	defer func() { os.Stdout = old }()
	for _, ver := range []RoomVersion{RoomVersionV1, RoomVersionV2, RoomVersionV10, RoomVersionV12} {
		for seed := int64(0); seed < 20; seed++ {
			c := zzGen(ver, seed, true)
			var wg sync.WaitGroup
			for g := 0; g < 4; g++ {
				wg.Add(1)
				go func() {
					defer wg.Done()
					_, _ = ResolveConflictsNew(ver, c.stateSets, c.auth, zzUserIDForSender, c.isRejected)
					var flat []PDU
					for _, ss := range c.stateSets {
						flat = append(flat, ss...)
					}
					_, _ = ResolveConflicts(ver, flat, c.auth, zzUserIDForSender, c.isRejected)
					ReverseTopologicalOrdering(flat, TopologicalOrderByAuthEvents)
					ReverseTopologicalOrdering(flat, TopologicalOrderByPrevEvents)
				}()
			}
			wg.Wait()
		}
	}
}
