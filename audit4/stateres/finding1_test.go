package gomatrixserverlib

// Audit finding 1 (round 4, state resolution). Package directory: the module
// root (package gomatrixserverlib).
//
// Room versions 6 and later have no special authorisation rule for
// m.room.aliases: such an event is an ordinary state event and its sender must
// be joined to the room and have the power level to send it (MSC2432; the rule
// "If type is m.room.aliases ... otherwise allow" exists in versions 1-5 only).
// The library applies the version 1-5 rule in every room version, so state
// resolution keeps an m.room.aliases event sent by somebody who was never in
// the room.

import (
	"encoding/json"
	"fmt"
	"testing"

	"github.com/matrix-org/gomatrixserverlib/spec"
)

func TestAuditFinding1(t *testing.T) {
	userIDForSender := func(roomID spec.RoomID, senderID spec.SenderID) (*spec.UserID, error) {
		return spec.NewUserID(string(senderID), true)
	}
	notRejected := func(string) bool { return false }

	for _, ver := range []RoomVersion{
		RoomVersionV6, RoomVersionV7, RoomVersionV8, RoomVersionV9, RoomVersionV10, RoomVersionV11, RoomVersionV12,
	} {
		t.Run(fmt.Sprintf("v%s", ver), func(t *testing.T) {
			impl := MustGetRoomVersion(ver)
			roomID := "!room:good.org"
			n := 0
			mk := func(typ, stateKey, sender, content string, auth, prev []string) PDU {
				n++
				m := map[string]interface{}{
					"type": typ, "state_key": stateKey, "sender": sender,
					"content":          json.RawMessage(content),
					"origin_server_ts": n, "depth": n,
					"auth_events": auth, "prev_events": prev,
				}
				if !(impl.DomainlessRoomIDs() && typ == spec.MRoomCreate) {
					m["room_id"] = roomID
				}
				b, err := json.Marshal(m)
				if err != nil {
					t.Fatal(err)
				}
				ev, err := impl.NewEventFromTrustedJSON(b, false)
				if err != nil {
					t.Fatal(err)
				}
				return ev
			}
			const alice, mallory = "@alice:good.org", "@mallory:evil.org"

			createContent := `{"creator":"` + alice + `","room_version":"` + string(ver) + `"}`
			plContent := `{"users":{"` + alice + `":100},"users_default":0,"events_default":0,"state_default":50,"ban":50,"kick":50,"redact":50,"invite":50}`
			if ver == RoomVersionV11 || impl.DomainlessRoomIDs() {
				createContent = `{"room_version":"` + string(ver) + `"}`
			}
			if impl.PrivilegedCreators() {
				plContent = `{"users":{},"users_default":0,"events_default":0,"state_default":50,"ban":50,"kick":50,"redact":50,"invite":50}`
			}
			create := mk(spec.MRoomCreate, "", alice, createContent, []string{}, []string{})
			if impl.DomainlessRoomIDs() {
				roomID = "!" + create.EventID()[1:]
			}
			// in version 12 the create event is not listed among the auth events
			withCreate := func(ids ...string) []string {
				if impl.DomainlessRoomIDs() {
					return ids
				}
				return append([]string{create.EventID()}, ids...)
			}
			join := mk(spec.MRoomMember, alice, alice, `{"membership":"join"}`, withCreate(), []string{create.EventID()})
			pl := mk(spec.MRoomPowerLevels, "", alice, plContent, withCreate(join.EventID()), []string{join.EventID()})
			jr := mk(spec.MRoomJoinRules, "", alice, `{"join_rule":"invite"}`, withCreate(join.EventID(), pl.EventID()), []string{pl.EventID()})
			// Mallory was never invited to, let alone joined, this invite-only room.
			alias := mk(spec.MRoomAliases, "evil.org", mallory, `{"aliases":["#gotcha:evil.org"]}`, withCreate(pl.EventID()), []string{jr.EventID()})

			// sanity: the plain auth check says the same thing
			provider, _ := NewAuthEvents([]PDU{create, pl})
			if err := Allowed(alias, provider, userIDForSender); err == nil {
				t.Errorf("Allowed: m.room.aliases from %s, who is not in the room, passes the auth rules of room version %s", mallory, ver)
			}

			honest := []PDU{create, join, pl, jr}
			hostile := []PDU{create, join, pl, jr, alias}
			authEvents := []PDU{create, join, pl, jr}
			resolved, err := ResolveConflictsNew(ver, [][]PDU{honest, hostile}, authEvents, userIDForSender, notRejected)
			if err != nil {
				t.Fatal(err)
			}
			for _, ev := range resolved {
				if ev.Type() == spec.MRoomAliases {
					t.Errorf("room version %s: resolved state contains the m.room.aliases event of %s, who is not a member of the room", ver, mallory)
				}
			}
		})
	}
}
