// Package directory: the module root (package gomatrixserverlib), e.g. /tmp/au4/keys/finding3_test.go
package gomatrixserverlib

import (
	"context"
	"crypto/sha256"
	"encoding/json"
	"fmt"
	"strings"
	"testing"
	"time"

	"github.com/matrix-org/gomatrixserverlib/spec"
	"golang.org/x/crypto/ed25519"
)

type auditF3DB struct {
	keys map[PublicKeyLookupRequest]PublicKeyLookupResult
}

func (db *auditF3DB) FetcherName() string { return "auditF3DB" }
func (db *auditF3DB) FetchKeys(ctx context.Context, reqs map[PublicKeyLookupRequest]spec.Timestamp) (map[PublicKeyLookupRequest]PublicKeyLookupResult, error) {
	out := map[PublicKeyLookupRequest]PublicKeyLookupResult{}
	for r := range reqs {
		if k, ok := db.keys[r]; ok {
			out[r] = k
		}
	}
	return out, nil
}
func (db *auditF3DB) StoreKeys(ctx context.Context, res map[PublicKeyLookupRequest]PublicKeyLookupResult) error {
	return nil
}

// A signature string that has been altered - its last character replaced by
// another one, or a line break inserted into it - is still accepted, because
// the base64 decoder ignores the four unused bits of the last character and
// skips CR / LF. The event (or message) is then not the one the server signed:
// its "signatures" member differs, yet it verifies, and for an event the event
// ID is unchanged.
func TestAuditFinding3(t *testing.T) {
	seed := sha256.Sum256([]byte("audit finding 3"))
	priv := ed25519.NewKeyFromSeed(seed[:])
	pub := priv.Public().(ed25519.PublicKey)
	now := time.Now()
	ts := now.Add(-time.Minute).UnixMilli()

	// A room version 10 message event, hashed and signed by the sender's server.
	eventJSON := []byte(fmt.Sprintf(`{"type":"m.room.message","sender":"@alice:origin.example","room_id":"!room:origin.example",`+
		`"origin_server_ts":%d,"depth":5,"prev_events":["$prevprevprevprevprevprevprevprevprevprevprev"],`+
		`"auth_events":["$authauthauthauthauthauthauthauthauthauthauth"],"content":{"body":"x"}}`, ts))
	eventJSON, err := addContentHashesToEvent(eventJSON)
	if err != nil {
		t.Fatal(err)
	}
	eventJSON, err = signEvent("origin.example", "ed25519:a", priv, eventJSON, RoomVersionV10)
	if err != nil {
		t.Fatal(err)
	}

	var top map[string]json.RawMessage
	if err = json.Unmarshal(eventJSON, &top); err != nil {
		t.Fatal(err)
	}
	var sigs map[string]map[string]string
	if err = json.Unmarshal(top["signatures"], &sigs); err != nil {
		t.Fatal(err)
	}
	good := sigs["origin.example"]["ed25519:a"]

	// the last of the 86 characters carries 2 bits of the signature and 4 unused bits
	const alphabet = "ABCDEFGHIJKLMNOPQRSTUVWXYZabcdefghijklmnopqrstuvwxyz0123456789+/"
	last := strings.IndexByte(alphabet, good[len(good)-1])
	altered := map[string]string{
		"last character replaced":  good[:len(good)-1] + string(alphabet[last|1]), // sets an unused bit
		"line feed inserted":       good[:40] + "\n" + good[40:],
		"carriage return appended": good + "\r",
	}

	ring := KeyRing{KeyDatabase: &auditF3DB{keys: map[PublicKeyLookupRequest]PublicKeyLookupResult{
		{ServerName: "origin.example", KeyID: "ed25519:a"}: {
			VerifyKey:    VerifyKey{Key: spec.Base64Bytes(pub)},
			ValidUntilTS: spec.AsTimestamp(now.Add(time.Hour)),
		},
	}}}
	userIDForSender := func(roomID spec.RoomID, senderID spec.SenderID) (*spec.UserID, error) {
		return spec.NewUserID(string(senderID), true)
	}
	verify := func(sig string) (PDU, error) {
		sigs["origin.example"]["ed25519:a"] = sig
		top["signatures"], _ = json.Marshal(sigs)
		js, _ := json.Marshal(top)
		ev, err := MustGetRoomVersion(RoomVersionV10).NewEventFromUntrustedJSON(js)
		if err != nil {
			return nil, err
		}
		return ev, VerifyEventSignatures(context.Background(), ev, ring, userIDForSender)
	}

	original, err := verify(good)
	if err != nil {
		t.Fatalf("control: the untouched event does not verify: %v", err)
	}
	for name, sig := range altered {
		if sig == good {
			t.Fatalf("%s: test bug, signature unchanged", name)
		}
		ev, err := verify(sig)
		if err == nil {
			t.Errorf("%s: VerifyEventSignatures accepts the event although the signature string was changed from %q to %q (same event ID: %v)",
				name, good, sig, ev.EventID() == original.EventID())
		}
		// the same through VerifyJSON directly
		sigs["origin.example"]["ed25519:a"] = sig
		top["signatures"], _ = json.Marshal(sigs)
		js, _ := json.Marshal(top)
		redacted, rerr := MustGetRoomVersion(RoomVersionV10).RedactEventJSON(js)
		if rerr != nil {
			t.Fatal(rerr)
		}
		if VerifyJSON("origin.example", "ed25519:a", pub, redacted) == nil {
			t.Errorf("%s: VerifyJSON accepts the altered signature string", name)
		}
	}
}
