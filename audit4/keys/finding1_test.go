// Package directory: the module root (package gomatrixserverlib), e.g. /tmp/au4/keys/finding1_test.go
package gomatrixserverlib

import (
	"context"
	"crypto/sha256"
	"encoding/json"
	"fmt"
	"testing"
	"time"

	"github.com/matrix-org/gomatrixserverlib/spec"
	"golang.org/x/crypto/ed25519"
)

type auditF1Client struct{ doc []byte }

func (c *auditF1Client) GetServerKeys(ctx context.Context, s spec.ServerName) (ServerKeys, error) {
	var k ServerKeys
	err := json.Unmarshal(c.doc, &k)
	return k, err
}
func (c *auditF1Client) LookupServerKeys(ctx context.Context, s spec.ServerName, _ map[PublicKeyLookupRequest]spec.Timestamp) ([]ServerKeys, error) {
	return nil, fmt.Errorf("no notary")
}

type auditF1DB struct {
	keys map[PublicKeyLookupRequest]PublicKeyLookupResult
}

func (db *auditF1DB) FetcherName() string { return "auditF1DB" }
func (db *auditF1DB) FetchKeys(ctx context.Context, reqs map[PublicKeyLookupRequest]spec.Timestamp) (map[PublicKeyLookupRequest]PublicKeyLookupResult, error) {
	out := map[PublicKeyLookupRequest]PublicKeyLookupResult{}
	for r := range reqs {
		if k, ok := db.keys[r]; ok {
			out[r] = k
		}
	}
	return out, nil
}
func (db *auditF1DB) StoreKeys(ctx context.Context, res map[PublicKeyLookupRequest]PublicKeyLookupResult) error {
	for k, v := range res {
		db.keys[k] = v
	}
	return nil
}

// A key document whose valid_until_ts is 2^63 ms or more (far in the future) is
// reported by CheckKeys as NOT being in the future, so the library's fetchers
// throw the document away and nothing signed by that server can be verified.
func TestAuditFinding1(t *testing.T) {
	seed := sha256.Sum256([]byte("audit finding 1"))
	priv := ed25519.NewKeyFromSeed(seed[:])
	pub := priv.Public().(ed25519.PublicKey)

	for _, validUntil := range []string{
		"9223372036854775807",  // 2^63-1: accepted (control)
		"9223372036854775808",  // 2^63
		"18446744073709551615", // 2^64-1
	} {
		body := fmt.Sprintf(`{"server_name":"far.example","valid_until_ts":%s,"verify_keys":{"ed25519:a":{"key":%q}},"old_verify_keys":{}}`,
			validUntil, spec.Base64Bytes(pub).Encode())
		doc, err := SignJSON("far.example", "ed25519:a", priv, []byte(body))
		if err != nil {
			t.Fatal(err)
		}
		var keys ServerKeys
		if err = json.Unmarshal(doc, &keys); err != nil {
			t.Fatalf("valid_until_ts=%s: key document does not decode: %v", validUntil, err)
		}
		if fmt.Sprint(uint64(keys.ValidUntilTS)) != validUntil {
			t.Fatalf("valid_until_ts=%s decoded as %d", validUntil, keys.ValidUntilTS)
		}

		// (a) CheckKeys itself, with the real clock.
		checks, usable := CheckKeys("far.example", time.Now(), keys)
		if !checks.FutureValidUntilTS || !checks.AllChecksOK || len(usable) != 1 {
			t.Errorf("valid_until_ts=%s: CheckKeys(now) says FutureValidUntilTS=%v AllChecksOK=%v (%d keys); the document is correctly self-signed and valid_until_ts is in the future",
				validUntil, checks.FutureValidUntilTS, checks.AllChecksOK, len(usable))
		}

		// (b) End to end: key ring with an empty database and the direct fetcher.
		ring := KeyRing{
			KeyDatabase: &auditF1DB{keys: map[PublicKeyLookupRequest]PublicKeyLookupResult{}},
			KeyFetchers: []KeyFetcher{&DirectKeyFetcher{
				Client:            &auditF1Client{doc: doc},
				IsLocalServerName: func(spec.ServerName) bool { return false },
			}},
		}
		msg, err := SignJSON("far.example", "ed25519:a", priv, []byte(`{"hello":"world"}`))
		if err != nil {
			t.Fatal(err)
		}
		for name, rule := range map[string]SignatureValidityCheckFunc{"strict": StrictValiditySignatureCheck, "lenient": NoStrictValidityCheck} {
			res, err := ring.VerifyJSONs(context.Background(), []VerifyJSONRequest{{
				ServerName: "far.example", AtTS: spec.AsTimestamp(time.Now()), Message: msg, ValidityCheckingFunc: rule,
			}})
			if err != nil {
				t.Fatal(err)
			}
			if res[0].Error != nil {
				t.Errorf("valid_until_ts=%s, %s rule: a correctly signed message is refused although the fetcher was handed a valid key: %v",
					validUntil, name, res[0].Error)
			}
		}
	}
}
