// Package directory: the module root (package gomatrixserverlib), e.g. /tmp/au4/keys/finding2_test.go
package gomatrixserverlib

import (
	"context"
	"crypto/sha256"
	"encoding/json"
	"fmt"
	"testing"
	"time"

	"github.com/matrix-org/gomatrixserverlib/spec"
	"golang.org/x/crypto/ed25519"
)

func auditF2Key(seed string) (ed25519.PublicKey, ed25519.PrivateKey) {
	h := sha256.Sum256([]byte(seed))
	priv := ed25519.NewKeyFromSeed(h[:])
	return priv.Public().(ed25519.PublicKey), priv
}

// the notary: answers every query with the same list of key documents
type auditF2Notary struct{ docs [][]byte }

func (c *auditF2Notary) GetServerKeys(ctx context.Context, s spec.ServerName) (ServerKeys, error) {
	return ServerKeys{}, fmt.Errorf("not reachable directly")
}
func (c *auditF2Notary) LookupServerKeys(ctx context.Context, s spec.ServerName, _ map[PublicKeyLookupRequest]spec.Timestamp) ([]ServerKeys, error) {
	var out []ServerKeys
	for _, d := range c.docs {
		var k ServerKeys
		if err := json.Unmarshal(d, &k); err != nil {
			return nil, err
		}
		out = append(out, k)
	}
	return out, nil
}

type auditF2DB struct {
	keys map[PublicKeyLookupRequest]PublicKeyLookupResult
}

func (db *auditF2DB) FetcherName() string { return "auditF2DB" }
func (db *auditF2DB) FetchKeys(ctx context.Context, reqs map[PublicKeyLookupRequest]spec.Timestamp) (map[PublicKeyLookupRequest]PublicKeyLookupResult, error) {
	out := map[PublicKeyLookupRequest]PublicKeyLookupResult{}
	for r := range reqs {
		if k, ok := db.keys[r]; ok {
			out[r] = k
		}
	}
	return out, nil
}
func (db *auditF2DB) StoreKeys(ctx context.Context, res map[PublicKeyLookupRequest]PublicKeyLookupResult) error {
	for k, v := range res {
		db.keys[k] = v
	}
	return nil
}

// A notary that holds two generations of a server's key document returns both
// (Synapse does). PerspectiveKeyFetcher lets whichever document comes LAST in
// the answer overwrite the other, so the verdict depends on the order:
// with the older document last, a key that the newer document declares expired
// is treated as live again (signatures made after its expiry verify under the
// lenient rule), and the current key is given the stale valid_until_ts of the
// old document (signatures made now are refused under the strict rule).
func TestAuditFinding2(t *testing.T) {
	now := time.Now()
	pubCur, privCur := auditF2Key("srv current key")
	pubOld, privOld := auditF2Key("srv rotated-out key")
	pubNotary, privNotary := auditF2Key("notary key")

	expiredAt := spec.AsTimestamp(now.Add(-48 * time.Hour))        // ed25519:old was retired two days ago
	oldDocValidUntil := spec.AsTimestamp(now.Add(-72 * time.Hour)) // the old document ran out three days ago
	newDocValidUntil := spec.AsTimestamp(now.Add(time.Hour))

	b64 := func(b []byte) string { return spec.Base64Bytes(b).Encode() }
	sign := func(doc []byte, name string, id KeyID, priv ed25519.PrivateKey) []byte {
		out, err := SignJSON(name, id, priv, doc)
		if err != nil {
			t.Fatal(err)
		}
		return out
	}

	// generation 1: both keys are current, valid until three days ago
	oldDoc := []byte(fmt.Sprintf(
		`{"server_name":"srv.example","valid_until_ts":%d,"verify_keys":{"ed25519:cur":{"key":%q},"ed25519:old":{"key":%q}},"old_verify_keys":{}}`,
		oldDocValidUntil, b64(pubCur), b64(pubOld)))
	oldDoc = sign(oldDoc, "srv.example", "ed25519:cur", privCur)
	oldDoc = sign(oldDoc, "srv.example", "ed25519:old", privOld)
	oldDoc = sign(oldDoc, "notary.example", "ed25519:n", privNotary)

	// generation 2: ed25519:old has been moved to old_verify_keys, expired two days ago
	newDoc := []byte(fmt.Sprintf(
		`{"server_name":"srv.example","valid_until_ts":%d,"verify_keys":{"ed25519:cur":{"key":%q}},"old_verify_keys":{"ed25519:old":{"key":%q,"expired_ts":%d}}}`,
		newDocValidUntil, b64(pubCur), b64(pubOld), expiredAt))
	newDoc = sign(newDoc, "srv.example", "ed25519:cur", privCur)
	newDoc = sign(newDoc, "notary.example", "ed25519:n", privNotary)

	// a message signed with the retired key, dated an hour ago (47 h after the key expired)
	afterExpiry := sign([]byte(`{"n":1}`), "srv.example", "ed25519:old", privOld)
	// a message signed with the current key, dated a minute ago
	recent := sign([]byte(`{"n":2}`), "srv.example", "ed25519:cur", privCur)

	for _, order := range []struct {
		name string
		docs [][]byte
	}{
		{"old document first, new document last", [][]byte{oldDoc, newDoc}},
		{"new document first, old document last", [][]byte{newDoc, oldDoc}},
	} {
		ring := KeyRing{
			KeyDatabase: &auditF2DB{keys: map[PublicKeyLookupRequest]PublicKeyLookupResult{}},
			KeyFetchers: []KeyFetcher{&PerspectiveKeyFetcher{
				PerspectiveServerName: "notary.example",
				PerspectiveServerKeys: map[KeyID]ed25519.PublicKey{"ed25519:n": pubNotary},
				Client:                &auditF2Notary{docs: order.docs},
			}},
		}
		res, err := ring.VerifyJSONs(context.Background(), []VerifyJSONRequest{
			{ServerName: "srv.example", AtTS: spec.AsTimestamp(now.Add(-time.Hour)), Message: afterExpiry, ValidityCheckingFunc: NoStrictValidityCheck},
			{ServerName: "srv.example", AtTS: spec.AsTimestamp(now.Add(-time.Minute)), Message: recent, ValidityCheckingFunc: StrictValiditySignatureCheck},
		})
		if err != nil {
			t.Fatalf("%s: %v", order.name, err)
		}
		if res[0].Error == nil {
			t.Errorf("%s: a signature made with ed25519:old 47 hours AFTER its expired_ts was accepted (lenient rule)", order.name)
		}
		if res[1].Error != nil {
			t.Errorf("%s: a signature made a minute ago with the current key (document valid for another hour) was refused (strict rule): %v", order.name, res[1].Error)
		}
	}
}
