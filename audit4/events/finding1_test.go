package gomatrixserverlib

// Audit finding 1 (events, round 4). Belongs in the package root directory
// (package gomatrixserverlib), e.g. as /tmp/au4/events/finding1_test.go.
//
// NewEventFromUntrustedJSON edits the received bytes with sjson (which, like
// gjson, does not validate and reads malformed input "leniently") BEFORE
// anything checks that the bytes are JSON at all. A text that is not JSON can
// therefore be turned into valid JSON by the very edit that is meant to strip
// a member, and the member survives:
//
//	{ ...,"event_id","event_id":"$evil"}      (a member name without a value)
//
// gjson pairs the first "event_id" with the next string it finds (the second
// "event_id"), sjson "deletes" that pair by cutting out `,"event_id"`, and what
// is left is the valid object { ...,"event_id":"$evil"}. encoding/json only
// sees that. In room versions 3 and later the parser then takes the event ID
// from the surviving member instead of computing the reference hash; with
// "unsigned" in place of "event_id" the sender's unsigned block is kept
// instead of being stripped.

import (
	"encoding/json"
	"strings"
	"testing"
	"time"

	"golang.org/x/crypto/ed25519"
)

func TestAuditFinding1(t *testing.T) {
	key := ed25519.NewKeyFromSeed([]byte(strings.Repeat("k", 32)))
	for _, v := range []RoomVersion{
		RoomVersionV3, RoomVersionV4, RoomVersionV5, RoomVersionV6, RoomVersionV7, RoomVersionV8,
		RoomVersionV9, RoomVersionV10, RoomVersionV11, RoomVersionV12,
	} {
		verImpl := MustGetRoomVersion(v)
		pe := &ProtoEvent{
			SenderID:   "@u:example.org",
			RoomID:     "!r:example.org",
			Type:       "m.room.message",
			Depth:      5,
			PrevEvents: []string{"$p"},
			AuthEvents: []string{"$a"},
			Content:    []byte(`{"body":"hi"}`),
		}
		if verImpl.DomainlessRoomIDs() {
			pe.RoomID = "!" + strings.Repeat("a", 43)
		}
		ev, err := verImpl.NewEventBuilderFromProtoEvent(pe).Build(
			time.UnixMilli(1700000000000), "example.org", "ed25519:k", key,
		)
		if err != nil {
			t.Fatalf("room version %s: Build: %v", v, err)
		}
		good := string(ev.JSON())

		// sanity: the well-formed counterparts are handled correctly
		for _, suffix := range []string{`,"event_id":"$evil"}`, `,"unsigned":{"injected":true}}`} {
			in := good[:len(good)-1] + suffix
			e, err := verImpl.NewEventFromUntrustedJSON([]byte(in))
			if err != nil {
				t.Fatalf("room version %s: well-formed input refused: %v", v, err)
			}
			if e.EventID() != ev.EventID() || e.Redacted() || len(e.Unsigned()) != 0 {
				t.Fatalf("room version %s: well-formed input: ID %s (want %s), redacted %v, unsigned %s",
					v, e.EventID(), ev.EventID(), e.Redacted(), e.Unsigned())
			}
		}

		for _, suffix := range []string{`,"event_id","event_id":"$evil"}`, `,"unsigned","unsigned":{"injected":true}}`} {
			in := good[:len(good)-1] + suffix
			if json.Valid([]byte(in)) {
				t.Fatalf("test bug: input is valid JSON")
			}
			e, err := verImpl.NewEventFromUntrustedJSON([]byte(in))
			if err == nil {
				t.Errorf("room version %s: input that is not JSON was accepted as an event:\n  input     %s\n  EventID() %s (event built: %s)\n  Unsigned() %s\n  JSON()    %s",
					v, in, e.EventID(), ev.EventID(), e.Unsigned(), e.JSON())
			}
		}
	}
}
