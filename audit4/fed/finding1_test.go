package gomatrixserverlib

// Audit finding 1 (property C14). Belongs in the package root directory
// (next to backfill.go).
//
// RequestBackfill hands out an event that is NOT allowed by the auth rules as
// soon as its signature is broken as well: LoadAndVerify stops at the first
// failing check (the signature), RequestBackfill keeps every SignatureErr
// result, and so the auth checks (steps 4 and 5) are never run for it.

import (
	"bytes"
	"context"
	"crypto/ed25519"
	"encoding/json"
	"fmt"
	"testing"
	"time"

	"github.com/matrix-org/gomatrixserverlib/spec"
)

type auditF1Verifier struct {
	keys map[spec.ServerName]ed25519.PublicKey
}

func (v *auditF1Verifier) VerifyJSONs(ctx context.Context, requests []VerifyJSONRequest) ([]VerifyJSONResult, error) {
	res := make([]VerifyJSONResult, len(requests))
	for i, r := range requests {
		pk, ok := v.keys[r.ServerName]
		if !ok {
			res[i].Error = fmt.Errorf("no key for %q", r.ServerName)
			continue
		}
		res[i].Error = VerifyJSON(string(r.ServerName), "ed25519:1", pk, r.Message)
	}
	return res, nil
}

type auditF1Requester struct {
	events map[string]PDU // everything this server already has, by event ID
	state  []PDU          // the room state before the backfilled event
	pdus   []json.RawMessage
}

func (b *auditF1Requester) StateIDsBeforeEvent(ctx context.Context, event PDU) ([]string, error) {
	ids := []string{}
	for _, e := range b.state {
		ids = append(ids, e.EventID())
	}
	return ids, nil
}

func (b *auditF1Requester) StateBeforeEvent(ctx context.Context, roomVer RoomVersion, event PDU, eventIDs []string) (map[string]PDU, error) {
	res := map[string]PDU{}
	for _, e := range b.state {
		res[e.EventID()] = e
	}
	return res, nil
}

func (b *auditF1Requester) Backfill(ctx context.Context, origin, server spec.ServerName, roomID string, limit int, fromEventIDs []string) (Transaction, error) {
	return Transaction{Origin: server, PDUs: b.pdus}, nil
}

func (b *auditF1Requester) ServersAtEvent(ctx context.Context, roomID, eventID string) []spec.ServerName {
	return []spec.ServerName{"evil.example"}
}

func (b *auditF1Requester) ProvideEvents(roomVer RoomVersion, eventIDs []string) ([]PDU, error) {
	var res []PDU
	for _, id := range eventIDs {
		if e, ok := b.events[id]; ok {
			res = append(res, e)
		}
	}
	return res, nil
}

func TestAuditFinding1(t *testing.T) {
	const roomID = "!room:good.example"
	ver := RoomVersionV10
	verImpl := MustGetRoomVersion(ver)
	goodKey := ed25519.NewKeyFromSeed(bytes.Repeat([]byte{1}, 32))
	evilKey := ed25519.NewKeyFromSeed(bytes.Repeat([]byte{2}, 32))
	verifier := &auditF1Verifier{keys: map[spec.ServerName]ed25519.PublicKey{
		"good.example": goodKey.Public().(ed25519.PublicKey),
		"evil.example": evilKey.Public().(ed25519.PublicKey),
	}}
	userIDForSender := func(roomID spec.RoomID, senderID spec.SenderID) (*spec.UserID, error) {
		return spec.NewUserID(string(senderID), true)
	}

	depth := int64(0)
	build := func(typ string, stateKey *string, sender string, content string, auth, prev []PDU, origin spec.ServerName, key ed25519.PrivateKey) PDU {
		depth++
		ids := func(evs []PDU) []interface{} {
			out := []interface{}{}
			for _, e := range evs {
				out = append(out, e.EventID())
			}
			return out
		}
		ev, err := verImpl.NewEventBuilderFromProtoEvent(&ProtoEvent{
			SenderID: sender, RoomID: roomID, Type: typ, StateKey: stateKey,
			PrevEvents: ids(prev), AuthEvents: ids(auth), Depth: depth, Content: spec.RawJSON(content),
		}).Build(time.Unix(1700000000, 0), origin, "ed25519:1", key)
		if err != nil {
			t.Fatalf("building %s: %v", typ, err)
		}
		return ev
	}
	empty, alice := "", "@alice:good.example"
	create := build(spec.MRoomCreate, &empty, alice, `{"creator":"@alice:good.example","room_version":"10"}`, nil, nil, "good.example", goodKey)
	join := build(spec.MRoomMember, &alice, alice, `{"membership":"join"}`, []PDU{create}, []PDU{create}, "good.example", goodKey)
	levels := build(spec.MRoomPowerLevels, &empty, alice, `{"users":{"@alice:good.example":100},"state_default":50,"events_default":0}`, []PDU{create, join}, []PDU{join}, "good.example", goodKey)
	rules := build(spec.MRoomJoinRules, &empty, alice, `{"join_rule":"invite"}`, []PDU{create, join, levels}, []PDU{levels}, "good.example", goodKey)
	state := []PDU{create, join, levels, rules}

	// @mallory:evil.example was never in the (invite-only) room and renames it.
	forged := build("m.room.name", &empty, "@mallory:evil.example", `{"name":"owned"}`, []PDU{create, levels}, []PDU{rules}, "evil.example", evilKey)

	requester := &auditF1Requester{events: map[string]PDU{}, state: state}
	for _, e := range state {
		requester.events[e.EventID()] = e
	}
	run := func(raw []byte) []PDU {
		requester.pdus = []json.RawMessage{raw}
		res, err := RequestBackfill(context.Background(), "good.example", requester, verifier, roomID, ver, []string{rules.EventID()}, 10, userIDForSender)
		if err != nil {
			t.Fatalf("RequestBackfill: %v", err)
		}
		return res
	}

	// Control: with its (valid) signature the forged event is refused by the auth checks.
	if err := VerifyEventSignatures(context.Background(), forged, verifier, userIDForSender); err != nil {
		t.Fatalf("control: the forged event should be validly signed by its own server: %v", err)
	}
	if res := run(forged.JSON()); len(res) != 0 {
		t.Fatalf("control: the validly signed but unauthorised event was returned")
	}

	// The same event with a damaged signature.
	var fields map[string]json.RawMessage
	if err := json.Unmarshal(forged.JSON(), &fields); err != nil {
		t.Fatal(err)
	}
	fields["signatures"] = json.RawMessage(`{"evil.example":{"ed25519:1":"` + spec.Base64Bytes(bytes.Repeat([]byte{7}, 64)).Encode() + `"}}`)
	damaged, err := json.Marshal(fields)
	if err != nil {
		t.Fatal(err)
	}
	parsed, err := verImpl.NewEventFromUntrustedJSON(damaged)
	if err != nil {
		t.Fatalf("the damaged event should still parse: %v", err)
	}
	if VerifyEventSignatures(context.Background(), parsed, verifier, userIDForSender) == nil {
		t.Fatal("the damaged signature should not verify")
	}
	authProvider, _ := NewAuthEvents(state)
	if Allowed(parsed, authProvider, userIDForSender) == nil {
		t.Fatal("the event should not be allowed by the room state")
	}

	for _, e := range run(damaged) {
		if e.EventID() == forged.EventID() {
			t.Errorf("RequestBackfill returned event %s (%s by %s): its signature is invalid AND it is not allowed by its auth events / the state before it; the auth checks were never run",
				e.EventID(), e.Type(), e.SenderID())
		}
	}
}
