// Audit finding 3 (property C07). Belongs in the package root directory
// (package gomatrixserverlib), e.g. /tmp/au4/auth/finding3_test.go.
package gomatrixserverlib

import (
	"encoding/json"
	"fmt"
	"testing"

	"github.com/matrix-org/gomatrixserverlib/spec"
)

func f3Event(t *testing.T, ver RoomVersion, n int, roomID, typ string, stateKey *string, sender, content string) PDU {
	t.Helper()
	m := map[string]interface{}{
		"type":             typ,
		"sender":           sender,
		"content":          json.RawMessage(content),
		"origin_server_ts": 1000 + n,
		"depth":            n,
		"prev_events":      []interface{}{},
		"auth_events":      []interface{}{},
		"room_id":          roomID,
	}
	if stateKey != nil {
		m["state_key"] = *stateKey
	}
	verImpl := MustGetRoomVersion(ver)
	if verImpl.EventFormat() == EventFormatV1 {
		m["event_id"] = fmt.Sprintf("$f3e%d:example.org", n)
	}
	b, err := json.Marshal(m)
	if err != nil {
		t.Fatal(err)
	}
	ev, err := verImpl.NewEventFromTrustedJSON(b, false)
	if err != nil {
		t.Fatalf("cannot build event: %v\n%s", err, b)
	}
	return ev
}

// An invite whose content HAS a third_party_invite member - with the value
// null - is authorised as an ordinary invite. The rule is "if content has a
// third_party_invite property": no signed property => reject.
func TestAuditFinding3(t *testing.T) {
	querier := func(roomID spec.RoomID, senderID spec.SenderID) (*spec.UserID, error) {
		return spec.NewUserID(string(senderID), true)
	}
	empty, alice, bob := "", "@alice:example.org", "@bob:example.org"
	roomID := "!room:example.org"
	for _, ver := range []RoomVersion{RoomVersionV1, RoomVersionV6, RoomVersionV10, RoomVersionV11} {
		createContent := fmt.Sprintf(`{"creator":%q,"room_version":%q}`, alice, string(ver))
		create := f3Event(t, ver, 1, roomID, spec.MRoomCreate, &empty, alice, createContent)
		aliceJoin := f3Event(t, ver, 2, roomID, spec.MRoomMember, &alice, alice, `{"membership":"join"}`)
		authEvents, err := NewAuthEvents([]PDU{create, aliceJoin})
		if err != nil {
			t.Fatal(err)
		}
		// every other value without a usable "signed" is refused ...
		for _, v := range []string{`{}`, `{"signed":{}}`, `{"signed":null}`, `{"display_name":"x"}`} {
			inv := f3Event(t, ver, 3, roomID, spec.MRoomMember, &bob, alice, `{"membership":"invite","third_party_invite":`+v+`}`)
			if err = Allowed(inv, authEvents, querier); err == nil {
				t.Errorf("room version %s: invite with third_party_invite=%s was allowed", ver, v)
			}
		}
		// ... but null is not
		inv := f3Event(t, ver, 4, roomID, spec.MRoomMember, &bob, alice, `{"membership":"invite","third_party_invite":null}`)
		if err = Allowed(inv, authEvents, querier); err == nil {
			t.Errorf("room version %s: invite with \"third_party_invite\":null (present, no signed / mxid / token, no third-party-invite event) was allowed", ver)
		}
	}
}
