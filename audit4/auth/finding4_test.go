// Audit finding 4 (property C09). Belongs in the package root directory
// (package gomatrixserverlib), e.g. /tmp/au4/auth/finding4_test.go.
package gomatrixserverlib

import (
	"encoding/base64"
	"encoding/json"
	"fmt"
	"testing"

	"github.com/matrix-org/gomatrixserverlib/spec"
	"golang.org/x/crypto/ed25519"
)

func f4Event(t *testing.T, ver RoomVersion, n int, roomID, typ string, stateKey *string, sender, content string) PDU {
	t.Helper()
	m := map[string]interface{}{
		"type":             typ,
		"sender":           sender,
		"content":          json.RawMessage(content),
		"origin_server_ts": 1000 + n,
		"depth":            n,
		"prev_events":      []interface{}{},
		"auth_events":      []interface{}{},
		"room_id":          roomID,
	}
	if stateKey != nil {
		m["state_key"] = *stateKey
	}
	verImpl := MustGetRoomVersion(ver)
	if verImpl.EventFormat() == EventFormatV1 {
		m["event_id"] = fmt.Sprintf("$f4e%d:example.org", n)
	}
	b, err := json.Marshal(m)
	if err != nil {
		t.Fatal(err)
	}
	ev, err := verImpl.NewEventFromTrustedJSON(b, false)
	if err != nil {
		t.Fatalf("cannot build event: %v\n%s", err, b)
	}
	return ev
}

// The verdict must be a function of the event and of the auth events for the
// (type, state_key) pairs StateNeededForAuth names. For a member event whose
// third_party_invite has an empty token it is not: Allowed reads the
// m.room.third_party_invite event with state key "" (and, for a restricted
// join, the authoriser's member event) although StateNeededForAuth names neither.
func TestAuditFinding4(t *testing.T) {
	querier := func(roomID spec.RoomID, senderID spec.SenderID) (*spec.UserID, error) {
		return spec.NewUserID(string(senderID), true)
	}
	pub, priv, err := ed25519.GenerateKey(nil)
	if err != nil {
		t.Fatal(err)
	}
	pubB64 := base64.RawStdEncoding.EncodeToString(pub)
	signed, err := SignJSON("id.example", "ed25519:0", priv, []byte(`{"mxid":"@bob:example.org","token":""}`))
	if err != nil {
		t.Fatal(err)
	}
	empty, alice, bob := "", "@alice:example.org", "@bob:example.org"
	roomID := "!room:example.org"

	check := func(t *testing.T, ver RoomVersion, event PDU, state []PDU) {
		t.Helper()
		needed := map[StateKeyTuple]bool{}
		for _, tuple := range StateNeededForAuth([]PDU{event}).Tuples() {
			needed[tuple] = true
		}
		var neededOnly []PDU
		var unneeded []string
		for _, e := range state {
			if needed[StateKeyTuple{EventType: e.Type(), StateKey: *e.StateKey()}] {
				neededOnly = append(neededOnly, e)
			} else {
				unneeded = append(unneeded, fmt.Sprintf("(%s,%q)", e.Type(), *e.StateKey()))
			}
		}
		full, err := NewAuthEvents(state)
		if err != nil {
			t.Fatal(err)
		}
		sub, err := NewAuthEvents(neededOnly)
		if err != nil {
			t.Fatal(err)
		}
		errFull := Allowed(event, full, querier)
		errSub := Allowed(event, sub, querier)
		if (errFull == nil) != (errSub == nil) {
			t.Errorf("room version %s: verdict depends on state that StateNeededForAuth does not name %v:\n  with it:    %v\n  without it: %v\n  event content: %s",
				ver, unneeded, errFull, errSub, event.Content())
		}
	}

	for _, ver := range []RoomVersion{RoomVersionV1, RoomVersionV8, RoomVersionV10} {
		create := f4Event(t, ver, 1, roomID, spec.MRoomCreate, &empty, alice, fmt.Sprintf(`{"creator":%q,"room_version":%q}`, alice, string(ver)))
		aliceJoin := f4Event(t, ver, 2, roomID, spec.MRoomMember, &alice, alice, `{"membership":"join"}`)
		tpi := f4Event(t, ver, 3, roomID, spec.MRoomThirdPartyInvite, &empty, alice,
			fmt.Sprintf(`{"display_name":"x","key_validity_url":"https://id.example/v","public_key":%q,"public_keys":[{"public_key":%q}]}`, pubB64, pubB64))

		// (a) a third-party invite with the empty token
		t.Run(fmt.Sprintf("v%s invite", ver), func(t *testing.T) {
			invite := f4Event(t, ver, 4, roomID, spec.MRoomMember, &bob, alice,
				fmt.Sprintf(`{"membership":"invite","third_party_invite":{"display_name":"x","signed":%s}}`, signed))
			check(t, ver, invite, []PDU{create, aliceJoin, tpi})
		})

		// (b) a restricted join that carries such a block: the authoriser's membership is not named either
		if ver == RoomVersionV1 {
			continue
		}
		t.Run(fmt.Sprintf("v%s restricted join", ver), func(t *testing.T) {
			joinRules := f4Event(t, ver, 5, roomID, spec.MRoomJoinRules, &empty, alice, `{"join_rule":"restricted","allow":[]}`)
			join := f4Event(t, ver, 6, roomID, spec.MRoomMember, &bob, bob,
				`{"membership":"join","join_authorised_via_users_server":"@alice:example.org","third_party_invite":{"signed":{"mxid":"@bob:example.org","token":""}}}`)
			check(t, ver, join, []PDU{create, aliceJoin, joinRules, tpi})
		})
	}
}
