// Audit finding 1 (property C08). Belongs in the package root directory
// (package gomatrixserverlib), e.g. /tmp/au4/auth/finding1_test.go.
package gomatrixserverlib

import (
	"encoding/json"
	"fmt"
	"testing"

	"github.com/matrix-org/gomatrixserverlib/spec"
)

func f1Event(t *testing.T, ver RoomVersion, n int, roomID, typ string, stateKey *string, sender, content string) PDU {
	t.Helper()
	m := map[string]interface{}{
		"type":             typ,
		"sender":           sender,
		"content":          json.RawMessage(content),
		"origin_server_ts": 1000 + n,
		"depth":            n,
		"prev_events":      []interface{}{},
		"auth_events":      []interface{}{},
	}
	if roomID != "" {
		m["room_id"] = roomID
	}
	if stateKey != nil {
		m["state_key"] = *stateKey
	}
	verImpl := MustGetRoomVersion(ver)
	if verImpl.EventFormat() == EventFormatV1 {
		m["event_id"] = fmt.Sprintf("$f1e%d:example.org", n)
	}
	b, err := json.Marshal(m)
	if err != nil {
		t.Fatal(err)
	}
	ev, err := verImpl.NewEventFromTrustedJSON(b, false)
	if err != nil {
		t.Fatalf("cannot build event: %v\n%s", err, b)
	}
	return ev
}

// A moderator (level 50) removes the events["m.room.history_visibility"] = 100
// entry from the power levels. Because events_default is 100 as well, the
// library sees "no change" - but m.room.history_visibility is a state event and
// falls back to state_default (50), so afterwards the moderator can send it.
func TestAuditFinding1(t *testing.T) {
	querier := func(roomID spec.RoomID, senderID spec.SenderID) (*spec.UserID, error) {
		return spec.NewUserID(string(senderID), true)
	}
	empty := ""
	alice, mod := "@alice:example.org", "@mod:example.org"
	for _, ver := range []RoomVersion{RoomVersionV1, RoomVersionV6, RoomVersionV10, RoomVersionV11, RoomVersionV12} {
		var create PDU
		roomID := "!room:example.org"
		users := `"users":{"@alice:example.org":100,"@mod:example.org":50}`
		switch ver {
		case RoomVersionV12:
			create = f1Event(t, ver, 1, "", spec.MRoomCreate, &empty, alice, `{"room_version":"12"}`)
			roomID = "!" + create.EventID()[1:]
			users = `"users":{"@mod:example.org":50}` // creators must not be named in v12
		case RoomVersionV11:
			create = f1Event(t, ver, 1, roomID, spec.MRoomCreate, &empty, alice, `{"room_version":"11"}`)
		default:
			create = f1Event(t, ver, 1, roomID, spec.MRoomCreate, &empty, alice, fmt.Sprintf(`{"creator":%q,"room_version":%q}`, alice, string(ver)))
		}
		modJoin := f1Event(t, ver, 2, roomID, spec.MRoomMember, &mod, mod, `{"membership":"join"}`)
		currentPL := f1Event(t, ver, 3, roomID, spec.MRoomPowerLevels, &empty, alice,
			`{`+users+`,"events_default":100,"state_default":50,"events":{"m.room.power_levels":50,"m.room.history_visibility":100}}`)
		proposedPL := f1Event(t, ver, 4, roomID, spec.MRoomPowerLevels, &empty, mod,
			`{`+users+`,"events_default":100,"state_default":50,"events":{"m.room.power_levels":50}}`)
		historyVis := f1Event(t, ver, 5, roomID, "m.room.history_visibility", &empty, mod, `{"history_visibility":"world_readable"}`)

		before, err := NewAuthEvents([]PDU{create, modJoin, currentPL})
		if err != nil {
			t.Fatal(err)
		}
		// sanity: under the current power levels the moderator may NOT send m.room.history_visibility
		if err = Allowed(historyVis, before, querier); err == nil {
			t.Fatalf("v%s: test setup broken, moderator can already send m.room.history_visibility", ver)
		}
		// the moderator proposes power levels that drop the entry whose current value (100) is above 50
		err = Allowed(proposedPL, before, querier)
		if err == nil {
			after, _ := NewAuthEvents([]PDU{create, modJoin, proposedPL})
			t.Errorf("room version %s: a level-50 sender was allowed to remove events[\"m.room.history_visibility\"]=100 (current value above the sender's level); "+
				"m.room.history_visibility by the same sender afterwards: err=%v (was refused before)", ver, Allowed(historyVis, after, querier))
		}
	}
}
