// Audit finding 2 (property C07). Belongs in the package root directory
// (package gomatrixserverlib), e.g. /tmp/au4/auth/finding2_test.go.
package gomatrixserverlib

import (
	"encoding/base64"
	"encoding/json"
	"fmt"
	"testing"

	"github.com/matrix-org/gomatrixserverlib/spec"
	"golang.org/x/crypto/ed25519"
)

func f2Event(t *testing.T, ver RoomVersion, n int, roomID, typ string, stateKey *string, sender, content string) PDU {
	t.Helper()
	m := map[string]interface{}{
		"type":             typ,
		"sender":           sender,
		"content":          json.RawMessage(content),
		"origin_server_ts": 1000 + n,
		"depth":            n,
		"prev_events":      []interface{}{},
		"auth_events":      []interface{}{},
		"room_id":          roomID,
	}
	if stateKey != nil {
		m["state_key"] = *stateKey
	}
	verImpl := MustGetRoomVersion(ver)
	if verImpl.EventFormat() == EventFormatV1 {
		m["event_id"] = fmt.Sprintf("$f2e%d:example.org", n)
	}
	b, err := json.Marshal(m)
	if err != nil {
		t.Fatal(err)
	}
	ev, err := verImpl.NewEventFromTrustedJSON(b, false)
	if err != nil {
		t.Fatalf("cannot build event: %v\n%s", err, b)
	}
	return ev
}

// A third-party invite whose signature verifies under one public_keys entry
// of the m.room.third_party_invite event is refused as soon as ANOTHER entry
// of public_keys is not unpadded base64.
func TestAuditFinding2(t *testing.T) {
	querier := func(roomID spec.RoomID, senderID spec.SenderID) (*spec.UserID, error) {
		return spec.NewUserID(string(senderID), true)
	}
	pub, priv, err := ed25519.GenerateKey(nil)
	if err != nil {
		t.Fatal(err)
	}
	pubB64 := base64.RawStdEncoding.EncodeToString(pub)
	signed, err := SignJSON("id.example", "ed25519:0", priv, []byte(`{"mxid":"@bob:example.org","token":"tok"}`))
	if err != nil {
		t.Fatal(err)
	}
	empty, alice, bob, token := "", "@alice:example.org", "@bob:example.org", "tok"
	roomID := "!room:example.org"
	for _, ver := range []RoomVersion{RoomVersionV1, RoomVersionV6, RoomVersionV10} {
		create := f2Event(t, ver, 1, roomID, spec.MRoomCreate, &empty, alice, fmt.Sprintf(`{"creator":%q,"room_version":%q}`, alice, string(ver)))
		aliceJoin := f2Event(t, ver, 2, roomID, spec.MRoomMember, &alice, alice, `{"membership":"join"}`)
		invite := f2Event(t, ver, 4, roomID, spec.MRoomMember, &bob, alice,
			fmt.Sprintf(`{"membership":"invite","third_party_invite":{"display_name":"b...@x","signed":%s}}`, signed))

		for name, keys := range map[string]string{
			"control: only the good key":   fmt.Sprintf(`[{"public_key":%q}]`, pubB64),
			"good key, then a garbled key": fmt.Sprintf(`[{"public_key":%q},{"public_key":"!!!"}]`, pubB64),
			"garbled key, then good key":   fmt.Sprintf(`[{"public_key":"!!!"},{"public_key":%q}]`, pubB64),
			"padded key, then good key":    fmt.Sprintf(`[{"public_key":%q},{"public_key":%q}]`, pubB64+"=", pubB64),
		} {
			tpi := f2Event(t, ver, 3, roomID, spec.MRoomThirdPartyInvite, &token, alice,
				fmt.Sprintf(`{"display_name":"b...@x","key_validity_url":"https://id.example/valid","public_key":%q,"public_keys":%s}`, pubB64, keys))
			authEvents, err := NewAuthEvents([]PDU{create, aliceJoin, tpi})
			if err != nil {
				t.Fatal(err)
			}
			if err = Allowed(invite, authEvents, querier); err != nil {
				t.Errorf("room version %s, public_keys = %s: the signature verifies under one public_keys entry, but the invite is refused: %v", ver, name, err)
			}
		}
	}
}
