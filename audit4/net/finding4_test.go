// Audit finding 4 (property C20). Belongs in package directory tokens/
// (github.com/matrix-org/gomatrixserverlib/tokens).
package tokens

import (
	"encoding/base64"
	"testing"

	macaroon "gopkg.in/macaroon.v2"
)

// The server name of a login token travels in the macaroon's location field,
// which the macaroon signature does not cover. ValidateToken compares it with
// its own server name, but whoever holds the token can rewrite (or remove) the
// field without invalidating the signature. The altered token then validates
// under another server name.
func TestAuditFinding4(t *testing.T) {
	secret := []byte("shared macaroon secret")
	issue := TokenOptions{ServerPrivateKey: secret, ServerName: "server.a", UserID: "@alice:server.a"}

	token, err := GenerateLoginToken(issue)
	if err != nil {
		t.Fatal(err)
	}
	if err = ValidateToken(issue, token); err != nil {
		t.Fatalf("fresh token does not validate: %v", err)
	}

	relocate := func(location string) string {
		bin, err := base64.RawURLEncoding.DecodeString(token)
		if err != nil {
			t.Fatal(err)
		}
		var mac macaroon.Macaroon
		if err = mac.UnmarshalBinary(bin); err != nil {
			t.Fatal(err)
		}
		mac.SetLocation(location) // no key needed
		out, err := mac.MarshalBinary()
		if err != nil {
			t.Fatal(err)
		}
		return base64.RawURLEncoding.EncodeToString(out)
	}

	// 1. The unaltered token is (correctly) refused under another server name.
	other := issue
	other.ServerName = "server.b"
	if err = ValidateToken(other, token); err == nil {
		t.Fatalf("token of server.a validates as issued by server.b")
	}

	// 2. Altered: location rewritten to "server.b".
	altered := relocate("server.b")
	if altered == token {
		t.Fatal("alteration had no effect")
	}
	if err = ValidateToken(other, altered); err == nil {
		t.Errorf("a token issued under server name %q, altered to carry location %q, validates under server name %q",
			issue.ServerName, "server.b", other.ServerName)
	}

	// 3. Altered: location removed; validated with options that
	// GenerateLoginToken itself refuses as invalid (empty server name).
	none := issue
	none.ServerName = ""
	if _, gerr := GenerateLoginToken(none); gerr == nil {
		t.Fatal("precondition: an empty server name is expected to be invalid for issuing")
	}
	if err = ValidateToken(none, relocate("")); err == nil {
		t.Errorf("a token issued under server name %q, altered to carry no location, validates under an empty server name",
			issue.ServerName)
	}
}
