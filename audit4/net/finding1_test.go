// Audit finding 1 (property C16). Belongs in package directory fclient/
// (github.com/matrix-org/gomatrixserverlib/fclient).
package fclient

import (
	"context"
	"net/http"
	"net/http/httptest"
	"strings"
	"sync/atomic"
	"testing"

	"github.com/matrix-org/gomatrixserverlib/spec"
	"golang.org/x/crypto/ed25519"
)

// A destination such as "evil@127.0.0.1:PORT" is not a server name
// (spec.ParseAndValidateServerName and ResolveServer refuse it), so a
// federation request to it must not leave the process. The federation client
// however strips the "evil@" part as URL userinfo and sends the request to
// 127.0.0.1:PORT.
func TestAuditFinding1(t *testing.T) {
	var hits int32
	srv := httptest.NewTLSServer(http.HandlerFunc(func(w http.ResponseWriter, r *http.Request) {
		atomic.AddInt32(&hits, 1)
		w.Header().Set("Content-Type", "application/json")
		_, _ = w.Write([]byte(`{}`))
	}))
	defer srv.Close()
	addr := strings.TrimPrefix(srv.URL, "https://") // 127.0.0.1:PORT

	_, priv, err := ed25519.GenerateKey(nil)
	if err != nil {
		t.Fatal(err)
	}
	fc := NewFederationClient(
		[]*SigningIdentity{{ServerName: "me.example", KeyID: "ed25519:1", PrivateKey: priv}},
		WithSkipVerify(true),
	)

	for _, dest := range []spec.ServerName{
		spec.ServerName("evil@" + addr),
		spec.ServerName("user:pass@" + addr),
		spec.ServerName("@" + addr),
	} {
		// Preconditions: the name is invalid, and resolution refuses it.
		if _, _, valid := spec.ParseAndValidateServerName(dest); valid {
			t.Fatalf("%q unexpectedly is a valid server name", dest)
		}
		if _, rerr := ResolveServer(context.Background(), dest); rerr == nil {
			t.Fatalf("ResolveServer(%q) unexpectedly succeeded", dest)
		}

		atomic.StoreInt32(&hits, 0)
		_, err := fc.LookupProfile(context.Background(), "me.example", dest, "@u:x", "")
		if n := atomic.LoadInt32(&hits); n != 0 {
			t.Errorf("destination %q is an invalid server name, but %d request(s) were sent to %s (err=%v)", dest, n, addr, err)
		} else if err == nil {
			t.Errorf("destination %q is an invalid server name, but the call returned no error", dest)
		}
	}
}
