// Audit finding 2 (property C16). Belongs in package directory fclient/
// (github.com/matrix-org/gomatrixserverlib/fclient).
package fclient

import (
	"context"
	"net/http"
	"testing"
	"time"

	"gopkg.in/h2non/gock.v1"
)

// The well-known reply below has NO max-age directive: the text "max-age=5"
// only occurs inside the quoted-string argument of an extension directive.
// Its cache lifetime therefore has to come from the Expires header. The
// library splits Cache-Control at every comma, also inside quoted strings,
// finds the piece `max-age=5` and lets it override Expires.
func TestAuditFinding2(t *testing.T) {
	defer gock.Off()

	expires := time.Now().Add(48 * time.Hour).UTC().Truncate(time.Second)

	gock.New("https://example.com").
		Get("/.well-known/matrix/server").
		Reply(200).
		AddHeader("Cache-Control", `community="UCI,max-age=5,x"`).
		AddHeader("Expires", expires.Format(http.TimeFormat)).
		BodyString(`{"m.server":"matrix.example.com:8448"}`)

	res, err := LookupWellKnown(context.Background(), "example.com")
	if err != nil {
		t.Fatalf("LookupWellKnown: %v", err)
	}
	if res.CacheExpiresAt != expires.Unix() {
		t.Errorf("CacheExpiresAt = %d (now%+d s); want %d (the Expires header, now%+d s): "+
			"the reply carries no max-age directive, only a quoted string that contains the text",
			res.CacheExpiresAt, res.CacheExpiresAt-time.Now().Unix(),
			expires.Unix(), expires.Unix()-time.Now().Unix())
	}
}
