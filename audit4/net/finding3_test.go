// Audit finding 3 (property C13). Belongs in package directory fclient/
// (github.com/matrix-org/gomatrixserverlib/fclient).
package fclient

import (
	"context"
	"net/http"
	"strings"
	"testing"
	"time"

	"github.com/matrix-org/gomatrixserverlib"
	"github.com/matrix-org/gomatrixserverlib/spec"
	"golang.org/x/crypto/ed25519"
)

type auditF3KeyDB struct {
	keys map[gomatrixserverlib.PublicKeyLookupRequest]gomatrixserverlib.PublicKeyLookupResult
}

func (d *auditF3KeyDB) FetcherName() string { return "auditF3KeyDB" }

func (d *auditF3KeyDB) FetchKeys(
	_ context.Context, reqs map[gomatrixserverlib.PublicKeyLookupRequest]spec.Timestamp,
) (map[gomatrixserverlib.PublicKeyLookupRequest]gomatrixserverlib.PublicKeyLookupResult, error) {
	out := map[gomatrixserverlib.PublicKeyLookupRequest]gomatrixserverlib.PublicKeyLookupResult{}
	for r := range reqs {
		if k, ok := d.keys[r]; ok {
			out[r] = k
		}
	}
	return out, nil
}

func (d *auditF3KeyDB) StoreKeys(context.Context, map[gomatrixserverlib.PublicKeyLookupRequest]gomatrixserverlib.PublicKeyLookupResult) error {
	return nil
}

// Two X-Matrix headers of one request that name the same key ID but carry
// different signatures: the later header silently replaces the signature of
// the earlier one. The very same pair of headers is accepted in one order and
// refused in the other. (The neighbouring cases were closed in earlier rounds:
// a parameter repeated inside one header, and two headers naming different
// origins or destinations, are refused whatever their order.)
func TestAuditFinding3(t *testing.T) {
	pub, priv, err := ed25519.GenerateKey(nil)
	if err != nil {
		t.Fatal(err)
	}
	const origin, dest = spec.ServerName("origin.example"), spec.ServerName("dest.example")
	const keyID = gomatrixserverlib.KeyID("ed25519:1")

	keys := &gomatrixserverlib.KeyRing{KeyDatabase: &auditF3KeyDB{
		keys: map[gomatrixserverlib.PublicKeyLookupRequest]gomatrixserverlib.PublicKeyLookupResult{
			{ServerName: origin, KeyID: keyID}: {
				VerifyKey:    gomatrixserverlib.VerifyKey{Key: spec.Base64Bytes(pub)},
				ValidUntilTS: spec.AsTimestamp(time.Now().Add(time.Hour)),
			},
		},
	}}

	build := func() (*http.Request, string) {
		fr := NewFederationRequest("PUT", origin, dest, "/_matrix/federation/v1/send/1")
		if err := fr.SetContent(map[string]interface{}{"pdus": []int{}}); err != nil {
			t.Fatal(err)
		}
		if err := fr.Sign(origin, keyID, priv); err != nil {
			t.Fatal(err)
		}
		hr, err := fr.HTTPRequest()
		if err != nil {
			t.Fatal(err)
		}
		return hr, hr.Header.Get("Authorization")
	}

	verdict := func(order string) bool {
		hr, good := build()
		// the same header with another (well-formed, wrong) signature
		i := strings.Index(good, `sig="`) + len(`sig="`)
		j := i + strings.Index(good[i:], `"`)
		bad := good[:i] + strings.Repeat("A", j-i) + good[j:]
		if order == "bad,good" {
			hr.Header["Authorization"] = []string{bad, good}
		} else {
			hr.Header["Authorization"] = []string{good, bad}
		}
		got, _ := VerifyHTTPRequest(hr, time.Now(), dest, nil, keys)
		return got != nil
	}

	// sanity: the untouched request verifies
	hr, _ := build()
	if got, resp := VerifyHTTPRequest(hr, time.Now(), dest, nil, keys); got == nil {
		t.Fatalf("baseline request refused: %d %v", resp.Code, resp.JSON)
	}

	badGood, goodBad := verdict("bad,good"), verdict("good,bad")
	if badGood != goodBad {
		t.Errorf("two X-Matrix headers naming key %q with different signatures: accepted=%v in the order [bad, good], accepted=%v in the order [good, bad]; "+
			"the verdict must not depend on the order (a key ID that occurs twice is either refused, or every signature is tried)",
			keyID, badGood, goodBad)
	}
}
