// Audit finding 2 (property C17, 255-code-point limit of the room ID on receipt).
//
// Belongs in the package root directory of gomatrixserverlib
// (external test package gomatrixserverlib_test, public API only):
//
//	cp finding2_test.go <worktree>/finding2_test.go
//	go test -vet=off -count=1 -run TestAuditFinding2 .
package gomatrixserverlib_test

import (
	"crypto/ed25519"
	"crypto/sha256"
	"encoding/json"
	"strings"
	"testing"

	"github.com/matrix-org/gomatrixserverlib"
	"github.com/matrix-org/gomatrixserverlib/spec"
)

// signedEventJSON returns the canonical JSON of the event with a correct
// content hash and a signature of example.com.
func signedEventJSON(t *testing.T, impl gomatrixserverlib.IRoomVersion, priv ed25519.PrivateKey, fields map[string]interface{}) []byte {
	t.Helper()
	unhashed, err := json.Marshal(fields)
	if err != nil {
		t.Fatal(err)
	}
	if unhashed, err = gomatrixserverlib.CanonicalJSON(unhashed); err != nil {
		t.Fatal(err)
	}
	sum := sha256.Sum256(unhashed)
	fields["hashes"] = map[string]interface{}{"sha256": spec.Base64Bytes(sum[:])}
	hashed, err := json.Marshal(fields)
	if err != nil {
		t.Fatal(err)
	}
	redacted, err := impl.RedactEventJSON(hashed)
	if err != nil {
		t.Fatal(err)
	}
	signedRedacted, err := gomatrixserverlib.SignJSON("example.com", "ed25519:1", priv, redacted)
	if err != nil {
		t.Fatal(err)
	}
	var sigs struct {
		Signatures json.RawMessage `json:"signatures"`
	}
	if err = json.Unmarshal(signedRedacted, &sigs); err != nil {
		t.Fatal(err)
	}
	fields["signatures"] = sigs.Signatures
	out, err := json.Marshal(fields)
	if err != nil {
		t.Fatal(err)
	}
	if out, err = gomatrixserverlib.CanonicalJSON(out); err != nil {
		t.Fatal(err)
	}
	return out
}

// TestAuditFinding2: in the room versions with domainless room IDs (12 and
// org.matrix.hydra.11) an m.room.create event is accepted on receipt whatever
// its "room_id" member holds, also when that member exceeds 255 code points
// (or 255 bytes): the parser looks at the room ID of every event but the
// create event, and CheckFields never looks at the room ID.
func TestAuditFinding2(t *testing.T) {
	_, priv, err := ed25519.GenerateKey(nil)
	if err != nil {
		t.Fatal(err)
	}
	tested := 0
	for ver, impl := range gomatrixserverlib.RoomVersions() {
		if !impl.DomainlessRoomIDs() {
			continue
		}
		tested++
		for _, roomID := range []string{
			"!" + strings.Repeat("a", 255+1-13) + ":example.com", // 256 code points, 256 bytes
			"!" + strings.Repeat("a", 1000) + ":example.com",     // 1013 code points
			"!" + strings.Repeat("é", 300) + ":example.com",      // 313 code points, 613 bytes
			strings.Repeat("x", 300),                             // not even a room ID
		} {
			fields := func(eventType string) map[string]interface{} {
				return map[string]interface{}{
					"type":             eventType,
					"state_key":        "",
					"room_id":          roomID,
					"sender":           "@alice:example.com",
					"content":          map[string]interface{}{"room_version": string(ver)},
					"depth":            1,
					"origin_server_ts": 1000,
					"prev_events":      []string{},
					"auth_events":      []string{},
				}
			}

			// control: any other event with this room_id is refused
			control := signedEventJSON(t, impl, priv, fields("m.room.name"))
			if _, err = impl.NewEventFromUntrustedJSON(control); err == nil {
				t.Fatalf("room version %s: control event with a room_id of %d bytes was accepted", ver, len(roomID))
			}

			create := signedEventJSON(t, impl, priv, fields(spec.MRoomCreate))
			ev, err := impl.NewEventFromUntrustedJSON(create)
			if err == nil && ev.Redacted() {
				t.Fatalf("test bug: the content hash of the create event does not match")
			}
			if err == nil {
				t.Errorf("room version %s: m.room.create event whose room_id member has %d code points (%d bytes) was accepted on receipt (event %s)",
					ver, len([]rune(roomID)), len(roomID), ev.EventID())
			}
		}
	}
	if tested == 0 {
		t.Fatal("no room version with domainless room IDs is registered")
	}
}
