// Audit finding 1 (property C17, event size limit on receipt).
//
// Belongs in the package root directory of gomatrixserverlib
// (external test package gomatrixserverlib_test, public API only):
//
//	cp finding1_test.go <worktree>/finding1_test.go
//	go test -vet=off -count=1 -run TestAuditFinding1 .
package gomatrixserverlib_test

import (
	"crypto/ed25519"
	"errors"
	"strings"
	"testing"
	"time"

	"github.com/matrix-org/gomatrixserverlib"
	"github.com/matrix-org/gomatrixserverlib/spec"
)

// TestAuditFinding1: an event whose JSON, as it is received from another
// server, is larger than 65 536 bytes must be refused. It is accepted by every
// room version when the excess sits in the "unsigned" member, because the
// untrusted parsers delete "unsigned" (and "age_ts", "outlier",
// "destinations") before they measure the event.
func TestAuditFinding1(t *testing.T) {
	_, priv, err := ed25519.GenerateKey(nil)
	if err != nil {
		t.Fatal(err)
	}
	const maxEventLength = 65536

	for ver, impl := range gomatrixserverlib.RoomVersions() {
		// a valid, signed 60 KB event
		eb := impl.NewEventBuilder()
		eb.Type = "m.room.message"
		eb.SenderID = "@alice:example.com"
		eb.RoomID = "!room:example.com"
		if impl.DomainlessRoomIDs() {
			eb.RoomID = "!" + strings.Repeat("r", 43)
		}
		if ver == gomatrixserverlib.RoomVersionPseudoIDs {
			eb.SenderID = spec.Base64Bytes(priv.Public().(ed25519.PublicKey)).Encode()
		}
		eb.Depth = 5
		eb.Content = spec.RawJSON(`{"body":"` + strings.Repeat("b", 60000) + `"}`)
		built, err := eb.Build(time.Unix(1, 0), "example.com", "ed25519:1", priv)
		if err != nil {
			t.Fatalf("room version %s: cannot build the base event: %v", ver, err)
		}
		base := built.JSON()
		if len(base) >= maxEventLength {
			t.Fatalf("room version %s: base event is already %d bytes", ver, len(base))
		}
		if _, err = impl.NewEventFromUntrustedJSON(base); err != nil {
			t.Fatalf("room version %s: base event (%d bytes) is not accepted: %v", ver, len(base), err)
		}

		// the same event as a remote server would send it, with 10 KB of
		// "unsigned" data: canonical JSON, 70 KB in total
		received := []byte(`{"unsigned":{"x":"` + strings.Repeat("u", 10000) + `"},` + string(base[1:]))
		if canonical, cerr := gomatrixserverlib.CanonicalJSON(received); cerr != nil {
			t.Fatal(cerr)
		} else {
			received = canonical
		}
		if len(received) <= maxEventLength {
			t.Fatalf("test bug: received event is only %d bytes", len(received))
		}

		ev, err := impl.NewEventFromUntrustedJSON(received)
		var tooLarge gomatrixserverlib.EventValidationError
		switch {
		case err == nil:
			t.Errorf("room version %s: an event of %d bytes (> %d) was accepted on receipt (event ID %s)",
				ver, len(received), maxEventLength, ev.EventID())
		case !errors.As(err, &tooLarge) || tooLarge.Persistable:
			t.Errorf("room version %s: an event of %d bytes was refused, but not as too large / not persistable: %v",
				ver, len(received), err)
		}
	}
}
