// Package directory: fclient/   (copy to fclient/finding1_test.go)
//
// C13: "The same request is refused ... if the X-Matrix header is absent or
// malformed". ParseAuthorization trims the parameter names with
// strings.TrimSpace, which strips every Unicode white-space character
// (U+00A0 NO-BREAK SPACE, U+0085 NEXT LINE, U+2003 EM SPACE, ...), not only the
// SP / HTAB that RFC 7230/7235 allow around list members and "=". Those
// characters are >= 0x80 in UTF-8, so they travel through net/http unharmed.
// A header such as
//
//	X-Matrix origin="o",<U+00A0>key="k",sig="s",destination="d"
//
// is not a list of token=value pairs (the second name is not a token) but is
// read exactly like the well-formed header and the request is accepted.
package fclient

import (
	"bufio"
	"bytes"
	"context"
	"crypto/ed25519"
	"net/http"
	"strings"
	"testing"
	"time"

	"github.com/matrix-org/gomatrixserverlib"
	"github.com/matrix-org/gomatrixserverlib/spec"
)

type auditF1KeyDB struct {
	keys map[gomatrixserverlib.PublicKeyLookupRequest]gomatrixserverlib.PublicKeyLookupResult
}

func (d *auditF1KeyDB) FetcherName() string { return "auditF1KeyDB" }
func (d *auditF1KeyDB) FetchKeys(_ context.Context, reqs map[gomatrixserverlib.PublicKeyLookupRequest]spec.Timestamp) (map[gomatrixserverlib.PublicKeyLookupRequest]gomatrixserverlib.PublicKeyLookupResult, error) {
	out := map[gomatrixserverlib.PublicKeyLookupRequest]gomatrixserverlib.PublicKeyLookupResult{}
	for r := range reqs {
		if k, ok := d.keys[r]; ok {
			out[r] = k
		}
	}
	return out, nil
}
func (d *auditF1KeyDB) StoreKeys(context.Context, map[gomatrixserverlib.PublicKeyLookupRequest]gomatrixserverlib.PublicKeyLookupResult) error {
	return nil
}

func TestAuditFinding1(t *testing.T) {
	pub, priv, err := ed25519.GenerateKey(nil)
	if err != nil {
		t.Fatal(err)
	}
	origin, dest := spec.ServerName("origin.example"), spec.ServerName("dest.example")
	keyID := gomatrixserverlib.KeyID("ed25519:k1")
	ring := &gomatrixserverlib.KeyRing{KeyDatabase: &auditF1KeyDB{keys: map[gomatrixserverlib.PublicKeyLookupRequest]gomatrixserverlib.PublicKeyLookupResult{
		{ServerName: origin, KeyID: keyID}: {
			VerifyKey:    gomatrixserverlib.VerifyKey{Key: spec.Base64Bytes(pub)},
			ValidUntilTS: spec.AsTimestamp(time.Now().Add(time.Hour)),
		},
	}}}

	// build the wire form of a correctly signed request, with the
	// Authorization header rewritten by `rewrite`
	send := func(rewrite func(string) string) *http.Request {
		fr := NewFederationRequest("PUT", origin, dest, "/_matrix/federation/v1/send/1")
		if err := fr.SetContent(map[string]interface{}{"pdus": []int{}}); err != nil {
			t.Fatal(err)
		}
		if err := fr.Sign(origin, keyID, priv); err != nil {
			t.Fatal(err)
		}
		hr, err := fr.HTTPRequest()
		if err != nil {
			t.Fatal(err)
		}
		hr.Header.Set("Authorization", rewrite(hr.Header.Get("Authorization")))
		var wire bytes.Buffer
		if err = hr.Write(&wire); err != nil {
			t.Fatal(err)
		}
		// what a Go HTTP server hands to its handler
		rr, err := http.ReadRequest(bufio.NewReader(&wire))
		if err != nil {
			t.Fatalf("the tampered request does not survive the wire: %v", err)
		}
		return rr
	}

	// control: the untouched request is accepted
	if got, resp := VerifyHTTPRequest(send(func(h string) string { return h }), time.Now(), dest, nil, ring); got == nil {
		t.Fatalf("control: well-formed request refused: %+v", resp)
	}

	for _, ws := range []string{"\u00a0", "\u0085", "\u2003", "\u3000"} {
		// 1. in front of a parameter name
		tampered := func(h string) string { return strings.Replace(h, ",key=", ","+ws+"key=", 1) }
		if got, _ := VerifyHTTPRequest(send(tampered), time.Now(), dest, nil, ring); got != nil {
			t.Errorf("malformed X-Matrix header accepted (U+%04X in front of the name \"key\"): %q",
				[]rune(ws)[0], tampered(`X-Matrix origin="origin.example",key="ed25519:k1",sig="...",destination="dest.example"`))
		}
		// 2. between a parameter name and "="
		tampered2 := func(h string) string { return strings.Replace(h, "origin=", "origin"+ws+"=", 1) }
		if got, _ := VerifyHTTPRequest(send(tampered2), time.Now(), dest, nil, ring); got != nil {
			t.Errorf("malformed X-Matrix header accepted (U+%04X between \"origin\" and \"=\")", []rune(ws)[0])
		}
	}

	// the same on the parser alone
	_, o, d, k, s := ParseAuthorization("X-Matrix origin=\"a\",\u00a0key=\"ed25519:1\",sig=\"c2ln\",\u00a0destination=\"b\"")
	_, _ = o, s
	if d != "" || k != "" {
		// "\u00a0key" and "\u00a0destination" are not the parameters "key" and "destination"
		t.Errorf("ParseAuthorization read a malformed header as origin=%q destination=%q key=%q sig=%q", o, d, k, s)
	}
}
