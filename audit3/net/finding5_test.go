// Package directory: fclient/   (copy to fclient/finding5_test.go)
//
// C13: "A federation request signed by its origin and sent through HTTPRequest
// is accepted by VerifyHTTPRequest at the named destination" (quantified over
// "... x key IDs").  HTTPRequest checks that the key ID can be written inside an
// HTTP quoted-string (isSafeInHTTPQuotedString) and a comma can: the header
//
//	X-Matrix origin="origin.example",key="ed25519:a,b",sig="...",destination="dest.example"
//
// is well-formed (RFC 7230 quoted-string, RFC 7235 auth-param). ParseAuthorization
// however splits the parameter list at every comma, also inside a quoted
// string, finds the member `key="ed25519:a` with an unterminated quote and
// declares the whole header malformed: the library refuses (400) a request it
// has itself signed and serialised.
package fclient

import (
	"bufio"
	"bytes"
	"context"
	"crypto/ed25519"
	"net/http"
	"testing"
	"time"

	"github.com/matrix-org/gomatrixserverlib"
	"github.com/matrix-org/gomatrixserverlib/spec"
)

type auditF5KeyDB struct {
	keys map[gomatrixserverlib.PublicKeyLookupRequest]gomatrixserverlib.PublicKeyLookupResult
}

func (d *auditF5KeyDB) FetcherName() string { return "auditF5KeyDB" }
func (d *auditF5KeyDB) FetchKeys(_ context.Context, reqs map[gomatrixserverlib.PublicKeyLookupRequest]spec.Timestamp) (map[gomatrixserverlib.PublicKeyLookupRequest]gomatrixserverlib.PublicKeyLookupResult, error) {
	out := map[gomatrixserverlib.PublicKeyLookupRequest]gomatrixserverlib.PublicKeyLookupResult{}
	for r := range reqs {
		if k, ok := d.keys[r]; ok {
			out[r] = k
		}
	}
	return out, nil
}
func (d *auditF5KeyDB) StoreKeys(context.Context, map[gomatrixserverlib.PublicKeyLookupRequest]gomatrixserverlib.PublicKeyLookupResult) error {
	return nil
}

func TestAuditFinding5(t *testing.T) {
	pub, priv, err := ed25519.GenerateKey(nil)
	if err != nil {
		t.Fatal(err)
	}
	origin, dest := spec.ServerName("origin.example"), spec.ServerName("dest.example")
	for _, keyID := range []gomatrixserverlib.KeyID{
		"ed25519:a b", "ed25519:a=b", "ed25519:a;b", // controls: accepted today
		"ed25519:a,b", "ed25519:,", "ed25519:1,key=x",
	} {
		ring := &gomatrixserverlib.KeyRing{KeyDatabase: &auditF5KeyDB{keys: map[gomatrixserverlib.PublicKeyLookupRequest]gomatrixserverlib.PublicKeyLookupResult{
			{ServerName: origin, KeyID: keyID}: {
				VerifyKey:    gomatrixserverlib.VerifyKey{Key: spec.Base64Bytes(pub)},
				ValidUntilTS: spec.AsTimestamp(time.Now().Add(time.Hour)),
			},
		}}}
		fr := NewFederationRequest("PUT", origin, dest, "/_matrix/federation/v1/send/1")
		if err = fr.SetContent(map[string]interface{}{"pdus": []int{}}); err != nil {
			t.Fatal(err)
		}
		if err = fr.Sign(origin, keyID, priv); err != nil {
			t.Fatal(err)
		}
		hr, err := fr.HTTPRequest()
		if err != nil {
			// refusing to send such a key ID would be a legitimate way to fix this
			t.Logf("key ID %q: HTTPRequest refuses: %v", keyID, err)
			continue
		}
		var wire bytes.Buffer
		if err = hr.Write(&wire); err != nil {
			t.Fatal(err)
		}
		rr, err := http.ReadRequest(bufio.NewReader(&wire))
		if err != nil {
			t.Fatal(err)
		}
		got, resp := VerifyHTTPRequest(rr, time.Now(), dest, nil, ring)
		if got == nil {
			t.Errorf("key ID %q: request signed and sent by the library is refused: %d %v\n  Authorization: %s",
				keyID, resp.Code, resp.JSON, hr.Header.Get("Authorization"))
			continue
		}
		if got.Origin() != origin || got.Destination() != dest || got.Method() != "PUT" || got.RequestURI() != "/_matrix/federation/v1/send/1" {
			t.Errorf("key ID %q: reported %q %q %q %q", keyID, got.Method(), got.RequestURI(), got.Origin(), got.Destination())
		}
	}
}
