// Package directory: fclient/   (copy to fclient/finding4_test.go)
//
// C13: a correctly signed request "is accepted by VerifyHTTPRequest ..." and is
// refused "if the signing key was not valid at the time of receipt".
// VerifyHTTPRequest is given the time of receipt as its `now` argument, but the
// validity rule it installs (StrictValiditySignatureCheck) caps the key's
// valid_until_ts at time.Now()+7d - the process's wall clock, not `now`.
// Whenever the caller's clock is more than 7 days ahead of the wall clock
// (simulated time, replay of recorded traffic, tests), a request signed with a
// key that IS valid at the time of receipt is refused with 401.
package fclient

import (
	"context"
	"crypto/ed25519"
	"io"
	"net/http"
	"strings"
	"testing"
	"time"

	"github.com/matrix-org/gomatrixserverlib"
	"github.com/matrix-org/gomatrixserverlib/spec"
)

type auditF4KeyDB struct {
	keys map[gomatrixserverlib.PublicKeyLookupRequest]gomatrixserverlib.PublicKeyLookupResult
}

func (d *auditF4KeyDB) FetcherName() string { return "auditF4KeyDB" }
func (d *auditF4KeyDB) FetchKeys(_ context.Context, reqs map[gomatrixserverlib.PublicKeyLookupRequest]spec.Timestamp) (map[gomatrixserverlib.PublicKeyLookupRequest]gomatrixserverlib.PublicKeyLookupResult, error) {
	out := map[gomatrixserverlib.PublicKeyLookupRequest]gomatrixserverlib.PublicKeyLookupResult{}
	for r := range reqs {
		if k, ok := d.keys[r]; ok {
			out[r] = k
		}
	}
	return out, nil
}
func (d *auditF4KeyDB) StoreKeys(context.Context, map[gomatrixserverlib.PublicKeyLookupRequest]gomatrixserverlib.PublicKeyLookupResult) error {
	return nil
}

func TestAuditFinding4(t *testing.T) {
	pub, priv, err := ed25519.GenerateKey(nil)
	if err != nil {
		t.Fatal(err)
	}
	origin, dest := spec.ServerName("origin.example"), spec.ServerName("dest.example")
	keyID := gomatrixserverlib.KeyID("ed25519:k1")
	wall := time.Now()
	validUntil := wall.Add(30 * 24 * time.Hour)
	ring := &gomatrixserverlib.KeyRing{KeyDatabase: &auditF4KeyDB{keys: map[gomatrixserverlib.PublicKeyLookupRequest]gomatrixserverlib.PublicKeyLookupResult{
		{ServerName: origin, KeyID: keyID}: {
			VerifyKey:    gomatrixserverlib.VerifyKey{Key: spec.Base64Bytes(pub)},
			ValidUntilTS: spec.AsTimestamp(validUntil),
		},
	}}}
	request := func() *http.Request {
		fr := NewFederationRequest("GET", origin, dest, "/_matrix/federation/v1/version")
		if err := fr.Sign(origin, keyID, priv); err != nil {
			t.Fatal(err)
		}
		hr, err := fr.HTTPRequest()
		if err != nil {
			t.Fatal(err)
		}
		hr.Body = io.NopCloser(strings.NewReader(""))
		return hr
	}

	for _, c := range []struct {
		name   string
		now    time.Time
		accept bool
	}{
		{"received now", wall, true},
		{"received 6 days from now", wall.Add(6 * 24 * time.Hour), true},
		{"received 8 days from now (key valid for 22 more days)", wall.Add(8 * 24 * time.Hour), true},
		{"received 29 days from now (key valid for 1 more day)", wall.Add(29 * 24 * time.Hour), true},
		{"received 31 days from now (key no longer valid)", wall.Add(31 * 24 * time.Hour), false},
	} {
		got, resp := VerifyHTTPRequest(request(), c.now, dest, nil, ring)
		if (got != nil) != c.accept {
			t.Errorf("%s: accepted=%v (code %d %v), want accepted=%v; key valid_until_ts is %s, time of receipt %s",
				c.name, got != nil, resp.Code, resp.JSON, c.accept, validUntil.Format(time.RFC3339), c.now.Format(time.RFC3339))
		}
	}
}
