// Package directory: fclient/   (copy to fclient/finding3_test.go)
//
// C16: "A server name is resolved to connection targets in the order the
// specification prescribes - ... SRV records (_matrix-fed before _matrix), and
// finally port 8448".  If the SRV answer contains, next to valid records, one
// record whose target is not a well-formed host name, net.Resolver.LookupSRV
// returns the valid records TOGETHER WITH an error ("SRV target is invalid";
// documented behaviour since Go 1.16). lookupSRV / handleNoWellKnown look at
// the error only and throw the valid records away, so the name is resolved to
// <server name>:8448 although a usable SRV record exists.
package fclient

import (
	"context"
	"fmt"
	"net"
	"testing"

	"github.com/matrix-org/gomatrixserverlib/spec"
	"github.com/miekg/dns"
	"gopkg.in/h2non/gock.v1"
)

type auditF3DNS struct{}

func (auditF3DNS) ServeDNS(w dns.ResponseWriter, r *dns.Msg) {
	msg := dns.Msg{}
	msg.SetReply(r)
	q := r.Question[0]
	if q.Qtype == dns.TypeSRV && q.Name == "_matrix-fed._tcp.example.com." {
		msg.Authoritative = true
		hdr := dns.RR_Header{Name: q.Name, Rrtype: dns.TypeSRV, Class: dns.ClassINET, Ttl: 60}
		msg.Answer = append(msg.Answer,
			// a good record ...
			&dns.SRV{Hdr: hdr, Priority: 10, Weight: 0, Port: 4242, Target: "matrix.otherexample.com."},
			// ... and one whose target is not a host name (contains a blank)
			&dns.SRV{Hdr: hdr, Priority: 20, Weight: 0, Port: 4343, Target: `bad\032host.otherexample.com.`},
		)
	} else {
		msg.Rcode = dns.RcodeNameError
	}
	_ = w.WriteMsg(&msg)
}

func TestAuditFinding3(t *testing.T) {
	// no .well-known
	defer gock.Off()
	gock.New("https://example.com").Get("/.well-known/matrix/server").Reply(404)

	// fake DNS, as in resolve_test.go
	conn, err := net.ListenUDP("udp", &net.UDPAddr{IP: net.IPv4(127, 0, 0, 1)})
	if err != nil {
		t.Fatal(err)
	}
	listenAddr := conn.LocalAddr().String()
	srv := &dns.Server{PacketConn: conn, Handler: auditF3DNS{}}
	go func() { _ = srv.ActivateAndServe() }()
	defaultResolver := net.DefaultResolver
	net.DefaultResolver = &net.Resolver{
		PreferGo: true,
		Dial: func(ctx context.Context, network, address string) (net.Conn, error) {
			return net.Dial("udp", listenAddr)
		},
	}
	defer func() {
		_ = srv.Shutdown()
		net.DefaultResolver = defaultResolver
	}()

	// what the Go resolver hands to the library: one usable record and an error
	_, records, lookupErr := net.DefaultResolver.LookupSRV(context.Background(), "matrix-fed", "tcp", "example.com")
	if len(records) != 1 || records[0].Target != "matrix.otherexample.com." || lookupErr == nil {
		t.Fatalf("unexpected resolver behaviour: records=%v err=%v", records, lookupErr)
	}

	results, err := ResolveServer(context.Background(), spec.ServerName("example.com"))
	if err != nil {
		t.Fatal(err)
	}
	want := ResolutionResult{Destination: "matrix.otherexample.com:4242", Host: "example.com", TLSServerName: "example.com"}
	if len(results) != 1 || results[0] != want {
		t.Errorf("example.com has the SRV record %q (port 4242) but was resolved to %s, want %s",
			records[0].Target, fmt.Sprintf("%+v", results), fmt.Sprintf("%+v", want))
	}
}
