// Package directory: fclient/   (copy to fclient/finding2_test.go)
//
// C16: "A well-known reply is honoured ... with its cache lifetime taken from
// max-age in preference to Expires."  When the reply has no max-age the
// lifetime has to come from Expires. An HTTP-date has three legal spellings
// (RFC 7231 7.1.1.1 / RFC 9110 5.6.7: IMF-fixdate, rfc850-date, asctime-date;
// "recipients MUST accept all three"). lookupWellKnown only parses the first
// one; an Expires header in one of the other two is silently ignored and the
// result carries CacheExpiresAt == 0 (no lifetime at all).
package fclient

import (
	"context"
	"strings"
	"testing"
	"time"

	"gopkg.in/h2non/gock.v1"
)

func TestAuditFinding2(t *testing.T) {
	expires := time.Now().Add(2 * time.Hour).UTC().Truncate(time.Second)
	spellings := map[string]string{
		// control: the preferred spelling works
		"IMF-fixdate": expires.Format("Mon, 02 Jan 2006 15:04:05 GMT"),
		// the two obsolete but legal spellings
		"rfc850-date":  strings.Replace(expires.Format(time.RFC850), "UTC", "GMT", 1), // Monday, 02-Jan-06 15:04:05 GMT
		"asctime-date": expires.Format(time.ANSIC),                                     // Mon Jan  2 15:04:05 2006
	}
	for _, name := range []string{"IMF-fixdate", "rfc850-date", "asctime-date"} {
		value := spellings[name]
		gock.New("https://example.com").
			Get("/.well-known/matrix/server").
			Reply(200).
			SetHeader("Expires", value).
			BodyString(`{"m.server": "matrix.example.com:8448"}`)
		res, err := LookupWellKnown(context.Background(), "example.com")
		gock.Off()
		if err != nil {
			t.Fatalf("%s: %v", name, err)
		}
		if res.NewAddress != "matrix.example.com:8448" {
			t.Fatalf("%s: m.server = %q", name, res.NewAddress)
		}
		if res.CacheExpiresAt != expires.Unix() {
			t.Errorf("Expires: %s (%s): CacheExpiresAt = %d, want %d", value, name, res.CacheExpiresAt, expires.Unix())
		}
	}

	// max-age still wins over such an Expires header (control, holds today)
	gock.New("https://example.com").
		Get("/.well-known/matrix/server").
		Reply(200).
		SetHeader("Expires", spellings["rfc850-date"]).
		SetHeader("Cache-Control", "max-age=100").
		BodyString(`{"m.server": "matrix.example.com:8448"}`)
	before := time.Now().Unix()
	res, err := LookupWellKnown(context.Background(), "example.com")
	gock.Off()
	if err != nil {
		t.Fatal(err)
	}
	if res.CacheExpiresAt < before+100 || res.CacheExpiresAt > time.Now().Unix()+100 {
		t.Errorf("max-age=100 not preferred: CacheExpiresAt = %d", res.CacheExpiresAt)
	}
}
