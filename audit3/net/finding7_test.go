// Package directory: fclient/   (copy to fclient/finding7_test.go)
//
// C13: "The same request is refused ... if it is addressed to a server name the
// receiver does not own".  A request may carry several "Authorization:
// X-Matrix" header lines (HTTPRequest emits one per signing key).
// readHTTPRequest insists that they all name the same origin, but for the
// destination it simply keeps the value of the LAST line. A request with
//
//	Authorization: X-Matrix origin="origin.example",key="ed25519:zzz",sig="AAAA",destination="not.mine.example"
//	Authorization: X-Matrix origin="origin.example",key="ed25519:k1",sig="<genuine>",destination="dest.example"
//
// is accepted, although one of its X-Matrix headers addresses it to a server
// the receiver does not own - while the very same two lines in the opposite
// order are refused ("Unrecognised server name"). Whether such a request is
// accepted depends on the order of header lines.
package fclient

import (
	"bufio"
	"bytes"
	"context"
	"crypto/ed25519"
	"net/http"
	"testing"
	"time"

	"github.com/matrix-org/gomatrixserverlib"
	"github.com/matrix-org/gomatrixserverlib/spec"
)

type auditF7KeyDB struct {
	keys map[gomatrixserverlib.PublicKeyLookupRequest]gomatrixserverlib.PublicKeyLookupResult
}

func (d *auditF7KeyDB) FetcherName() string { return "auditF7KeyDB" }
func (d *auditF7KeyDB) FetchKeys(_ context.Context, reqs map[gomatrixserverlib.PublicKeyLookupRequest]spec.Timestamp) (map[gomatrixserverlib.PublicKeyLookupRequest]gomatrixserverlib.PublicKeyLookupResult, error) {
	out := map[gomatrixserverlib.PublicKeyLookupRequest]gomatrixserverlib.PublicKeyLookupResult{}
	for r := range reqs {
		if k, ok := d.keys[r]; ok {
			out[r] = k
		}
	}
	return out, nil
}
func (d *auditF7KeyDB) StoreKeys(context.Context, map[gomatrixserverlib.PublicKeyLookupRequest]gomatrixserverlib.PublicKeyLookupResult) error {
	return nil
}

func TestAuditFinding7(t *testing.T) {
	pub, priv, err := ed25519.GenerateKey(nil)
	if err != nil {
		t.Fatal(err)
	}
	origin, dest := spec.ServerName("origin.example"), spec.ServerName("dest.example")
	keyID := gomatrixserverlib.KeyID("ed25519:k1")
	ring := &gomatrixserverlib.KeyRing{KeyDatabase: &auditF7KeyDB{keys: map[gomatrixserverlib.PublicKeyLookupRequest]gomatrixserverlib.PublicKeyLookupResult{
		{ServerName: origin, KeyID: keyID}: {
			VerifyKey:    gomatrixserverlib.VerifyKey{Key: spec.Base64Bytes(pub)},
			ValidUntilTS: spec.AsTimestamp(time.Now().Add(time.Hour)),
		},
	}}}
	foreign := `X-Matrix origin="origin.example",key="ed25519:zzz",sig="AAAA",destination="not.mine.example"`
	send := func(foreignFirst bool) *http.Request {
		fr := NewFederationRequest("PUT", origin, dest, "/_matrix/federation/v1/send/1")
		if err := fr.SetContent(map[string]interface{}{"pdus": []int{}}); err != nil {
			t.Fatal(err)
		}
		if err := fr.Sign(origin, keyID, priv); err != nil {
			t.Fatal(err)
		}
		hr, err := fr.HTTPRequest()
		if err != nil {
			t.Fatal(err)
		}
		genuine := hr.Header.Get("Authorization")
		if foreignFirst {
			hr.Header["Authorization"] = []string{foreign, genuine}
		} else {
			hr.Header["Authorization"] = []string{genuine, foreign}
		}
		var wire bytes.Buffer
		if err = hr.Write(&wire); err != nil {
			t.Fatal(err)
		}
		rr, err := http.ReadRequest(bufio.NewReader(&wire))
		if err != nil {
			t.Fatal(err)
		}
		if len(rr.Header["Authorization"]) != 2 {
			t.Fatalf("expected two Authorization header lines, got %q", rr.Header["Authorization"])
		}
		return rr
	}
	isLocal := func(name spec.ServerName) bool { return name == dest }

	// control: genuine line first, foreign line second - refused today
	if got, _ := VerifyHTTPRequest(send(false), time.Now(), dest, isLocal, ring); got != nil {
		t.Errorf("control: request with a trailing X-Matrix header for not.mine.example accepted")
	}
	// the same two lines the other way round
	for _, local := range []func(spec.ServerName) bool{nil, isLocal} {
		got, _ := VerifyHTTPRequest(send(true), time.Now(), dest, local, ring)
		if got != nil {
			t.Errorf("request carrying an X-Matrix header with destination=\"not.mine.example\" accepted (isLocalServerName given: %v), reported destination %q",
				local != nil, got.Destination())
		}
	}
}
