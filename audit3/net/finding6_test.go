// Package directory: fclient/   (copy to fclient/finding6_test.go)
//
// C13: "The same request is refused ... if the X-Matrix header is absent or
// malformed".  RFC 7235 section 2.1: "each parameter name MUST only occur once"
// in a parameter list. ParseAuthorization lets a later occurrence silently
// overwrite an earlier one, so a header that names two origins (or two
// destinations, keys, signatures),
//
//	X-Matrix origin="attacker.example",origin="origin.example",key=...,sig=...,destination=...
//
// is read as if only the last one were there and the request is accepted. Any
// other reader of the same header (a reverse proxy, a log, an implementation
// that keeps the first occurrence) sees another origin than the one that was
// authenticated.
package fclient

import (
	"bufio"
	"bytes"
	"context"
	"crypto/ed25519"
	"net/http"
	"strings"
	"testing"
	"time"

	"github.com/matrix-org/gomatrixserverlib"
	"github.com/matrix-org/gomatrixserverlib/spec"
)

type auditF6KeyDB struct {
	keys map[gomatrixserverlib.PublicKeyLookupRequest]gomatrixserverlib.PublicKeyLookupResult
}

func (d *auditF6KeyDB) FetcherName() string { return "auditF6KeyDB" }
func (d *auditF6KeyDB) FetchKeys(_ context.Context, reqs map[gomatrixserverlib.PublicKeyLookupRequest]spec.Timestamp) (map[gomatrixserverlib.PublicKeyLookupRequest]gomatrixserverlib.PublicKeyLookupResult, error) {
	out := map[gomatrixserverlib.PublicKeyLookupRequest]gomatrixserverlib.PublicKeyLookupResult{}
	for r := range reqs {
		if k, ok := d.keys[r]; ok {
			out[r] = k
		}
	}
	return out, nil
}
func (d *auditF6KeyDB) StoreKeys(context.Context, map[gomatrixserverlib.PublicKeyLookupRequest]gomatrixserverlib.PublicKeyLookupResult) error {
	return nil
}

func TestAuditFinding6(t *testing.T) {
	pub, priv, err := ed25519.GenerateKey(nil)
	if err != nil {
		t.Fatal(err)
	}
	origin, dest := spec.ServerName("origin.example"), spec.ServerName("dest.example")
	keyID := gomatrixserverlib.KeyID("ed25519:k1")
	ring := &gomatrixserverlib.KeyRing{KeyDatabase: &auditF6KeyDB{keys: map[gomatrixserverlib.PublicKeyLookupRequest]gomatrixserverlib.PublicKeyLookupResult{
		{ServerName: origin, KeyID: keyID}: {
			VerifyKey:    gomatrixserverlib.VerifyKey{Key: spec.Base64Bytes(pub)},
			ValidUntilTS: spec.AsTimestamp(time.Now().Add(time.Hour)),
		},
	}}}
	send := func(rewrite func(string) string) (*http.Request, string) {
		fr := NewFederationRequest("PUT", origin, dest, "/_matrix/federation/v1/send/1")
		if err := fr.SetContent(map[string]interface{}{"pdus": []int{}}); err != nil {
			t.Fatal(err)
		}
		if err := fr.Sign(origin, keyID, priv); err != nil {
			t.Fatal(err)
		}
		hr, err := fr.HTTPRequest()
		if err != nil {
			t.Fatal(err)
		}
		header := rewrite(hr.Header.Get("Authorization"))
		hr.Header.Set("Authorization", header)
		var wire bytes.Buffer
		if err = hr.Write(&wire); err != nil {
			t.Fatal(err)
		}
		rr, err := http.ReadRequest(bufio.NewReader(&wire))
		if err != nil {
			t.Fatal(err)
		}
		return rr, header
	}

	// control: the untouched request is accepted
	rr, _ := send(func(h string) string { return h })
	if got, resp := VerifyHTTPRequest(rr, time.Now(), dest, nil, ring); got == nil {
		t.Fatalf("control: well-formed request refused: %+v", resp)
	}

	for _, c := range []struct{ name, extra string }{
		{"origin", `origin="attacker.example",`},
		{"destination", `destination="somewhere.else.example",`},
		{"key", `key="ed25519:other",`},
		{"sig", `sig="AAAA",`},
	} {
		// the extra parameter is put in front of the genuine parameters
		rr, header := send(func(h string) string { return strings.Replace(h, "X-Matrix ", "X-Matrix "+c.extra, 1) })
		if got, _ := VerifyHTTPRequest(rr, time.Now(), dest, nil, ring); got != nil {
			t.Errorf("header with two %q parameters accepted (as origin %q, destination %q): %s", c.name, got.Origin(), got.Destination(), header)
		}
	}
}
