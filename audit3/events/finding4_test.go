// Package directory: repository root (package gomatrixserverlib).
package gomatrixserverlib

import (
	"crypto/ed25519"
	"testing"
	"time"

	"github.com/matrix-org/gomatrixserverlib/spec"
	"github.com/tidwall/sjson"
)

// C04: an extra top-level key is redactable material. When somebody relaying
// an event adds one, the content hash no longer matches and the parser must
// hand back the redacted form of the event, with the original event ID and
// signatures. That is what happens for "extra": 1 - but not when the name of
// the added key starts with an underscore ("_x", "_", "_room_version"): every
// untrusted parser refuses the event outright ("found top-level '_' key, is
// this a headered event"), in every room version. Any relay can thus make an
// honest event undeliverable to this implementation while all other
// implementations accept it (redacted).
func TestAuditFinding4(t *testing.T) {
	seed := make([]byte, ed25519.SeedSize)
	for i := range seed {
		seed[i] = byte(i + 1)
	}
	key := ed25519.NewKeyFromSeed(seed)

	for _, ver := range []RoomVersion{RoomVersionV1, RoomVersionV4, RoomVersionV10, RoomVersionV12} {
		verImpl := MustGetRoomVersion(ver)
		eb := verImpl.NewEventBuilder()
		eb.SenderID = "@alice:example.org"
		eb.RoomID = "!room:example.org"
		if verImpl.DomainlessRoomIDs() {
			eb.RoomID = "!31hneApxJ_1o-63DmFrpeqnkFfWppnzWso1JvH3ogLM"
		}
		eb.Type = "m.room.message"
		eb.Depth = 5
		eb.Content = spec.RawJSON(`{"body":"x"}`)
		if verImpl.EventFormat() == EventFormatV2 {
			eb.PrevEvents = []string{"$prevprevprevprevprevprevprevprevprevprevpre"}
			eb.AuthEvents = []string{"$authauthauthauthauthauthauthauthauthauthaut"}
		}
		built, err := eb.Build(time.UnixMilli(1700000000000), "example.org", "ed25519:k", key)
		if err != nil {
			t.Fatalf("%s: Build: %v", ver, err)
		}

		// control: an ordinary extra key yields the redacted form
		control, _ := sjson.SetBytes(append([]byte{}, built.JSON()...), "extra", 1)
		ev, err := verImpl.NewEventFromUntrustedJSON(control)
		if err != nil || !ev.Redacted() || ev.EventID() != built.EventID() {
			t.Fatalf("%s: control failed: %v", ver, err)
		}
		want := string(ev.JSON())

		for _, name := range []string{"_x", "_", "_room_version"} {
			tampered, _ := sjson.SetBytes(append([]byte{}, built.JSON()...), name, 1)
			ev, err := verImpl.NewEventFromUntrustedJSON(tampered)
			if err != nil {
				t.Errorf("%s: extra top-level key %q: event refused instead of redacted: %.90s", ver, name, err.Error())
				continue
			}
			if !ev.Redacted() || ev.EventID() != built.EventID() || string(ev.JSON()) != want {
				t.Errorf("%s: extra top-level key %q: not the redacted form of the original", ver, name)
			}
		}
	}
}
