// Package directory: repository root (package gomatrixserverlib).
package gomatrixserverlib

import (
	"crypto/ed25519"
	"crypto/sha256"
	"encoding/json"
	"testing"
	"time"

	"github.com/matrix-org/gomatrixserverlib/spec"
	"github.com/tidwall/gjson"
	"github.com/tidwall/sjson"
)

// C04 / C05: NewEventFromUntrustedJSON accepts events whose "type" is missing
// or null and whose "content" is missing or null (the shape check added for
// "untrusted events need an object content" lets null and absence through,
// and nothing looks at "type"). For such an event the redaction algorithm
// does not keep "exactly the top-level keys ... with their values unchanged":
// it writes "type":"" for a null / absent type and "content":{} for a null /
// absent content. The event ID (v3+) and the signature check are therefore
// computed over an object that is not the redacted form of the event that
// was received.
func TestAuditFinding3(t *testing.T) {
	seed := make([]byte, ed25519.SeedSize)
	for i := range seed {
		seed[i] = byte(i + 1)
	}
	key := ed25519.NewKeyFromSeed(seed)

	rehash := func(js []byte) []byte {
		var m map[string]json.RawMessage
		if err := json.Unmarshal(js, &m); err != nil {
			t.Fatal(err)
		}
		delete(m, "signatures")
		delete(m, "unsigned")
		delete(m, "hashes")
		b, _ := json.Marshal(m)
		c, err := CanonicalJSON(b)
		if err != nil {
			t.Fatal(err)
		}
		sum := sha256.Sum256(c)
		out, err := sjson.SetBytes(js, "hashes.sha256", spec.Base64Bytes(sum[:]).Encode())
		if err != nil {
			t.Fatal(err)
		}
		return out
	}

	type edit struct {
		name string
		key  string
		del  bool
	}
	edits := []edit{
		{"type: null", "type", false},
		{"type absent", "type", true},
		{"content: null", "content", false},
		{"content absent", "content", true},
	}

	for _, ver := range []RoomVersion{RoomVersionV1, RoomVersionV4, RoomVersionV10, RoomVersionV11} {
		verImpl := MustGetRoomVersion(ver)
		eb := verImpl.NewEventBuilder()
		eb.SenderID = "@alice:example.org"
		eb.RoomID = "!room:example.org"
		eb.Type = "m.room.message"
		eb.Depth = 5
		eb.Content = spec.RawJSON(`{"body":"x"}`)
		if verImpl.EventFormat() == EventFormatV2 {
			eb.PrevEvents = []string{"$prevprevprevprevprevprevprevprevprevprevpre"}
			eb.AuthEvents = []string{"$authauthauthauthauthauthauthauthauthauthaut"}
		}
		built, err := eb.Build(time.UnixMilli(1700000000000), "example.org", "ed25519:k", key)
		if err != nil {
			t.Fatalf("%s: Build: %v", ver, err)
		}

		for _, e := range edits {
			js := append([]byte{}, built.JSON()...)
			if e.del {
				js, _ = sjson.DeleteBytes(js, e.key)
			} else {
				js, _ = sjson.SetRawBytes(js, e.key, []byte("null"))
			}
			js = rehash(js) // the sender controls the content hash

			ev, err := verImpl.NewEventFromUntrustedJSON(js)
			if err != nil {
				// Refusing the event is a valid way to satisfy the property.
				continue
			}
			if ev.Redacted() {
				t.Errorf("%s, %s: content hash matches but the event came back redacted", ver, e.name)
			}
			before := gjson.GetBytes(ev.JSON(), e.key)
			redacted, err := verImpl.RedactEventJSON(ev.JSON())
			if err != nil {
				t.Errorf("%s, %s: RedactEventJSON of an accepted event: %v", ver, e.name, err)
				continue
			}
			after := gjson.GetBytes(redacted, e.key)
			if before.Exists() != after.Exists() || before.Raw != after.Raw {
				t.Errorf("%s, %s: event accepted, but redaction changes the kept member %q from %q (present=%v) to %q (present=%v)",
					ver, e.name, e.key, before.Raw, before.Exists(), after.Raw, after.Exists())
			}
		}
	}
}
