// Package directory: repository root (package gomatrixserverlib).
package gomatrixserverlib

import (
	"crypto/ed25519"
	"testing"
	"time"

	"github.com/matrix-org/gomatrixserverlib/spec"
)

// C03: an event produced by EventBuilder.Build must re-parse as untrusted
// input. A proto-event (e.g. a make_join template sent by a remote server,
// see PerformJoin / NewEventBuilderFromProtoEvent) whose "signatures" member
// carries an entry of another entity that is not an object is built, hashed
// and signed without complaint, and the result is refused by
// NewEventFromUntrustedJSON ("malformed event content or signatures").
func TestAuditFinding1(t *testing.T) {
	seed := make([]byte, ed25519.SeedSize)
	for i := range seed {
		seed[i] = byte(i + 1)
	}
	key := ed25519.NewKeyFromSeed(seed)

	for _, sigs := range []string{
		`{"other.org":"x"}`,
		`{"other.org":5}`,
		`{"other.org":["a"]}`,
	} {
		for _, ver := range []RoomVersion{RoomVersionV1, RoomVersionV4, RoomVersionV10, RoomVersionV11} {
			verImpl := MustGetRoomVersion(ver)
			stateKey := "@alice:example.org"
			pe := ProtoEvent{
				SenderID:  "@alice:example.org",
				RoomID:    "!room:example.org",
				Type:      "m.room.member",
				StateKey:  &stateKey,
				Depth:     7,
				Content:   spec.RawJSON(`{"membership":"join"}`),
				Signature: spec.RawJSON(sigs),
			}
			if verImpl.EventFormat() == EventFormatV2 {
				pe.PrevEvents = []string{"$prevprevprevprevprevprevprevprevprevprevpre"}
				pe.AuthEvents = []string{"$authauthauthauthauthauthauthauthauthauthaut"}
			}
			ev, err := verImpl.NewEventBuilderFromProtoEvent(&pe).Build(
				time.UnixMilli(1700000000000), "example.org", "ed25519:k", key,
			)
			if err != nil {
				// Refusing to build such an event is a valid way to satisfy the property.
				continue
			}
			reparsed, err := verImpl.NewEventFromUntrustedJSON(ev.JSON())
			if err != nil {
				t.Errorf("room version %s, proto-event signatures %s: Build produced an event that NewEventFromUntrustedJSON refuses: %v\n%s",
					ver, sigs, err, ev.JSON())
				continue
			}
			if reparsed.EventID() != ev.EventID() || reparsed.Redacted() {
				t.Errorf("room version %s, signatures %s: re-parsed event differs (id %s vs %s, redacted=%v)",
					ver, sigs, reparsed.EventID(), ev.EventID(), reparsed.Redacted())
			}
		}
	}
}
