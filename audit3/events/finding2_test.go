// Package directory: repository root (package gomatrixserverlib).
package gomatrixserverlib

import (
	"crypto/ed25519"
	"fmt"
	"testing"
	"time"

	"github.com/matrix-org/gomatrixserverlib/spec"
)

// C03 (event ID unchanged by edits to "unsigned" and by adding signatures) and
// crash-freedom: in room versions 6 and later PDU.SetUnsignedField stores any
// value in "unsigned" without the canonical-JSON check that PDU.SetUnsigned
// applies (SetUnsigned returns an error for the same value). PDU.Sign then
// runs EnforcedCanonicalJSON over the whole event, "unsigned" included, and -
// having no error result - panics. "unsigned" is not covered by the event ID,
// the content hash or the signatures, so nothing in it may make signing fail.
func TestAuditFinding2(t *testing.T) {
	seed := make([]byte, ed25519.SeedSize)
	for i := range seed {
		seed[i] = byte(i + 1)
	}
	key := ed25519.NewKeyFromSeed(seed)

	for _, ver := range []RoomVersion{RoomVersionV5, RoomVersionV6, RoomVersionV10, RoomVersionV11, RoomVersionV12} {
		for _, value := range []interface{}{1.5, uint64(1) << 60} {
			verImpl := MustGetRoomVersion(ver)
			eb := verImpl.NewEventBuilder()
			eb.SenderID = "@alice:example.org"
			eb.RoomID = "!room:example.org"
			if verImpl.DomainlessRoomIDs() {
				eb.RoomID = "!31hneApxJ_1o-63DmFrpeqnkFfWppnzWso1JvH3ogLM"
			}
			eb.Type = "m.room.message"
			eb.Depth = 5
			eb.Content = spec.RawJSON(`{"body":"x"}`)
			eb.PrevEvents = []string{"$prevprevprevprevprevprevprevprevprevprevpre"}
			eb.AuthEvents = []string{"$authauthauthauthauthauthauthauthauthauthaut"}
			ev, err := eb.Build(time.UnixMilli(1700000000000), "example.org", "ed25519:k", key)
			if err != nil {
				t.Fatalf("%s: Build: %v", ver, err)
			}
			id := ev.EventID()

			if err := ev.SetUnsignedField("age", value); err != nil {
				// Refusing the value (as SetUnsigned does) is a valid way to satisfy the property.
				continue
			}
			func() {
				defer func() {
					if r := recover(); r != nil {
						t.Errorf("room version %s: Sign panicked after SetUnsignedField(\"age\", %v): %.120s", ver, value, fmt.Sprint(r))
					}
				}()
				signed := ev.Sign("other.org", "ed25519:o", key)
				if signed.EventID() != id {
					t.Errorf("room version %s: event ID changed from %s to %s", ver, id, signed.EventID())
				}
			}()
		}
	}
}
