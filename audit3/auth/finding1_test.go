package gomatrixserverlib

// Audit finding 1 (property C07). Belongs in the package root directory
// (package gomatrixserverlib).
//
// An m.room.third_party_invite event is decided by its own rule ("allow if and
// only if the sender's power level is at least the invite level"), which comes
// BEFORE and instead of the generic required-level / '@' state-key rules. The
// library runs the '@' state-key rule on it all the same, so a third-party
// invite whose token (= state key) happens to begin with '@' is refused.

import (
	"fmt"
	"testing"

	"github.com/matrix-org/gomatrixserverlib/spec"
)

func TestAuditFinding1(t *testing.T) {
	querier := func(roomID spec.RoomID, senderID spec.SenderID) (*spec.UserID, error) {
		return spec.NewUserID(string(senderID), true)
	}
	for _, ver := range []RoomVersion{RoomVersionV1, RoomVersionV2, RoomVersionV3, RoomVersionV5, RoomVersionV6, RoomVersionV9, RoomVersionV10, RoomVersionV11, RoomVersionV12} {
		impl := MustGetRoomVersion(ver)
		n := 0
		parse := func(js string) PDU {
			t.Helper()
			ev, err := impl.NewEventFromTrustedJSON([]byte(js), false)
			if err != nil {
				t.Fatalf("v%s: cannot parse %s: %v", ver, js, err)
			}
			return ev
		}
		// references in the format of the room version
		refs := func(create bool) string {
			n++
			if impl.EventFormat() == EventFormatV1 {
				if create {
					return fmt.Sprintf(`"event_id":"$e%d:a","prev_events":[],"auth_events":[]`, n)
				}
				return fmt.Sprintf(`"event_id":"$e%d:a","prev_events":[["$p%d:a",{"sha256":"aaaa"}]],"auth_events":[]`, n, n)
			}
			if create {
				return `"prev_events":[],"auth_events":[]`
			}
			return fmt.Sprintf(`"prev_events":["$p%d"],"auth_events":[]`, n)
		}
		var create PDU
		roomID := "!r:a"
		createContent := fmt.Sprintf(`{"creator":"@creator:a","room_version":%q}`, string(ver))
		if impl.DomainlessRoomIDs() {
			create = parse(fmt.Sprintf(`{"type":"m.room.create","state_key":"","sender":"@creator:a","content":%s,%s,"depth":1,"origin_server_ts":1}`, createContent, refs(true)))
			roomID = "!" + create.EventID()[1:]
		} else {
			create = parse(fmt.Sprintf(`{"type":"m.room.create","state_key":"","sender":"@creator:a","room_id":%q,"content":%s,%s,"depth":1,"origin_server_ts":1}`, roomID, createContent, refs(true)))
		}
		state := func(typ, sender, stateKey, content string) PDU {
			return parse(fmt.Sprintf(`{"type":%q,"state_key":%q,"sender":%q,"room_id":%q,"content":%s,%s,"depth":2,"origin_server_ts":2}`, typ, stateKey, sender, roomID, content, refs(false)))
		}
		powerLevels := state("m.room.power_levels", "@creator:a", "", `{"users":{"@alice:a":50,"@bob:a":0},"invite":50,"state_default":50,"events_default":0}`)
		alice := state("m.room.member", "@alice:a", "@alice:a", `{"membership":"join"}`)
		bob := state("m.room.member", "@bob:a", "@bob:a", `{"membership":"join"}`)
		tpiContent := `{"display_name":"c...@example.org","key_validity_url":"https://id.example.org/_matrix/identity/v2/pubkey/isvalid","public_key":"AAAAAAAAAAAAAAAAAAAAAAAAAAAAAAAAAAAAAAAAAAA","public_keys":[{"public_key":"AAAAAAAAAAAAAAAAAAAAAAAAAAAAAAAAAAAAAAAAAAA"}]}`

		check := func(ev PDU) error {
			provider, err := NewAuthEvents([]PDU{create, powerLevels, alice, bob})
			if err != nil {
				t.Fatal(err)
			}
			return Allowed(ev, provider, querier)
		}

		// Controls: an ordinary token is accepted from alice (level 50 >= invite 50)
		// and refused from bob (level 0 < invite 50).
		if err := check(state("m.room.third_party_invite", "@alice:a", "sometoken", tpiContent)); err != nil {
			t.Errorf("v%s control: third-party invite with an ordinary token refused: %v", ver, err)
		}
		if err := check(state("m.room.third_party_invite", "@bob:a", "sometoken", tpiContent)); err == nil {
			t.Errorf("v%s control: third-party invite below the invite level accepted", ver)
		}

		// The case: the same event, but the token begins with '@'. The rule for
		// m.room.third_party_invite is terminal ("allow if and only if the
		// sender's power level >= invite level"); the '@' rule that follows it
		// in the list does not apply to this event type.
		if err := check(state("m.room.third_party_invite", "@alice:a", "@sometoken", tpiContent)); err != nil {
			t.Errorf("v%s: third-party invite with state key \"@sometoken\" from a joined sender at the invite level must be allowed, got: %v", ver, err)
		}
		// and still refused below the invite level
		if err := check(state("m.room.third_party_invite", "@bob:a", "@sometoken", tpiContent)); err == nil {
			t.Errorf("v%s: third-party invite below the invite level accepted", ver)
		}
	}
}
