package gomatrixserverlib

// Audit finding 3 (property C07, create-event rules). Belongs in the package
// root directory (package gomatrixserverlib).
//
// "If content.room_version is present and is not a recognised version, reject"
// and (v12) "if additional_creators is present and is not an array of valid
// user IDs, reject": the library refuses every unrecognised / ill-typed value
// except the JSON value null, which encoding/json leaves as a nil pointer /
// nil slice, i.e. reads as "absent".

import (
	"fmt"
	"testing"

	"github.com/matrix-org/gomatrixserverlib/spec"
)

func TestAuditFinding3(t *testing.T) {
	querier := func(roomID spec.RoomID, senderID spec.SenderID) (*spec.UserID, error) {
		return spec.NewUserID(string(senderID), true)
	}
	allowedCreate := func(ver RoomVersion, content string) error {
		t.Helper()
		impl := MustGetRoomVersion(ver)
		var js string
		switch {
		case impl.DomainlessRoomIDs():
			js = fmt.Sprintf(`{"type":"m.room.create","state_key":"","sender":"@creator:a","content":%s,"prev_events":[],"auth_events":[],"depth":1,"origin_server_ts":1}`, content)
		case impl.EventFormat() == EventFormatV1:
			js = fmt.Sprintf(`{"type":"m.room.create","state_key":"","sender":"@creator:a","room_id":"!r:a","event_id":"$c:a","content":%s,"prev_events":[],"auth_events":[],"depth":1,"origin_server_ts":1}`, content)
		default:
			js = fmt.Sprintf(`{"type":"m.room.create","state_key":"","sender":"@creator:a","room_id":"!r:a","content":%s,"prev_events":[],"auth_events":[],"depth":1,"origin_server_ts":1}`, content)
		}
		ev, err := impl.NewEventFromTrustedJSON([]byte(js), false)
		if err != nil {
			t.Fatalf("v%s: cannot parse %s: %v", ver, js, err)
		}
		provider, _ := NewAuthEvents(nil)
		return Allowed(ev, provider, querier)
	}

	// room_version (v11 is left out: the owners abstain from unrecognised
	// room_version values in v11)
	for _, ver := range []RoomVersion{RoomVersionV1, RoomVersionV3, RoomVersionV6, RoomVersionV9, RoomVersionV10, RoomVersionV12} {
		// controls
		if err := allowedCreate(ver, fmt.Sprintf(`{"creator":"@creator:a","room_version":%q}`, string(ver))); err != nil {
			t.Errorf("v%s control: well-formed create event refused: %v", ver, err)
		}
		for _, bad := range []string{`"no-such-version"`, `5`, `["10"]`, `{}`, `true`} {
			if err := allowedCreate(ver, `{"creator":"@creator:a","room_version":`+bad+`}`); err == nil {
				t.Errorf("v%s control: room_version %s accepted", ver, bad)
			}
		}
		// the case
		if err := allowedCreate(ver, `{"creator":"@creator:a","room_version":null}`); err == nil {
			t.Errorf("v%s: create event with \"room_version\": null accepted; the member is present and is not a recognised version", ver)
		}
	}

	// additional_creators (v12)
	for _, bad := range []string{`"@other:a"`, `5`, `{}`, `["not a user id"]`, `[5]`} {
		if err := allowedCreate(RoomVersionV12, `{"room_version":"12","additional_creators":`+bad+`}`); err == nil {
			t.Errorf("v12 control: additional_creators %s accepted", bad)
		}
	}
	if err := allowedCreate(RoomVersionV12, `{"room_version":"12","additional_creators":["@other:a"]}`); err != nil {
		t.Errorf("v12 control: well-formed additional_creators refused: %v", err)
	}
	if err := allowedCreate(RoomVersionV12, `{"room_version":"12","additional_creators":null}`); err == nil {
		t.Errorf("v12: create event with \"additional_creators\": null accepted; the member is present and is not an array of user IDs")
	}
}
