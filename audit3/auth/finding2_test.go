package gomatrixserverlib

// Audit finding 2 (properties C07 / C08). Belongs in the package root directory
// (package gomatrixserverlib).
//
// From room version 10 on, a power-levels event whose "users", "events" or
// "notifications" member is present but is not an object of integers must be
// refused. The library refuses arrays, numbers and strings there, but accepts
// the JSON value null: encoding/json stores null into a map as "nothing".
// (This is not the abstained case of a null *level* such as "ban": null or
// "users": {"@u:a": null}; no level is null here, the whole map is.)

import (
	"fmt"
	"testing"

	"github.com/matrix-org/gomatrixserverlib/spec"
)

func TestAuditFinding2(t *testing.T) {
	querier := func(roomID spec.RoomID, senderID spec.SenderID) (*spec.UserID, error) {
		return spec.NewUserID(string(senderID), true)
	}
	for _, ver := range []RoomVersion{RoomVersionV10, RoomVersionV11, RoomVersionV12} {
		impl := MustGetRoomVersion(ver)
		n := 0
		parse := func(js string) PDU {
			t.Helper()
			ev, err := impl.NewEventFromTrustedJSON([]byte(js), false)
			if err != nil {
				t.Fatalf("v%s: cannot parse %s: %v", ver, js, err)
			}
			return ev
		}
		var create PDU
		roomID := "!r:a"
		createContent := fmt.Sprintf(`{"creator":"@creator:a","room_version":%q}`, string(ver))
		if impl.DomainlessRoomIDs() {
			create = parse(fmt.Sprintf(`{"type":"m.room.create","state_key":"","sender":"@creator:a","content":%s,"prev_events":[],"auth_events":[],"depth":1,"origin_server_ts":1}`, createContent))
			roomID = "!" + create.EventID()[1:]
		} else {
			create = parse(fmt.Sprintf(`{"type":"m.room.create","state_key":"","sender":"@creator:a","room_id":%q,"content":%s,"prev_events":[],"auth_events":[],"depth":1,"origin_server_ts":1}`, roomID, createContent))
		}
		state := func(typ, sender, stateKey, content string) PDU {
			n++
			return parse(fmt.Sprintf(`{"type":%q,"state_key":%q,"sender":%q,"room_id":%q,"content":%s,"prev_events":["$p%d"],"auth_events":[],"depth":2,"origin_server_ts":2}`, typ, stateKey, sender, roomID, content, n))
		}
		creator := state("m.room.member", "@creator:a", "@creator:a", `{"membership":"join"}`)
		admin := state("m.room.member", "@admin:a", "@admin:a", `{"membership":"join"}`)
		current := state("m.room.power_levels", "@creator:a", "", `{"users":{"@admin:a":100}}`)

		check := func(sender, content string, withCurrent bool) error {
			auth := []PDU{create, creator, admin}
			if withCurrent {
				auth = append(auth, current)
			}
			provider, err := NewAuthEvents(auth)
			if err != nil {
				t.Fatal(err)
			}
			return Allowed(state("m.room.power_levels", sender, "", content), provider, querier)
		}

		// Controls: well-formed maps are accepted, other non-objects are refused.
		for _, content := range []string{`{"users":{},"events":{},"notifications":{}}`, `{}`} {
			if err := check("@creator:a", content, false); err != nil {
				t.Errorf("v%s control: %s refused: %v", ver, content, err)
			}
		}
		for _, content := range []string{`{"users":[]}`, `{"events":5}`, `{"notifications":"x"}`, `{"events":{"m.room.name":"50"}}`} {
			if err := check("@creator:a", content, false); err == nil {
				t.Errorf("v%s control: %s accepted", ver, content)
			}
		}

		// The case: the member is present and is null, i.e. not an object.
		for _, content := range []string{`{"users":null}`, `{"events":null}`, `{"notifications":null}`} {
			if err := check("@creator:a", content, false); err == nil {
				t.Errorf("v%s: first power-levels event %s was accepted; \"present and not an object of integers\" must be refused", ver, content)
			}
		}
		// ... and likewise as a change to existing power levels by a user at level 100.
		for _, content := range []string{`{"users":null}`, `{"users":{"@admin:a":100},"events":null}`, `{"users":{"@admin:a":100},"notifications":null}`} {
			if err := check("@admin:a", content, true); err == nil {
				t.Errorf("v%s: power-levels change to %s was accepted; \"present and not an object of integers\" must be refused", ver, content)
			}
		}
	}
}
