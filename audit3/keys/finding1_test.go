package gomatrixserverlib

// Audit finding 1 (property C06).
// Belongs in the package root directory (package gomatrixserverlib), next to
// eventcrypto.go.  Run: go test -vet=off -count=1 -run TestAuditFinding1 .

import (
	"context"
	"crypto/sha256"
	"strconv"
	"testing"
	"time"

	"github.com/matrix-org/gomatrixserverlib/spec"
	"golang.org/x/crypto/ed25519"
)

// auditF1DB is an empty key database: no key at all can be obtained from it.
type auditF1DB struct{}

func (auditF1DB) FetcherName() string { return "auditF1DB" }
func (auditF1DB) FetchKeys(context.Context, map[PublicKeyLookupRequest]spec.Timestamp) (map[PublicKeyLookupRequest]PublicKeyLookupResult, error) {
	return map[PublicKeyLookupRequest]PublicKeyLookupResult{}, nil
}
func (auditF1DB) StoreKeys(context.Context, map[PublicKeyLookupRequest]PublicKeyLookupResult) error {
	return nil
}

// UserIDForSender may answer (nil, nil) for a sender it does not know; the
// library documents that answer and handles it in half a dozen places (see the
// commit "a sender lookup that finds no user does not crash ...").
// VerifyEventSignatures "handles" it by silently dropping the sender's server
// from the set of required signers.  For a non-member event in room versions
// 3 and later that set is then empty, VerifyJSONs is called with no request,
// and an event that carries no signature whatsoever verifies.
func TestAuditFinding1(t *testing.T) {
	unknownSender := func(roomID spec.RoomID, senderID spec.SenderID) (*spec.UserID, error) {
		return nil, nil // "no such user"
	}
	ring := KeyRing{KeyDatabase: auditF1DB{}}
	ts := strconv.FormatUint(uint64(spec.AsTimestamp(time.Now())), 10)

	for _, ver := range []RoomVersion{
		RoomVersionV3, RoomVersionV4, RoomVersionV5, RoomVersionV6, RoomVersionV7, RoomVersionV8,
		RoomVersionV9, RoomVersionV10, RoomVersionV11, RoomVersionV12, "org.matrix.msc3667", "org.matrix.msc3787",
	} {
		verImpl := MustGetRoomVersion(ver)
		roomID := "!room:example.org"
		if verImpl.DomainlessRoomIDs() {
			roomID = "!aaaaaaaaaaaaaaaaaaaaaaaaaaaaaaaaaaaaaaaaaaa"
		}
		eventJSON := []byte(`{"type":"m.room.message","room_id":"` + roomID + `","sender":"@mallory:evil.example",` +
			`"content":{"body":"nobody signed this"},"origin_server_ts":` + ts + `,` +
			`"prev_events":[],"auth_events":[],"depth":1}`)
		eventJSON, err := addContentHashesToEvent(eventJSON)
		if err != nil {
			t.Fatal(err)
		}
		// NB: the event has no "signatures" member at all.
		ev, err := verImpl.NewEventFromTrustedJSON(eventJSON, false)
		if err != nil {
			t.Fatalf("room version %s: %v", ver, err)
		}
		if err := VerifyEventSignatures(context.Background(), ev, ring, unknownSender); err == nil {
			t.Errorf("room version %s: an event without any signature verified (the sender lookup answered nil, nil)", ver)
		}
	}

	// The same through the untrusted parser: the event is signed by an
	// unrelated server only, whose key nobody can even obtain.
	seed := sha256.Sum256([]byte("audit finding 1"))
	priv := ed25519.NewKeyFromSeed(seed[:])
	eventJSON := []byte(`{"type":"m.room.message","room_id":"!room:example.org","sender":"@mallory:evil.example",` +
		`"content":{"body":"signed by somebody else only"},"origin_server_ts":` + ts + `,` +
		`"prev_events":[],"auth_events":[],"depth":1}`)
	eventJSON, err := addContentHashesToEvent(eventJSON)
	if err != nil {
		t.Fatal(err)
	}
	eventJSON, err = signEvent("unrelated.example", "ed25519:1", priv, eventJSON, RoomVersionV10)
	if err != nil {
		t.Fatal(err)
	}
	ev, err := MustGetRoomVersion(RoomVersionV10).NewEventFromUntrustedJSON(eventJSON)
	if err != nil {
		t.Fatal(err)
	}
	if err := VerifyEventSignatures(context.Background(), ev, ring, unknownSender); err == nil {
		t.Errorf("room version 10: an event that the sender's server never signed verified")
	}

	// A member event: the invited user's server has signed, the sender's has not.
	inviteJSON := []byte(`{"type":"m.room.member","state_key":"@bob:unrelated.example","room_id":"!room:example.org",` +
		`"sender":"@mallory:evil.example","content":{"membership":"invite"},"origin_server_ts":` + ts + `,` +
		`"prev_events":[],"auth_events":[],"depth":1}`)
	if inviteJSON, err = addContentHashesToEvent(inviteJSON); err != nil {
		t.Fatal(err)
	}
	if inviteJSON, err = signEvent("unrelated.example", "ed25519:1", priv, inviteJSON, RoomVersionV10); err != nil {
		t.Fatal(err)
	}
	pub := priv.Public().(ed25519.PublicKey)
	ringWithBob := KeyRing{KeyDatabase: &auditF1OneKeyDB{
		req: PublicKeyLookupRequest{ServerName: "unrelated.example", KeyID: "ed25519:1"},
		res: PublicKeyLookupResult{VerifyKey: VerifyKey{Key: spec.Base64Bytes(pub)}, ValidUntilTS: spec.AsTimestamp(time.Now().Add(time.Hour))},
	}}
	if ev, err = MustGetRoomVersion(RoomVersionV10).NewEventFromUntrustedJSON(inviteJSON); err != nil {
		t.Fatal(err)
	}
	if err := VerifyEventSignatures(context.Background(), ev, ringWithBob, unknownSender); err == nil {
		t.Errorf("room version 10: an invite that only the invited user's server signed verified")
	}
}

type auditF1OneKeyDB struct {
	req PublicKeyLookupRequest
	res PublicKeyLookupResult
}

func (d *auditF1OneKeyDB) FetcherName() string { return "auditF1OneKeyDB" }
func (d *auditF1OneKeyDB) FetchKeys(_ context.Context, reqs map[PublicKeyLookupRequest]spec.Timestamp) (map[PublicKeyLookupRequest]PublicKeyLookupResult, error) {
	out := map[PublicKeyLookupRequest]PublicKeyLookupResult{}
	if _, ok := reqs[d.req]; ok {
		out[d.req] = d.res
	}
	return out, nil
}
func (d *auditF1OneKeyDB) StoreKeys(context.Context, map[PublicKeyLookupRequest]PublicKeyLookupResult) error {
	return nil
}
