package gomatrixserverlib

// Audit finding 2 (property C06, room versions 1 and 2).
// Belongs in the package root directory (package gomatrixserverlib), next to
// eventV1.go.  Run: go test -vet=off -count=1 -run TestAuditFinding2 .

import (
	"context"
	"crypto/sha256"
	"strconv"
	"testing"
	"time"

	"github.com/matrix-org/gomatrixserverlib/spec"
	"github.com/tidwall/sjson"
	"golang.org/x/crypto/ed25519"
)

type auditF2DB struct {
	keys map[PublicKeyLookupRequest]PublicKeyLookupResult
}

func (d *auditF2DB) FetcherName() string { return "auditF2DB" }
func (d *auditF2DB) FetchKeys(_ context.Context, reqs map[PublicKeyLookupRequest]spec.Timestamp) (map[PublicKeyLookupRequest]PublicKeyLookupResult, error) {
	out := map[PublicKeyLookupRequest]PublicKeyLookupResult{}
	for r := range reqs {
		if k, ok := d.keys[r]; ok {
			out[r] = k
		}
	}
	return out, nil
}
func (d *auditF2DB) StoreKeys(context.Context, map[PublicKeyLookupRequest]PublicKeyLookupResult) error {
	return nil
}

// A room version 1 / 2 event carries its event ID in its JSON.  When such an
// event is read from headered JSON that has no "_event_id" member (or through
// NewEventFromTrustedJSONWithEventID with an empty ID - the input that the
// commit "the event ID is computed at parse time also when the caller passes
// an empty one" caters for in room versions 3+), the empty string overwrites
// the ID that was just decoded from the event.  EventID() is "" and
// VerifyEventSignatures refuses the event ("failed to split event ID")
// although every required server has validly signed it.
func TestAuditFinding2(t *testing.T) {
	seed := sha256.Sum256([]byte("audit finding 2"))
	priv := ed25519.NewKeyFromSeed(seed[:])
	pub := priv.Public().(ed25519.PublicKey)
	now := time.Now()
	ring := KeyRing{KeyDatabase: &auditF2DB{keys: map[PublicKeyLookupRequest]PublicKeyLookupResult{
		{ServerName: "origin.example", KeyID: "ed25519:1"}: {
			VerifyKey:    VerifyKey{Key: spec.Base64Bytes(pub)},
			ValidUntilTS: spec.AsTimestamp(now.Add(time.Hour)),
		},
	}}}
	userIDForSender := func(_ spec.RoomID, senderID spec.SenderID) (*spec.UserID, error) {
		return spec.NewUserID(string(senderID), true)
	}

	for _, ver := range []RoomVersion{RoomVersionV1, RoomVersionV2} {
		verImpl := MustGetRoomVersion(ver)
		eventJSON := []byte(`{"type":"m.room.message","event_id":"$abc:origin.example","room_id":"!room:origin.example",` +
			`"sender":"@alice:origin.example","content":{"body":"hello"},` +
			`"origin_server_ts":` + strconv.FormatInt(now.UnixMilli(), 10) + `,"prev_events":[],"auth_events":[],"depth":1}`)
		eventJSON, err := addContentHashesToEvent(eventJSON)
		if err != nil {
			t.Fatal(err)
		}
		if eventJSON, err = signEvent("origin.example", "ed25519:1", priv, eventJSON, ver); err != nil {
			t.Fatal(err)
		}

		// Baseline: the event is fine and verifies.
		ev, err := verImpl.NewEventFromUntrustedJSON(eventJSON)
		if err != nil {
			t.Fatal(err)
		}
		if err = VerifyEventSignatures(context.Background(), ev, ring, userIDForSender); err != nil {
			t.Fatalf("room version %s: baseline does not verify: %v", ver, err)
		}

		// The same event as headered JSON without "_event_id".
		headered, err := ev.ToHeaderedJSON()
		if err != nil {
			t.Fatal(err)
		}
		if headered, err = sjson.DeleteBytes(headered, "_event_id"); err != nil {
			t.Fatal(err)
		}
		for name, parse := range map[string]func() (PDU, error){
			"NewEventFromHeaderedJSON without _event_id": func() (PDU, error) {
				return NewEventFromHeaderedJSON(headered, false)
			},
			`NewEventFromTrustedJSONWithEventID("", ...)`: func() (PDU, error) {
				return verImpl.NewEventFromTrustedJSONWithEventID("", eventJSON, false)
			},
		} {
			ev2, err := parse()
			if err != nil {
				t.Fatalf("room version %s, %s: %v", ver, name, err)
			}
			if got := ev2.EventID(); got != "$abc:origin.example" {
				t.Errorf("room version %s, %s: EventID() = %q, want %q", ver, name, got, "$abc:origin.example")
			}
			if err = VerifyEventSignatures(context.Background(), ev2, ring, userIDForSender); err != nil {
				t.Errorf("room version %s, %s: a fully signed event does not verify: %v", ver, name, err)
			}
		}
	}
}
