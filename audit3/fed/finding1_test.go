package gomatrixserverlib

// Audit finding 1 (property C14). Belongs in the package root directory
// (package gomatrixserverlib), next to authstate.go.
//
// CheckStateResponse records auth failures per event ID. When a response lists
// an intact event and, somewhere else, a hash-broken copy of the same event
// (which is parsed as the redacted event and has the same event ID), the auth
// failure of the redacted copy also removes the intact copy, although the
// intact copy has verified signatures and is allowed by its auth events.

import (
	"bytes"
	"context"
	"crypto/ed25519"
	"crypto/sha256"
	"fmt"
	"testing"
	"time"

	"github.com/matrix-org/gomatrixserverlib/spec"
	"github.com/tidwall/sjson"
)

const f1KeyID = KeyID("ed25519:f1")

type f1Keys map[spec.ServerName]ed25519.PrivateKey

func f1NewKeys(servers ...string) f1Keys {
	k := f1Keys{}
	for _, s := range servers {
		seed := sha256.Sum256([]byte("f1-seed-" + s))
		k[spec.ServerName(s)] = ed25519.NewKeyFromSeed(seed[:])
	}
	return k
}

// VerifyJSONs really verifies the signature of the named server.
func (k f1Keys) VerifyJSONs(ctx context.Context, requests []VerifyJSONRequest) ([]VerifyJSONResult, error) {
	res := make([]VerifyJSONResult, len(requests))
	for i, r := range requests {
		priv, ok := k[r.ServerName]
		if !ok {
			res[i].Error = fmt.Errorf("no key for %q", r.ServerName)
			continue
		}
		res[i].Error = VerifyJSON(string(r.ServerName), f1KeyID, priv.Public().(ed25519.PublicKey), r.Message)
	}
	return res, nil
}

func f1UserID(roomID spec.RoomID, senderID spec.SenderID) (*spec.UserID, error) {
	return spec.NewUserID(string(senderID), true)
}

type f1Room struct {
	t     *testing.T
	ver   RoomVersion
	keys  f1Keys
	state map[StateKeyTuple]PDU
	last  PDU
	depth int64
	ts    int64
}

func (r *f1Room) build(sender, typ string, stateKey *string, content string) PDU {
	r.t.Helper()
	pe := &ProtoEvent{
		SenderID: sender, RoomID: "!room:a.org", Type: typ, StateKey: stateKey,
		Content: spec.RawJSON(content), Depth: r.depth + 1, PrevEvents: []string{},
	}
	if r.last != nil {
		pe.PrevEvents = []string{r.last.EventID()}
	}
	needed, err := StateNeededForProtoEvent(pe)
	if err != nil {
		r.t.Fatal(err)
	}
	auth := []string{}
	for _, tuple := range needed.Tuples() {
		if ev, ok := r.state[tuple]; ok {
			auth = append(auth, ev.EventID())
		}
	}
	pe.AuthEvents = auth
	_, server, _ := SplitID('@', sender)
	r.ts++
	ev, err := MustGetRoomVersion(r.ver).NewEventBuilderFromProtoEvent(pe).Build(time.UnixMilli(r.ts), server, f1KeyID, r.keys[server])
	if err != nil {
		r.t.Fatalf("building %s: %v", typ, err)
	}
	return ev
}

func (r *f1Room) add(ev PDU) PDU {
	r.state[StateKeyTuple{ev.Type(), *ev.StateKey()}] = ev
	r.last = ev
	r.depth++
	return ev
}

type f1StateResponse struct{ auth, state EventJSONs }

func (s *f1StateResponse) GetAuthEvents() EventJSONs  { return s.auth }
func (s *f1StateResponse) GetStateEvents() EventJSONs { return s.state }

func TestAuditFinding1(t *testing.T) {
	// Room version 8: restricted joins exist, and the redaction algorithm does
	// not keep "join_authorised_via_users_server" (version 9 added that).
	ver := RoomVersionV8
	keys := f1NewKeys("a.org", "b.org")
	r := &f1Room{t: t, ver: ver, keys: keys, state: map[StateKeyTuple]PDU{}, ts: time.Now().UnixMilli() - 100000}
	empty, alice, bob := "", "@alice:a.org", "@bob:b.org"

	r.add(r.build(alice, spec.MRoomCreate, &empty, `{"creator":"@alice:a.org","room_version":"8"}`))
	r.add(r.build(alice, spec.MRoomMember, &alice, `{"membership":"join"}`))
	r.add(r.build(alice, spec.MRoomPowerLevels, &empty, `{"users":{"@alice:a.org":100},"invite":0}`))
	r.add(r.build(alice, spec.MRoomJoinRules, &empty,
		`{"join_rule":"restricted","allow":[{"type":"m.room_membership","room_id":"!other:a.org"}]}`))
	// Bob's restricted join, authorised by (and countersigned for) alice's server.
	bobJoin := r.build(bob, spec.MRoomMember, &bob,
		`{"membership":"join","join_authorised_via_users_server":"@alice:a.org"}`)
	bobJoin = bobJoin.Sign("a.org", f1KeyID, keys["a.org"])
	r.add(bobJoin)

	var state []PDU
	for _, ev := range r.state {
		state = append(state, ev)
	}
	toJSONs := func(evs []PDU) EventJSONs {
		out := EventJSONs{}
		for _, ev := range evs {
			out = append(out, ev.JSON())
		}
		return out
	}

	// Control: the honest response is returned completely.
	_, gotState, err := CheckStateResponse(context.Background(),
		&f1StateResponse{auth: toJSONs(state), state: toJSONs(state)}, ver, keys, nil, f1UserID)
	if err != nil {
		t.Fatalf("control: %v", err)
	}
	if len(gotState) != len(state) {
		t.Fatalf("control: %d of %d state events returned", len(gotState), len(state))
	}

	// A second copy of bob's join whose content was touched: the content hash
	// no longer matches, so the parser keeps the redacted event. Same event ID,
	// signature of b.org still valid, but without the authorising user the
	// redacted join is not allowed in a restricted room.
	tampered, err := sjson.SetBytes(bobJoin.JSON(), "content.displayname", "x")
	if err != nil {
		t.Fatal(err)
	}
	parsedTampered, err := MustGetRoomVersion(ver).NewEventFromUntrustedJSON(tampered)
	if err != nil {
		t.Fatal(err)
	}
	if parsedTampered.EventID() != bobJoin.EventID() || !parsedTampered.Redacted() {
		t.Fatalf("test setup: the tampered copy should be the redacted event with the same ID")
	}

	auth := append(toJSONs(state), tampered) // the broken copy only among the auth events
	_, gotState, err = CheckStateResponse(context.Background(),
		&f1StateResponse{auth: auth, state: toJSONs(state)}, ver, keys, nil, f1UserID)
	if err != nil {
		t.Fatalf("CheckStateResponse: %v", err)
	}

	// The intact copy under "state" has valid signatures of b.org and a.org and
	// is allowed by its auth events (all present and verified): it fails neither
	// check and must be returned.
	if err := VerifyEventSignatures(context.Background(), bobJoin, keys, f1UserID); err != nil {
		t.Fatalf("test setup: intact join does not verify: %v", err)
	}
	found := false
	for _, ev := range gotState {
		if bytes.Equal(ev.JSON(), bobJoin.JSON()) {
			found = true
		}
	}
	if !found {
		t.Errorf("the intact copy of %s (valid signatures, allowed by its auth events) was dropped from the state "+
			"because a hash-broken copy of it was listed among the auth events: %d of %d state events returned",
			bobJoin.EventID(), len(gotState), len(state))
	}
}
