package gomatrixserverlib

// Audit finding 2 (property C14). Belongs in the package root directory
// (package gomatrixserverlib), next to load.go.
//
// LoadAndVerify drops all but the first copy of an event before it looks at
// the signatures. If a batch (a /backfill response, say) lists a copy of an
// event whose signature was damaged and, after it, the intact event, the
// intact event is reported as "listed more than once" (no Event, an Error)
// although it fails none of the checks, and the only result that carries the
// event is the SignatureErr of the damaged copy.

import (
	"context"
	"crypto/ed25519"
	"crypto/sha256"
	"encoding/json"
	"fmt"
	"testing"
	"time"

	"github.com/matrix-org/gomatrixserverlib/spec"
	"github.com/tidwall/sjson"
)

const f2KeyID = KeyID("ed25519:f2")

type f2Keys map[spec.ServerName]ed25519.PrivateKey

func (k f2Keys) VerifyJSONs(ctx context.Context, requests []VerifyJSONRequest) ([]VerifyJSONResult, error) {
	res := make([]VerifyJSONResult, len(requests))
	for i, r := range requests {
		priv, ok := k[r.ServerName]
		if !ok {
			res[i].Error = fmt.Errorf("no key for %q", r.ServerName)
			continue
		}
		res[i].Error = VerifyJSON(string(r.ServerName), f2KeyID, priv.Public().(ed25519.PublicKey), r.Message)
	}
	return res, nil
}

func f2UserID(roomID spec.RoomID, senderID spec.SenderID) (*spec.UserID, error) {
	return spec.NewUserID(string(senderID), true)
}

// f2State answers "the state before the event" with a fixed list.
type f2State struct{ state []PDU }

func (p *f2State) StateIDsBeforeEvent(ctx context.Context, event PDU) ([]string, error) {
	ids := []string{}
	for _, e := range p.state {
		ids = append(ids, e.EventID())
	}
	return ids, nil
}

func (p *f2State) StateBeforeEvent(ctx context.Context, roomVer RoomVersion, event PDU, eventIDs []string) (map[string]PDU, error) {
	out := map[string]PDU{}
	for _, e := range p.state {
		out[e.EventID()] = e
	}
	return out, nil
}

func TestAuditFinding2(t *testing.T) {
	ver := RoomVersionV10
	seed := sha256.Sum256([]byte("f2-seed-a.org"))
	keys := f2Keys{"a.org": ed25519.NewKeyFromSeed(seed[:])}
	alice, empty := "@alice:a.org", ""
	ts := time.Now().UnixMilli() - 100000

	state := map[StateKeyTuple]PDU{}
	byID := map[string]PDU{}
	var last PDU
	var depth int64
	build := func(typ string, stateKey *string, content string) PDU {
		t.Helper()
		pe := &ProtoEvent{
			SenderID: alice, RoomID: "!room:a.org", Type: typ, StateKey: stateKey,
			Content: spec.RawJSON(content), Depth: depth + 1, PrevEvents: []string{},
		}
		if last != nil {
			pe.PrevEvents = []string{last.EventID()}
		}
		needed, err := StateNeededForProtoEvent(pe)
		if err != nil {
			t.Fatal(err)
		}
		auth := []string{}
		for _, tuple := range needed.Tuples() {
			if ev, ok := state[tuple]; ok {
				auth = append(auth, ev.EventID())
			}
		}
		pe.AuthEvents = auth
		ts++
		ev, err := MustGetRoomVersion(ver).NewEventBuilderFromProtoEvent(pe).Build(time.UnixMilli(ts), "a.org", f2KeyID, keys["a.org"])
		if err != nil {
			t.Fatalf("building %s: %v", typ, err)
		}
		byID[ev.EventID()] = ev
		if stateKey != nil {
			state[StateKeyTuple{typ, *stateKey}] = ev
		}
		last = ev
		depth++
		return ev
	}
	build(spec.MRoomCreate, &empty, `{"creator":"@alice:a.org","room_version":"10"}`)
	build(spec.MRoomMember, &alice, `{"membership":"join"}`)
	build(spec.MRoomPowerLevels, &empty, `{"users":{"@alice:a.org":100}}`)
	var before []PDU
	for _, ev := range state {
		before = append(before, ev)
	}
	msg := build("m.room.message", nil, `{"body":"hello"}`)

	provider := func(roomVer RoomVersion, ids []string) ([]PDU, error) {
		out := []PDU{}
		for _, id := range ids {
			if ev, ok := byID[id]; ok {
				out = append(out, ev)
			}
		}
		return out, nil
	}
	loader := NewEventsLoader(ver, keys, &f2State{state: before}, provider, false)

	// Control: the event alone passes every check.
	res, err := loader.LoadAndVerify(context.Background(), []json.RawMessage{msg.JSON()}, TopologicalOrderByPrevEvents, f2UserID)
	if err != nil || len(res) != 1 || res[0].Error != nil || res[0].Event == nil {
		t.Fatalf("control: the event should pass all checks: %+v %v", res, err)
	}

	// A copy of the same event (same event ID: signatures are not part of it)
	// whose signature has been damaged, listed in front of the intact event.
	damaged, err := sjson.SetBytes(msg.JSON(), `signatures.a\.org.`+string(f2KeyID), "AAAA")
	if err != nil {
		t.Fatal(err)
	}
	res, err = loader.LoadAndVerify(context.Background(), []json.RawMessage{damaged, msg.JSON()}, TopologicalOrderByPrevEvents, f2UserID)
	if err != nil {
		t.Fatalf("LoadAndVerify: %v", err)
	}
	if len(res) != 2 {
		t.Fatalf("want one result per input, got %d", len(res))
	}
	// The second input fails none of the checks: one of the two results has to
	// present the event as verified.
	passed := false
	for _, r := range res {
		if r.Error == nil && r.Event != nil && r.Event.EventID() == msg.EventID() {
			passed = true
		}
	}
	if !passed {
		for i, r := range res {
			t.Logf("result %d: has event = %v, error = %v", i, r.Event != nil, r.Error)
		}
		t.Errorf("the intact event %s passes signature, auth chain and state checks, but no result reports it as verified "+
			"because a copy with a damaged signature precedes it in the batch", msg.EventID())
	}
}
