package gomatrixserverlib

// Audit finding 3 (property C15). Belongs in the package root directory
// (package gomatrixserverlib), next to handlejoin.go.
//
// checkRestrictedJoin (used by HandleMakeJoin) skips joined users of other
// servers only if their user ID parses with spec.NewUserID. A member whose
// state key is accepted by the event parser but refused by spec.NewUserID
// (here: a server name with an underscore) is therefore still picked as the
// authorising user, and HandleMakeJoin hands out a join template that names a
// user of another server in join_authorised_via_users_server.

import (
	"context"
	"crypto/ed25519"
	"crypto/sha256"
	"testing"
	"time"

	"github.com/matrix-org/gomatrixserverlib/spec"
	"github.com/tidwall/gjson"
)

const f3KeyID = KeyID("ed25519:f3")

type f3Querier struct {
	state  map[StateKeyTuple]PDU
	joined []PDU
}

func (q *f3Querier) CurrentStateEvent(ctx context.Context, roomID spec.RoomID, eventType string, stateKey string) (PDU, error) {
	return q.state[StateKeyTuple{eventType, stateKey}], nil
}

func (q *f3Querier) InvitePending(ctx context.Context, roomID spec.RoomID, senderID spec.SenderID) (bool, error) {
	return false, nil
}

func (q *f3Querier) RestrictedRoomJoinInfo(ctx context.Context, roomID spec.RoomID, senderID spec.SenderID, localServerName spec.ServerName) (*RestrictedRoomJoinInfo, error) {
	return &RestrictedRoomJoinInfo{LocalServerInRoom: true, UserJoinedToRoom: true, JoinedUsers: q.joined}, nil
}

func f3UserID(roomID spec.RoomID, senderID spec.SenderID) (*spec.UserID, error) {
	return spec.NewUserID(string(senderID), true)
}

func TestAuditFinding3(t *testing.T) {
	const localServer = spec.ServerName("a.org")
	for _, ver := range []RoomVersion{RoomVersionV8, RoomVersionV9, RoomVersionV10, RoomVersionV11} {
		keys := map[spec.ServerName]ed25519.PrivateKey{}
		for _, s := range []string{"a.org", "b.org", "evil_org"} {
			seed := sha256.Sum256([]byte("f3-seed-" + s))
			keys[spec.ServerName(s)] = ed25519.NewKeyFromSeed(seed[:])
		}
		state := map[StateKeyTuple]PDU{}
		var last PDU
		var depth int64
		ts := time.Now().UnixMilli() - 100000
		build := func(sender, typ string, stateKey *string, content string) PDU {
			t.Helper()
			pe := &ProtoEvent{
				SenderID: sender, RoomID: "!room:a.org", Type: typ, StateKey: stateKey,
				Content: spec.RawJSON(content), Depth: depth + 1, PrevEvents: []string{},
			}
			if last != nil {
				pe.PrevEvents = []string{last.EventID()}
			}
			needed, err := StateNeededForProtoEvent(pe)
			if err != nil {
				t.Fatal(err)
			}
			auth := []string{}
			for _, tuple := range needed.Tuples() {
				if ev, ok := state[tuple]; ok {
					auth = append(auth, ev.EventID())
				}
			}
			pe.AuthEvents = auth
			_, server, _ := SplitID('@', sender)
			ts++
			ev, err := MustGetRoomVersion(ver).NewEventBuilderFromProtoEvent(pe).Build(time.UnixMilli(ts), server, f3KeyID, keys[server])
			if err != nil {
				t.Fatalf("%s: building %s: %v", ver, typ, err)
			}
			return ev
		}
		add := func(ev PDU) PDU {
			state[StateKeyTuple{ev.Type(), *ev.StateKey()}] = ev
			last = ev
			depth++
			return ev
		}
		empty, alice := "", "@alice:a.org"
		// The event parser accepts this sender / state key (it only looks for the
		// sigil, a colon and the length); spec.NewUserID refuses it, as '_' is not
		// allowed in a server name.
		remoteAdmin := "@admin:evil_org"
		if _, err := spec.NewUserID(remoteAdmin, true); err == nil {
			t.Fatalf("test setup: %q is expected not to parse", remoteAdmin)
		}

		createContent := `{"creator":"@alice:a.org","room_version":"` + string(ver) + `"}`
		if ver == RoomVersionV11 {
			createContent = `{"room_version":"11"}`
		}
		add(build(alice, spec.MRoomCreate, &empty, createContent))
		add(build(alice, spec.MRoomMember, &alice, `{"membership":"join"}`))
		add(build(alice, spec.MRoomPowerLevels, &empty, `{"users":{"@alice:a.org":100,"@admin:evil_org":100},"invite":50}`))
		adminJoin := add(build(remoteAdmin, spec.MRoomMember, &remoteAdmin, `{"membership":"join"}`))
		if _, err := MustGetRoomVersion(ver).NewEventFromUntrustedJSON(adminJoin.JSON()); err != nil {
			t.Fatalf("test setup: the remote admin's member event should be accepted by the parser: %v", err)
		}
		add(build(alice, spec.MRoomJoinRules, &empty,
			`{"join_rule":"restricted","allow":[{"type":"m.room_membership","room_id":"!other:a.org"}]}`))

		stateList := func() []PDU {
			var out []PDU
			for _, ev := range state {
				out = append(out, ev)
			}
			return out
		}
		roomID, _ := spec.NewRoomID("!room:a.org")
		bob, _ := spec.NewUserID("@bob:b.org", true)

		// The only joined user that could authorise the join belongs to evil_org,
		// not to the local server a.org.
		res, err := HandleMakeJoin(HandleMakeJoinInput{
			Context:           context.Background(),
			UserID:            *bob,
			SenderID:          spec.SenderID(bob.String()),
			RoomID:            *roomID,
			RoomVersion:       ver,
			RemoteVersions:    []RoomVersion{ver},
			RequestOrigin:     "b.org",
			LocalServerName:   localServer,
			LocalServerInRoom: true,
			RoomQuerier:       &f3Querier{state: state, joined: []PDU{adminJoin}},
			UserIDQuerier:     f3UserID,
			BuildEventTemplate: func(pe *ProtoEvent) (PDU, []PDU, error) {
				return build(pe.SenderID, pe.Type, pe.StateKey, string(pe.Content)), stateList(), nil
			},
		})
		if err != nil {
			continue // refused: fine, no local user can authorise the join
		}
		via := gjson.GetBytes(res.JoinTemplateEvent.Content, "join_authorised_via_users_server").String()
		_, viaServer, splitErr := SplitID('@', via)
		if splitErr != nil || viaServer != localServer {
			t.Errorf("room version %s: HandleMakeJoin returned a restricted-join template authorised via %q, "+
				"who is not a user of the local server %q (the local server cannot sign for that user, "+
				"and HandleSendJoin refuses such a join)", ver, via, localServer)
		}
	}
}
